PROP = dict(
    modules=["Shangrla.Props.C03", "Shangrla.Props.RiskLimitComparisonFull"],
    theorems=["Shangrla.C03.cvr_assort_sum", "Shangrla.C03.overstatement_identity", "Shangrla.C03.reject_equiv",
              "Shangrla.C03.cvrAssort_score", "Shangrla.Overstatement.poolMeans_lookup",
              "Shangrla.Overstatement.group_sum", "Shangrla.Overstatement.compData_eq_mapM",
              # C03 composed with C06, C09 and C01 on the literal model (pools, phantoms, style filter, ONEAudit): if the
              # assertion is false on the manual records the audit is ever reported complete with probability at most
              # the risk limit; the per-card datum is read off mvrsToData and equals mvrsToData on every sample
              "Shangrla.RiskLimit.contributes_passes", "Shangrla.RiskLimit.sample_data_formula",
              "Shangrla.RiskLimit.cardDatum_eq", "Shangrla.RiskLimit.score_range",
              "Shangrla.RiskLimit.sample_data_model", "Shangrla.RiskLimit.comparison_full_risk_limit",
              "Shangrla.RiskLimit.example_comparison_full_exact"],
    groups={"overstatement": (1500, 20000)},
    design_ref="DESIGN.md section 5, C03",
    assumptions=[
        "the raw assorter is a parameter: a record carries a = A(record); the theorems hold for every assignment of values "
        "with A(cvr) <= u (the concrete assorters and their range are another package's)",
        "hypothesis hph of overstatement_identity: a phantom CVR that is not scored through a pool mean has A = 1/2 "
        "(true of every phantom made by make_phantoms / the readers under every shipped assorter; a hand-made phantom "
        "record carrying votes outside a pool breaks the identity, see the counterexample in Props/C03.lean); a pooled "
        "phantom needs no hypothesis (its own A value enters the pool mean and the margin alike)",
        "the margin, the pool means and the data are computed under one style flag (stratum.use_style = "
        "contest.use_style = the use_style passed to set_tally_pool_means)",
        "comparison_full_risk_limit (C03 o C06 o C09 o C01): one stratum; the cards are drawn without replacement in "
        "uniformly random order from the whole population of (MVR, CVR) pairs; the false assertion's test has N = number "
        "of cards under audit, t = 1/2 and the u that set_margin_from_cvrs installs; assorter values of CVRs and MVRs in "
        "[0, u]; the per-contest sample thresholds of consistent sampling are not part of the draw tree "
        "(sample_data_model: with use_all=False the data are the same whenever the sampled cards' sample numbers are "
        "within the threshold)",
    ],
)
