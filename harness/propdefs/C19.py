PROP = dict(
    modules=["Shangrla.Props.C19"],
    theorems=["Shangrla.C19.one_record_per_session", "Shangrla.C19.record_identity", "Shangrla.C19.included_iff",
              "Shangrla.C19.readCvrs_ok", "Shangrla.C19.recordIdStr_plain", "Shangrla.C19.recordIdStr_obfuscated",
              "Shangrla.C19.min_positive_rank", "Shangrla.C19.storedRank_spec", "Shangrla.C19.contestVotes_lookup",
              "Shangrla.C19.marks_perm_invariant", "Shangrla.C19.marks_perm_invariant_lookup",
              "Shangrla.C19.uncounted_ignored_iff_enforced", "Shangrla.C19.import_ignores_uncounted_of_enforced",
              "Shangrla.C19.import_ignores_isVote_of_not_enforced",
              "Shangrla.C19.adjudication_wins", "Shangrla.C19.adjudication_order_irrelevant",
              "Shangrla.C19.adjudication_wins_modified_first", "Shangrla.C19.session_contest_value",
              "Shangrla.C19.original_only_of_not_current", "Shangrla.C19.original_kept_of_no_modified",
              "Shangrla.C19.readCvrsDirectory_eq"],
    groups={"dominion": (1500, 12000)},
    design_ref="DESIGN.md section 5, C19",
    assumptions=["a Dominion 'Rank' is a JSON integer (booleans, floats, strings, null are not modelled); "
                 "min_positive_rank additionally assumes the ranks of the candidate's counted marks are not negative "
                 "(negative_rank_witness shows the code stores a negative rank otherwise)",
                 "json.load, re, glob/sorted are not verified: the model scans the image mask itself (leftmost match of "
                 "[0-9]{5}_[0-9]{5}_[0-9]*) and the correspondence compares it with re.search on every run"],
)
