PROP = dict(
    modules=["Shangrla.Props.C01"],
    theorems=["Shangrla.C01.C01_finite_alpha", "Shangrla.C01.C01_finite_betting", "Shangrla.C01.C01_finite_alpha_fixed",
              "Shangrla.C01.C01_finite_alpha_optimal", "Shangrla.C01.C01_finite_betting_fixed",
              "Shangrla.C01.reported_implies_value_betting", "Shangrla.C01.reported_implies_value", "Shangrla.C01.mask_le_alpha",
              "Shangrla.C01.alphaQ_super", "Shangrla.NM.process_ville", "Shangrla.Ville.hitEv_le",
              "Shangrla.Ville.superstep", "Shangrla.NM.Tq_snoc"],
    groups={"nmrisk": (200, 2500), "nm": (800, 10000)},
    design_ref="DESIGN.md section 5, C01",
    partial="proved so far: ALPHA without replacement for every predictable finite estimator; see DESIGN.md for the list of remaining cases",
)
