PROP = dict(
    modules=["Shangrla.Props.C01", "Shangrla.Props.C01IID"],
    theorems=["Shangrla.C01.C01_finite_alpha", "Shangrla.C01.C01_finite_betting", "Shangrla.C01.C01_finite_alpha_fixed",
              "Shangrla.C01.C01_finite_alpha_optimal", "Shangrla.C01.C01_finite_betting_fixed",
              "Shangrla.C01.reported_implies_value_betting",
              "Shangrla.C01.C01_iid_alpha", "Shangrla.C01.C01_iid_betting", "Shangrla.C01.C01_iid_alpha_fixed",
              "Shangrla.C01.C01_iid_betting_fixed", "Shangrla.C01.process_ville_iid", "Shangrla.Ville.hitIID_le", "Shangrla.C01.reported_implies_value", "Shangrla.C01.mask_le_alpha",
              "Shangrla.C01.alphaQ_super", "Shangrla.NM.process_ville", "Shangrla.Ville.hitEv_le",
              "Shangrla.Ville.superstep", "Shangrla.NM.Tq_snoc"],
    groups={"nmrisk": (200, 2500), "nm": (800, 10000)},
    design_ref="DESIGN.md section 5, C01",
    partial="proved: ALPHA and betting, without replacement and IID (finitely supported laws), for every predictable finite estimator / bet, with instances for fixed alternative, optimal comparison, fixed bet; not yet proved in Lean (covered by the exact-risk correspondence/oracle only): shrink_trunc and agrapa instances, Kaplan-Kolmogorov/Markov/Wald, SPRT; laws that are not finitely supported",
)
