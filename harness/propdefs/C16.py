PROP = dict(
    modules=["Shangrla.Props.C16", "Shangrla.Props.C16Run"],
    theorems=["Shangrla.C16.tileTo_spec", "Shangrla.C16.firstCrossing_spec", "Shangrla.C16.det_first_crossing",
              "Shangrla.C16.comparisonPop_spec", "Shangrla.C16.comparisonPop_ok_iff", "Shangrla.C16.marks_unit",
              "Shangrla.C16.assumed_population_comparison", "Shangrla.C16.assumed_population_polling",
              "Shangrla.C16.find_eq", "Shangrla.C16.find_det_first_crossing", "Shangrla.C16.find_det_comparison",
              "Shangrla.C16.quantileInt_const", "Shangrla.C16.prefix_crossing", "Shangrla.C16.prefix_crossing_tail",
              "Shangrla.C16.prefix_crossing_km", "Shangrla.C16.find_prefix_crossing",
              "Shangrla.C16.prefix_crossing_run", "Shangrla.C16.prefix_estimate_seed_irrelevant",
              "Shangrla.C16.maxOf_spec", "Shangrla.C16.contest_is_max", "Shangrla.C16.audit_contest_is_max",
              "Shangrla.C16.auditInj_is_max", "Shangrla.C16.auditInj_eq", "Shangrla.C16.audit_per_contest",
              "Shangrla.C16.audit_order_irrelevant", "Shangrla.C16.auditTotalNoStyle_spec",
              "Shangrla.C16.interleave_classes", "Shangrla.C16.interleave_counts"],
    groups={"samplesize": (1200, 12000)},
    design_ref="DESIGN.md section 5, C16",
    assumptions=[
        "prefix_crossing takes non-anticipation of the history (property C05) as the explicit hypothesis hcausal; C16Run.lean discharges it with C05.hist_prefix_run for EVERY test, estimator and bet (prefix_crossing_run: the only hypothesis left about the test is that it runs on the simulated populations)",
        "the random tails prng.choice(x, size) of the simulation branch are an argument of the model (universally "
        "quantified in the theorems); the harness reproduces them from np.random.RandomState(seed)",
        "Audit.find_sample_size: modelled are the loop over contests, the maximum over the unproved assertions of "
        "each contest, the ONEAudit error injection and the total returned without style information; "
        "mvrs_to_data results are inputs; the cvr.p / total computation with style information is not modelled",
    ],
)
