PROP = dict(
    modules=["Shangrla.Props.C16", "Shangrla.Props.C16Run", "Shangrla.Props.C16Total"],
    theorems=["Shangrla.C16.tileTo_spec", "Shangrla.C16.firstCrossing_spec", "Shangrla.C16.det_first_crossing",
              "Shangrla.C16.comparisonPop_spec", "Shangrla.C16.comparisonPop_ok_iff", "Shangrla.C16.marks_unit",
              "Shangrla.C16.assumed_population_comparison", "Shangrla.C16.assumed_population_polling",
              "Shangrla.C16.find_eq", "Shangrla.C16.find_det_first_crossing", "Shangrla.C16.find_det_comparison",
              "Shangrla.C16.quantileInt_const", "Shangrla.C16.prefix_crossing", "Shangrla.C16.prefix_crossing_tail",
              "Shangrla.C16.prefix_crossing_km", "Shangrla.C16.find_prefix_crossing",
              "Shangrla.C16.prefix_crossing_run", "Shangrla.C16.prefix_estimate_seed_irrelevant",
              "Shangrla.C16.maxOf_spec", "Shangrla.C16.contest_is_max", "Shangrla.C16.audit_contest_is_max",
              "Shangrla.C16.auditInj_is_max", "Shangrla.C16.auditInj_eq", "Shangrla.C16.audit_per_contest",
              "Shangrla.C16.audit_order_irrelevant", "Shangrla.C16.auditTotalNoStyle_spec",
              "Shangrla.C16.interleave_classes", "Shangrla.C16.interleave_counts",
              # the style tail of Audit.find_sample_size (Props/C16Total.lean)
              "Shangrla.C16.oldSize_style", "Shangrla.C16.style_p_sampled", "Shangrla.C16.style_p_eq_spec",
              "Shangrla.C16.style_p_unsampled", "Shangrla.C16.style_p_none", "Shangrla.C16.style_p_range",
              "Shangrla.C16.style_total_eq_ceil", "Shangrla.C16.style_total_ge_sampled",
              "Shangrla.C16.style_total_bounds", "Shangrla.C16.style_p_mono", "Shangrla.C16.style_total_mono",
              "Shangrla.C16.raised_set", "Shangrla.C16.style_p_perm", "Shangrla.C16.style_total_perm",
              "Shangrla.C16.style_order_irrelevant", "Shangrla.C16.style_order_matters",
              "Shangrla.C16.style_not_monotone_unguarded", "Shangrla.C16.style_single",
              "Shangrla.C16.auditTotal_style", "Shangrla.C16.auditTotal_nostyle"],
    groups={"samplesize": (1200, 12000)},
    design_ref="DESIGN.md section 5, C16",
    assumptions=[
        "prefix_crossing takes non-anticipation of the history (property C05) as the explicit hypothesis hcausal; C16Run.lean discharges it with C05.hist_prefix_run for EVERY test, estimator and bet (prefix_crossing_run: the only hypothesis left about the test is that it runs on the simulated populations)",
        "the random tails prng.choice(x, size) of the simulation branch are an argument of the model (universally "
        "quantified in the theorems); the harness reproduces them from np.random.RandomState(seed)",
        "Audit.find_sample_size: modelled are the loop over contests, the maximum over the unproved assertions of "
        "each contest, the ONEAudit error injection, old_sizes, every cvr.p and the returned total of both branches "
        "(style: math.ceil of the sum of p over the non-phantom cards, with numpy's inf/nan for a zero divisor; no style: "
        "the largest contest estimate); mvrs_to_data results are inputs",
        "the style-tail theorems (p is the largest ratio, range, bounds of the total, monotonicity, order-irrelevance, "
        "single-contest sanity) carry the explicit guard that every contest listed on an unsampled card has "
        "cards - (its cards already sampled) > 0 (order-irrelevance: only that no ratio is 0/0); without it "
        "order-irrelevance and monotonicity are false for the code (style_order_matters, style_not_monotone_unguarded, "
        "both replayed on the real code); the float rounding of the sum before math.ceil is not modelled (cases whose "
        "exact sum is within 1e-9 of an integer are excluded from the diff as fragile)",
    ],
)
