PROP = dict(
    modules=["Shangrla.Props.C09", "Shangrla.Props.RiskLimit", "Shangrla.Props.RiskLimitStyle",
             "Shangrla.Props.RiskLimitPlurality", "Shangrla.Props.RiskLimitComparison", "Shangrla.Props.RiskLimitIID", "Shangrla.Props.RiskLimitIRVComparison",
             "Shangrla.Props.RiskLimitIRV", "Shangrla.Props.RiskLimitComparisonFull",
             "Shangrla.Props.RiskLimitComparisonOutcome", "Shangrla.Props.RiskLimitIRVComparisonFull",
             "Shangrla.Props.RiskLimitOutcome", "Shangrla.Props.RiskLimitConsistentSampling"],
    theorems=["Shangrla.C09.pvalues_are_tests", "Shangrla.C09.pvalues_are_tests_pos", "Shangrla.C09.contest_max",
              "Shangrla.C09.audit_max", "Shangrla.C09.audit_max_nan_iff", "Shangrla.C09.audit_max_largest",
              "Shangrla.C09.proved_sticky", "Shangrla.C09.proved_of_le", "Shangrla.C09.dicts_mirror",
              "Shangrla.C09.complete_iff", "Shangrla.C09.complete_iff_nonneg", "Shangrla.C09.complete_iff_checked",
              "Shangrla.C09.complete_after_set", "Shangrla.C09.complete_all_proved", "Shangrla.C09.nan_incomplete",
              "Shangrla.C09.reset_restores", "Shangrla.C09.reset_dicts", "Shangrla.C09.reset_incomplete",
              "Shangrla.C09.params_checked", "Shangrla.C09.set_checked_ok",
              # C09 composed with C01: the probability that the audit is EVER reported complete while some assertion
              # is false is at most that contest's risk limit (draw tree over the cards, any number of looks)
              "Shangrla.RiskLimit.complete_forces", "Shangrla.RiskLimit.hitG_map", "Shangrla.RiskLimit.hitG_mono",
              "Shangrla.RiskLimit.audit_risk_limit", "Shangrla.RiskLimit.audit_risk_limit_any",
              "Shangrla.RiskLimit.audit_risk_limit_alpha_fixed", "Shangrla.RiskLimit.audit_risk_limit_run",
              "Shangrla.RiskLimit.example_exact",
              # style-based sampling (an assertion uses only the cards listing its contest): the sub-population lemma
              "Shangrla.RiskLimit.sum_picks_filterMap", "Shangrla.RiskLimit.hitEv_fuel", "Shangrla.RiskLimit.hitG_filterMap",
              "Shangrla.RiskLimit.auditCompleteOpt_some", "Shangrla.RiskLimit.audit_risk_limit_style", "Shangrla.RiskLimit.audit_risk_limit_style_run",
              "Shangrla.RiskLimit.example_style_exact",
              # with C02 (plurality, polling) and C03/C06 (card-level comparison); sampling with replacement
              "Shangrla.RiskLimit.plurality_null", "Shangrla.RiskLimit.plurality_polling_risk_limit",
              "Shangrla.RiskLimit.supermajority_null", "Shangrla.RiskLimit.supermajority_polling_risk_limit",
              "Shangrla.RiskLimit.comparison_null", "Shangrla.RiskLimit.comparison_risk_limit",
              "Shangrla.RiskLimit.hitIIDG_map", "Shangrla.RiskLimit.audit_risk_limit_iid",
              "Shangrla.RiskLimit.audit_risk_limit_iid_run",
              "Shangrla.RiskLimit.irv_comparison_wrong_winner_risk_limit", "Shangrla.RiskLimit.example_irv_comparison_exact",
              # with C04 (RAIRE sufficiency + social-choice lemma) and C14 (audit-side IRV assorters): a wrong IRV
              # winner makes some RAIRE assertion false on the true ballots, its assorter averages <= 1/2, risk limit
              "Shangrla.RiskLimit.irv_wrong_outcome_false_assertion", "Shangrla.RiskLimit.raire_wrong_outcome_false_assertion",
              "Shangrla.RiskLimit.voteForCand_bridge", "Shangrla.RiskLimit.nebVoteW_bridge", "Shangrla.RiskLimit.nebVoteL_bridge",
              "Shangrla.RiskLimit.nenVoteW_bridge", "Shangrla.RiskLimit.nenVoteL_bridge", "Shangrla.RiskLimit.tallies_bridge",
              "Shangrla.RiskLimit.aligned_wf", "Shangrla.RiskLimit.nebAssort_range", "Shangrla.RiskLimit.nenAssort_range",
              "Shangrla.RiskLimit.irv_assertion_null_neb", "Shangrla.RiskLimit.irv_assertion_null_nen",
              "Shangrla.RiskLimit.irv_assertion_null", "Shangrla.RiskLimit.irv_polling_risk_limit_neb",
              "Shangrla.RiskLimit.irv_polling_risk_limit_nen", "Shangrla.RiskLimit.irv_polling_risk_limit",
              "Shangrla.RiskLimit.irv_wrong_winner_risk_limit", "Shangrla.RiskLimit.raire_wrong_winner_risk_limit",
              "Shangrla.RiskLimit.example_irv_exact",
              # with C03/C06 on the literal overstatement model: comparison and ONEAudit audits with pools, phantoms
              # and the style filter (also registered under C03)
              "Shangrla.RiskLimit.sample_data_model", "Shangrla.RiskLimit.comparison_full_risk_limit",
              "Shangrla.RiskLimit.example_comparison_full_exact",
              # with C02 on top of it: a wrong reported outcome of a plurality / super-majority contest on the manual
              # records => risk limit of the comparison / ONEAudit audit (also registered under C02)
              "Shangrla.RiskLimit.comparison_full_risk_limit_cards",
              "Shangrla.RiskLimit.plurality_comparison_null", "Shangrla.RiskLimit.supermajority_comparison_null",
              "Shangrla.RiskLimit.plurality_comparison_risk_limit", "Shangrla.RiskLimit.supermajority_comparison_risk_limit",
              "Shangrla.RiskLimit.plurality_comparison_risk_limit_zip",
              "Shangrla.RiskLimit.supermajority_comparison_risk_limit_zip",
              "Shangrla.RiskLimit.example_comparison_outcome_exact",
              # with C04 / C14 on top of it: a wrong reported IRV winner on the manual records => risk limit of the
              # comparison / ONEAudit audit of RAIRE's assertions on the literal model (also registered under C14)
              "Shangrla.RiskLimit.irv_comparison_null_iff", "Shangrla.RiskLimit.irv_comparison_false_assertion",
              "Shangrla.RiskLimit.irv_comparison_full_risk_limit",
              "Shangrla.RiskLimit.irv_comparison_full_wrong_winner_risk_limit",
              "Shangrla.RiskLimit.irv_comparison_full_wrong_winner_risk_limit_found",
              "Shangrla.RiskLimit.raire_comparison_full_wrong_winner_risk_limit",
              "Shangrla.RiskLimit.example_irv_comparison_full_exact",
              # the CONTEST-level statements (also registered under C02): the reported outcome of a plurality / approval
              # (k winners) or super-majority contest is wrong => the audit of ALL contests is ever reported complete with
              # probability at most that contest's risk limit, given an assertion for EVERY (winner, loser) pair; for a
              # state of several contests: any contest wrong => at most the largest risk limit
              "Shangrla.RiskLimit.pluralityOutcomeWrong_iff_pair", "Shangrla.RiskLimit.pluralityOutcomeWrong_iff_means",
              "Shangrla.RiskLimit.supermajorityOutcomeWrong_iff_mean",
              "Shangrla.RiskLimit.plurality_outcome_polling_risk_limit",
              "Shangrla.RiskLimit.supermajority_outcome_polling_risk_limit",
              "Shangrla.RiskLimit.foundBallots_listed", "Shangrla.RiskLimit.lostCount_listed",
              "Shangrla.RiskLimit.marks_foundOf", "Shangrla.RiskLimit.valid_foundOf", "Shangrla.RiskLimit.wvalid_foundOf",
              "Shangrla.RiskLimit.pluralityUnconfirmed_of_wrong", "Shangrla.RiskLimit.supermajorityUnconfirmed_of_wrong",
              "Shangrla.RiskLimit.plurality_outcome_comparison_risk_limit",
              "Shangrla.RiskLimit.plurality_outcome_comparison_risk_limit_found",
              "Shangrla.RiskLimit.supermajority_outcome_comparison_risk_limit",
              "Shangrla.RiskLimit.supermajority_outcome_comparison_risk_limit_found",
              "Shangrla.RiskLimit.wrong_outcome_polling_risk_limit", "Shangrla.RiskLimit.wrong_outcome_comparison_risk_limit",
              "Shangrla.RiskLimit.riskLimit_le_max",
              "Shangrla.RiskLimit.audit_polling_risk_limit", "Shangrla.RiskLimit.audit_comparison_risk_limit",
              # contests audited by different methods (polling / comparison, own style flag) in one audit
              "Shangrla.RiskLimit.polling_cards_risk_limit", "Shangrla.RiskLimit.wrong_outcome_risk_limit",
              "Shangrla.RiskLimit.audit_outcome_risk_limit",
              "Shangrla.RiskLimit.pair_name_clash", "Shangrla.RiskLimit.example_k2_wrong", "Shangrla.RiskLimit.example_k2_hall",
              "Shangrla.RiskLimit.example_k2_hall_comparison",
              "Shangrla.RiskLimit.example_outcome_polling_exact", "Shangrla.RiskLimit.example_outcome_comparison_exact",
              # with C07 / C10: the multi-round audit with consistent sampling (sample numbers = a uniformly random
              # order, adaptive per-contest sizes, literal Rounds.step) — fraction of the n! orders on which it is ever
              # reported complete <= risk limit; hitG as a count over the n! orders (also registered under C07)
              "Shangrla.RiskLimit.count_ordersF", "Shangrla.RiskLimit.hitG_eq_count", "Shangrla.RiskLimit.orders_length",
              "Shangrla.RiskLimit.mem_orders_iff", "Shangrla.RiskLimit.orders_nodup",
              "Shangrla.RiskLimit.sortedPairs_cvrList", "Shangrla.RiskLimit.cs_contest_data_prefix",
              "Shangrla.RiskLimit.step_closed", "Shangrla.RiskLimit.roundComplete_forces",
              "Shangrla.RiskLimit.csLoop_prefix", "Shangrla.RiskLimit.csAudit_ever",
              "Shangrla.RiskLimit.csAudit_fraction_le_hitG", "Shangrla.RiskLimit.pLe_style_run_bound",
              "Shangrla.RiskLimit.consistent_sampling_audit_risk_limit",
              "Shangrla.RiskLimit.csLoop_eq_spec", "Shangrla.RiskLimit.csAudit_eq_spec",
              "Shangrla.RiskLimit.example_cs_count", "Shangrla.RiskLimit.example_cs_count_round1",
              "Shangrla.RiskLimit.example_cs_exact"],
    groups={"status": (1200, 12000), "auditrisk": (60, 600)},
    design_ref="DESIGN.md section 5, C09",
    assumptions=["the statistical test and the data extraction (asn.test.test, Assertion.mvrs_to_data) are parameters of "
                 "the model: every theorem holds for every function from (contest, assertion) to (p, history); "
                 "they are modelled and verified by C01/C05/C06/C11/C12",
                 "a contest without assertions has measured risk 0 and counts as complete iff 0 <= its risk limit; "
                 "complete_iff states this conjunct explicitly, it is vacuous for every limit check_audit_parameters accepts",
                 "contest-level theorems (RiskLimitOutcome.lean: plurality_/supermajority_outcome_*_risk_limit, "
                 "audit_polling_/audit_comparison_risk_limit): the contest's assertion list contains an assertion for EVERY "
                 "(reported winner, reported loser) pair, each set up as make_plurality_assertions sets it up (hypothesis "
                 "hall; see C02).  The constructor loop is not modelled; the hypothesis is tested on the real constructor by "
                 "the oracle auditrisk.oracle_outcome and fails when two pairs get the same dict key (known finding F30)"],
)
