PROP = dict(
    modules=["Shangrla.Props.C13"],
    theorems=[
        # the square root: every theorem is for all sqrtF with SqrtOK; the driver's sqrtRat satisfies it
        "Shangrla.C13.sqrtRat_ok",
        # fixed_alternative_mean
        "Shangrla.C13.fixed_alt_ge_mu", "Shangrla.C13.fixed_alt_le_u", "Shangrla.C13.fixed_alt_range",
        # optimal_comparison
        "Shangrla.C13.optimal_comparison_range", "Shangrla.C13.optimal_comparison_range_entry",
        "Shangrla.C13.optimal_comparison_u_one",
        # shrink_trunc
        "Shangrla.C13.shrink_trunc_entry", "Shangrla.C13.shrink_trunc_range",
        "Shangrla.C13.shrink_trunc_above_mu_partial", "Shangrla.C13.shrink_trunc_above_mu_full_false",
        "Shangrla.C13.sliver_ignored", "Shangrla.C13.sliver_ignored_cfg", "Shangrla.C13.sliver_masked",
        # agrapa
        "Shangrla.C13.agrapa_tadj_eq_mu", "Shangrla.C13.cJ_le_one", "Shangrla.C13.agrapa_range_raw",
        "Shangrla.C13.agrapa_range", "Shangrla.C13.agrapa_first_bet",
        # fixed_bet
        "Shangrla.C13.fixed_bet_range",
        # the estimate alpha_mart uses and the factors
        "Shangrla.C13.alpha_alternative_in_range", "Shangrla.C13.factor_nonneg_alpha",
        "Shangrla.C13.factor_nonneg_alpha_ge_mu", "Shangrla.C13.factor_nonneg_betting",
        # every shipped estimator / bet through the dispatch used by the tests
        "Shangrla.C13.estim_range", "Shangrla.C13.bet_range",
        # finiteness of the outputs (Lemmas/NMRange.lean)
        "Shangrla.NMRange.fixedAlternativeMean_all_fin", "Shangrla.NMRange.shrinkTrunc_all_fin",
        "Shangrla.NMRange.agrapa_all_fin",
    ],
    groups={"nm": (1500, 30000)},
    design_ref="DESIGN.md section 5, C13",
    partial="shrink_trunc strictly above mu is proved for mu_j < u(1-eps); the sliver u(1-eps) <= mu_j < u lies "
            "inside alpha_mart's isclose(u, mu_j) band where the estimate is ignored (sliver_ignored)",
)
