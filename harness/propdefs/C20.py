PROP = dict(
    modules=["Shangrla.Props.C20"],
    theorems=["Shangrla.C20.unpruned_iff", "Shangrla.C20.leaves_tagged", "Shangrla.C20.tags_exact_neb",
              "Shangrla.C20.tags_exact_irv", "Shangrla.C20.nebContra_iff_idx"],
    groups={"elimtree": (1500, 30000)},
    design_ref="DESIGN.md section 5, C20",
)
