PROP = dict(
    modules=["Shangrla.Props.C11Mart"],
    theorems=["Shangrla.C11.wellformed_alpha", "Shangrla.C11.wellformed_betting",
              "Shangrla.C11.finish_wellformed", "Shangrla.NM.maskTerm_good", "Shangrla.NM.walk_good",
              "Shangrla.NM.pAndHist_good"],
    groups={"nm": (1500, 30000)},
    design_ref="DESIGN.md section 5, C11",
)
