PROP = dict(
    modules=["Shangrla.Props.C02"],
    theorems=["Shangrla.C02.plurality_iff", "Shangrla.C02.plurality_iff_style", "Shangrla.C02.mean_style_nan",
              "Shangrla.C02.supermajority_iff", "Shangrla.C02.supermajority_iff_style", "Shangrla.C02.hasOneVote_eq",
              "Shangrla.C02.assort_range_plur", "Shangrla.C02.assort_range_super",
              "Shangrla.C02.assort_range_neb", "Shangrla.C02.assort_range_nen",
              "Shangrla.C02.margin_from_tally_plur", "Shangrla.C02.margin_from_tally_super",
              "Shangrla.C02.tallyConsistent_of_enforce", "Shangrla.C02.tallyConsistent_of_noenforce",
              "Shangrla.C02.superCands_perm",
              "Shangrla.C02.witness_F19", "Shangrla.C02.witness_super_noenforce",
              "Shangrla.C02.witness_super_outside"],
    groups={"assorter": (700, 12000)},
    design_ref="DESIGN.md section 5, C02",
    assumptions=[
        "a card's vote dicts have distinct keys (Python dict invariant; CVR.WF in the margin theorems)",
        "candidate names are non-empty strings in the margin theorems: Contest.tally ignores keys that are falsy",
        "share_to_win != 0 (the property quantifies over (0,1)); floats are read as exact rationals",
        "margin_from_tally_plur holds when no card is skipped by the tally (enforce_rules off, or no card with more "
        "than n_winners truthy marks); the excluded region is finding F19 (witness_F19)",
        "margin_from_tally_super holds when the tally counts exactly the valid votes (TallyConsistent): "
        "enforce_rules=True, n_winners=1 and no truthy mark for a name outside the candidate list, or "
        "enforce_rules=False and no card marking two candidates; witnesses of the two excluded regions are "
        "witness_super_outside and witness_super_noenforce",
    ],
)
