PROP = dict(
    modules=["Shangrla.Props.C02", "Shangrla.Props.C02Pairs", "Shangrla.Props.RiskLimitComparisonOutcome",
             "Shangrla.Props.RiskLimitOutcome"],
    theorems=["Shangrla.C02.plurality_iff", "Shangrla.C02.plurality_iff_style", "Shangrla.C02.mean_style_nan",
              "Shangrla.C02.supermajority_iff", "Shangrla.C02.supermajority_iff_style", "Shangrla.C02.hasOneVote_eq",
              "Shangrla.C02.assort_range_plur", "Shangrla.C02.assort_range_super",
              "Shangrla.C02.assort_range_neb", "Shangrla.C02.assort_range_nen",
              "Shangrla.C02.margin_from_tally_plur", "Shangrla.C02.margin_from_tally_super",
              "Shangrla.C02.tallyConsistent_of_enforce", "Shangrla.C02.tallyConsistent_of_noenforce",
              "Shangrla.C02.superCands_perm",
              "Shangrla.C02.witness_F19", "Shangrla.C02.witness_super_noenforce",
              "Shangrla.C02.witness_super_outside",
              # the loops of make_plurality_assertions (model Assorter.pluralityPairs, with the F30 repair): an assertion
              # for EVERY (winner, loser) pair, each pair under its own name, refusal only for a genuine name clash
              "Shangrla.C02.pluralityPairs_complete", "Shangrla.C02.pluralityPairs_sound",
              "Shangrla.C02.pluralityPairs_ok_of_injective",
              # C02 composed with C03, C06, C09 and C01: a wrong reported outcome of a plurality / super-majority contest
              # on the manual records => the comparison / ONEAudit audit (literal overstatement model: pools, phantoms,
              # style filter) is ever reported complete with probability at most the risk limit; mvrOf is the bridge
              # between the ballot model (Model/Vote, Model/Assorter) and the overstatement model's Mvr
              "Shangrla.RiskLimit.mvrAssort_mvrOf", "Shangrla.RiskLimit.mvrA_ballots",
              "Shangrla.RiskLimit.sum_mvrA_ballots", "Shangrla.RiskLimit.length_mvrA_ballots",
              "Shangrla.RiskLimit.marks_foundBallots", "Shangrla.RiskLimit.valid_foundBallots",
              "Shangrla.RiskLimit.wvalid_foundBallots",
              "Shangrla.RiskLimit.plurality_comparison_null_iff", "Shangrla.RiskLimit.plurality_comparison_null",
              "Shangrla.RiskLimit.supermajority_comparison_null_iff", "Shangrla.RiskLimit.supermajority_comparison_null",
              "Shangrla.RiskLimit.comparison_full_data", "Shangrla.RiskLimit.comparison_full_risk_limit_cards",
              "Shangrla.RiskLimit.plurality_comparison_risk_limit", "Shangrla.RiskLimit.plurality_comparison_risk_limit_found",
              "Shangrla.RiskLimit.supermajority_comparison_risk_limit",
              "Shangrla.RiskLimit.supermajority_comparison_risk_limit_found",
              "Shangrla.RiskLimit.plurality_comparison_risk_limit_zip",
              "Shangrla.RiskLimit.supermajority_comparison_risk_limit_zip",
              "Shangrla.RiskLimit.example_comparison_outcome_exact",
              # C02.plurality_iff / supermajority_iff read at the audit level (RiskLimitOutcome.lean): "the reported outcome
              # is wrong" (some reported loser has at least as many marks as some reported winner; winner's valid votes
              # <= f * valid votes) + an assertion for EVERY (winner, loser) pair => contest-level risk limit, polling and
              # comparison / ONEAudit; several contests: any of them wrong => at most the largest risk limit
              "Shangrla.RiskLimit.pluralityOutcomeWrong_iff_pair", "Shangrla.RiskLimit.pluralityOutcomeWrong_iff_means",
              "Shangrla.RiskLimit.supermajorityOutcomeWrong_iff_mean",
              "Shangrla.RiskLimit.plurality_outcome_polling_risk_limit",
              "Shangrla.RiskLimit.supermajority_outcome_polling_risk_limit",
              "Shangrla.RiskLimit.marks_foundOf", "Shangrla.RiskLimit.valid_foundOf", "Shangrla.RiskLimit.wvalid_foundOf",
              "Shangrla.RiskLimit.pluralityUnconfirmed_of_wrong", "Shangrla.RiskLimit.supermajorityUnconfirmed_of_wrong",
              "Shangrla.RiskLimit.plurality_outcome_comparison_risk_limit",
              "Shangrla.RiskLimit.plurality_outcome_comparison_risk_limit_found",
              "Shangrla.RiskLimit.supermajority_outcome_comparison_risk_limit",
              "Shangrla.RiskLimit.supermajority_outcome_comparison_risk_limit_found",
              "Shangrla.RiskLimit.wrong_outcome_polling_risk_limit", "Shangrla.RiskLimit.wrong_outcome_comparison_risk_limit",
              "Shangrla.RiskLimit.audit_polling_risk_limit", "Shangrla.RiskLimit.audit_comparison_risk_limit",
              # contests audited by different methods (polling / comparison, own style flag) in one audit
              "Shangrla.RiskLimit.polling_cards_risk_limit", "Shangrla.RiskLimit.wrong_outcome_risk_limit",
              "Shangrla.RiskLimit.audit_outcome_risk_limit",
              "Shangrla.RiskLimit.pair_name_clash",
              "Shangrla.RiskLimit.example_outcome_polling_exact", "Shangrla.RiskLimit.example_outcome_comparison_exact"],
    groups={"assorter": (700, 12000)},
    design_ref="DESIGN.md section 5, C02",
    assumptions=[
        "a card's vote dicts have distinct keys (Python dict invariant; CVR.WF in the margin theorems)",
        "candidate names are non-empty strings in the margin theorems: Contest.tally ignores keys that are falsy",
        "share_to_win != 0 (the property quantifies over (0,1)); floats are read as exact rationals",
        "margin_from_tally_plur holds when no card is skipped by the tally (enforce_rules off, or no card with more "
        "than n_winners truthy marks); the excluded region is finding F19 (witness_F19)",
        "margin_from_tally_super holds when the tally counts exactly the valid votes (TallyConsistent): "
        "enforce_rules=True, n_winners=1 and no truthy mark for a name outside the candidate list, or "
        "enforce_rules=False and no card marking two candidates; witnesses of the two excluded regions are "
        "witness_super_outside and witness_super_noenforce",
        "plurality_/supermajority_comparison_risk_limit (C02 o C03 o C06 o C09 o C01): the hypotheses of "
        "comparison_full_risk_limit (see C03) with assorter upper bound 1 resp. 1/(2f), 0 < f < 1; the manual record the "
        "overstatement reads off a ballot is mvrOf (has_contest, phantom, assort(ballot)); the CVRs are arbitrary "
        "(reported values in [0,u], an unpooled phantom CVR under audit has A = 1/2); 'wrong outcome' is stated on the "
        "FOUND ballots of the cards under audit (CVR passes the style filter; card found; under style the manual record "
        "lists the contest): marks(w) <= marks(l) + #records scored 0, resp. wvalid <= f * (valid + #records scored 0) "
        "-- exactly equivalent to 'the assertion is false on the manual records' (the _null_iff theorems)",
        "contest-level theorems (RiskLimitOutcome.lean): the contest's assertion list contains, for EVERY pair (w, l) of "
        "a reported winner and a reported loser, an assertion whose data are the plurality assorter 'w v l' (resp. the one "
        "super-majority assertion), set up as make_plurality_assertions / make_supermajority_assertion set it up "
        "(PollingAssertion / ComparisonAssertion: N = cards, t = 1/2, u = assorter bound resp. the bound set_margin_from_cvrs "
        "installs, a shipped test in its documented range).  The constructor loop itself is not modelled (an assertion is "
        "known to the Status model by its name only), so this is a hypothesis; it FAILS on the real code when two pairs get "
        "the same dict key winr + ' v ' + losr (candidates 'a', 'a v b', 'b v c', 'c': 4 pairs, 3 assertions; theorem "
        "pair_name_clash, checked against make_all_assertions).  W and L need not be disjoint or non-empty",
    ],
)
