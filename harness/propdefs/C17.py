PROP = dict(
    modules=["Shangrla.Props.C17"],
    theorems=["Shangrla.C17.dominion_bijection", "Shangrla.C17.hart_bijection", "Shangrla.C17.selection_order",
              "Shangrla.C17.phantom_exact", "Shangrla.C17.from_cvrs_order", "Shangrla.C17.prep_accounts",
              "Shangrla.C17.prep_refuses"],
    groups={"manifest": (2500, 20000)},
    design_ref="DESIGN.md section 5, C17",
)
