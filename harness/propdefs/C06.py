PROP = dict(
    modules=["Shangrla.Props.C06"],
    theorems=["Shangrla.C06.data_in_bound_polling", "Shangrla.C06.data_in_bound_comparison",
              "Shangrla.C06.data_in_bound_oneaudit", "Shangrla.C06.installed_u", "Shangrla.C06.installed_u_value", "Shangrla.C06.installed_u_all",
              "Shangrla.C06.style_filter", "Shangrla.C06.filter_general", "Shangrla.C06.none_threshold_raises",
              "Shangrla.C06.meansInBound_of_poolMeans"],
    groups={"overstatement": (1500, 20000)},
    design_ref="DESIGN.md section 5, C06",
    assumptions=[
        "the raw assorter is a parameter: the theorems hold for every assignment of assorter values in [0, u] "
        "(that the shipped assorters stay in [0, upper_bound] is another package's)",
        "1/2 <= u (upper_bound of the assorter): a phantom CVR is scored 1/2 whatever u is; every assorter whose "
        "assertion can hold has u >= 1/2 (plurality, IRV: 1; super-majority: 1/(2*share), share <= 1)",
        "guards: sample_threshold None under style raises TypeError (F20), a pool label missing from the dict "
        "raises KeyError, fewer CVRs than MVRs IndexError: no data are handed to a test",
    ],
)
