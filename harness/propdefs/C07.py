PROP = dict(
    modules=["Shangrla.Props.C07", "Shangrla.Props.RiskLimitConsistentSampling"],
    theorems=["Shangrla.C07.sample_eq_union", "Shangrla.C07.threshold_eq", "Shangrla.C07.contest_data_eq",
              "Shangrla.C07.sample_nums_function_of_seed_and_position", "Shangrla.C07.sample_nums_deterministic",
              "Shangrla.C07.scratch_eq",
              # refinement of the literal walk to the specification, and the facts that give the specification its
              # meaning (sorted list = permutation of the cards, strictly increasing sample numbers)
              "Shangrla.Sampling.walk_spec", "Shangrla.Sampling.consistentSampling_spec",
              "Shangrla.Sampling.sortedPairs_perm", "Shangrla.Sampling.sortedPairs_strict",
              "Shangrla.Sampling.mem_sortedPairs", "Shangrla.Sampling.cCards_length",
              # consistent sampling inside the audit-level risk limit (also registered under C09): sample numbers =
              # a uniformly random order; a contest's data are the used values of a prefix of that order, in every
              # round of every adaptive policy
              "Shangrla.RiskLimit.sortedPairs_cvrList", "Shangrla.RiskLimit.cs_contest_data_prefix",
              "Shangrla.RiskLimit.step_closed", "Shangrla.RiskLimit.csLoop_prefix", "Shangrla.RiskLimit.csAudit_ever",
              "Shangrla.RiskLimit.consistent_sampling_audit_risk_limit"],
    groups={"sampling": (8000, 40000)},
    design_ref="DESIGN.md section 5, C07",
    assumptions=[
        "contests are a dict keyed by contest id (Contest.from_dict_of_dicts): one contest per id; `current_sizes` is "
        "read by con.id and written by dict key, the model covers key == id",
        "votes are not an argument of the model (type-level 'votes irrelevant'); the correspondence runs every case "
        "with two different random vote contents",
        "contest_data_eq is stated for n_c >= 1; with n_c = 0 the threshold stays None and mvrs_to_data raises "
        "TypeError as soon as a sampled card lists the contest (DESIGN F20, modelled literally, outside the claim)",
        "the SHA-256 generator of cryptorandom is a parameter `prng : Nat -> Nat` of the model",
    ],
)
