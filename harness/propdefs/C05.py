PROP = dict(
    modules=["Shangrla.Props.C05"],
    theorems=[
        # the parameter applied to observation j+1 depends only on observations 1..j
        "Shangrla.C05.estim_predictable_fixed", "Shangrla.C05.estim_predictable_shrink",
        "Shangrla.C05.estim_predictable_optimal",
        "Shangrla.C05.bet_predictable_fixed", "Shangrla.C05.bet_predictable_agrapa",
        # when the calls raise
        "Shangrla.C05.estim_ok_fixed", "Shangrla.C05.estim_ok_shrink", "Shangrla.C05.estim_ok_optimal",
        "Shangrla.C05.bet_ok_fixed", "Shangrla.C05.bet_ok_agrapa",
        "Shangrla.C05.estim_ok_congr", "Shangrla.C05.bet_ok_congr", "Shangrla.C05.sizeOk_append_congr",
        # histories: common head => common prefix
        "Shangrla.C05.hist_prefix_alpha", "Shangrla.C05.hist_prefix_alpha_run",
        "Shangrla.C05.hist_prefix_betting", "Shangrla.C05.hist_prefix_betting_run",
        "Shangrla.C05.hist_prefix_kk", "Shangrla.C05.hist_prefix_km", "Shangrla.C05.hist_prefix_kw",
        "Shangrla.C05.hist_prefix_sprt", "Shangrla.C05.hist_prefix_run",
        # truncation
        "Shangrla.C05.hist_truncate_alpha_partial", "Shangrla.C05.hist_truncate_alpha_run_partial",
        "Shangrla.C05.hist_truncate_betting_partial", "Shangrla.C05.hist_truncate_betting_run_partial",
        "Shangrla.C05.hist_truncate_kk", "Shangrla.C05.hist_truncate_km", "Shangrla.C05.hist_truncate_kw",
        "Shangrla.C05.hist_truncate_sprt",
        "Shangrla.C05.hist_truncate_run_nonmart", "Shangrla.C05.hist_truncate_run_mart_partial",
        "Shangrla.C05.hist_length_alpha", "Shangrla.C05.hist_length_betting",
        # the unconditional "<=" of the truncation statement is false for degenerate tuning
        "Shangrla.C05.hist_truncate_alpha_full_false", "Shangrla.C05.hist_truncate_betting_full_false",
    ],
    groups={"nm": (1500, 30000)},
    design_ref="DESIGN.md section 5, C05",
    partial="hist_truncate for alpha_mart/betting_mart: proved that truncating x++y to x leaves entries "
            "0..|x|-2 unchanged and that entry |x|-1 is unchanged unless the final-sample clamp fires "
            "(N*t < sum x), in which case it becomes 0; hence it is <= the entry of the longer sample "
            "WHENEVER that entry is a number >= 0.  The unconditional '<=' (hist_truncate_alpha_full, "
            "hist_truncate_betting_full) is false of model and code for degenerate tuning: shrink_trunc "
            "with d=0 gives a nan history (nan <= nan is false); fixed_bet with lam=-3 gives a negative "
            "'p-value'.  Non-negativity of the history is the subject of C11/C12.  The generic "
            "alpha/betting theorems assume the estimator/bet returns one value per observation (LenPresE).",
)
