PROP = dict(
    modules=["Shangrla.Props.C10"],
    theorems=[],
    groups={"sampling": (1500, 40000)},
    design_ref="DESIGN.md section 5, C10",
)
