PROP = dict(
    modules=["Shangrla.Props.C10"],
    theorems=["Shangrla.C10.sample_mono", "Shangrla.C10.data_extends_scratch", "Shangrla.C10.data_extends_continue",
              "Shangrla.C10.continue_same_set", "Shangrla.C10.proved_sticky",
              "Shangrla.C10.sample_eq_sorted_union", "Shangrla.C10.continue_contains_prev",
              "Shangrla.C10.contest_data_eq_any_prev", "Shangrla.C10.data_extends",
              "Shangrla.C10.continue_eq_scratch_of_junkFree", "Shangrla.C10.step_eq", "Shangrla.C10.rounds_extend"],
    groups={"sampling": (8000, 40000), "nm": (1500, 30000)},
    design_ref="DESIGN.md section 5, C10",
    partial="'measured risk is non-increasing from round to round' (risk_mono) is a statement about the statistical "
            "tests and is proved in the NonnegMean package, not here; on the implementation it is evaluated by the "
            "oracle of the `nm` group (p-values of the prefixes of every sample, at several cut points, are "
            "non-increasing) next to the model correspondence of the tests",
    assumptions=[
        "same as C07; rounds share the card list (styles and sample numbers do not change between rounds)",
        "data_extends_* are stated for contests with n_c >= 1 in the earlier round (see C07 / F20)",
    ],
)
