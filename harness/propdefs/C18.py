PROP = dict(
    modules=["Shangrla.Props.C18"],
    theorems=["Shangrla.C18.merge_ids", "Shangrla.C18.merge_votes", "Shangrla.C18.merge_phantom_all",
              "Shangrla.C18.merge_pool_any", "Shangrla.C18.merge_tally_pool", "Shangrla.C18.from_raire_ranks"],
    groups={"merge": (4000, 60000)},
    design_ref="DESIGN.md section 5, C18",
    assumptions=["`int(raire[0][0])` is modelled for first cells that are a non-empty string of ASCII digits "
                 "(the RAIRE format) or not an integer literal at all; signs, surrounding blanks, `_` and non-ASCII "
                 "digits, which Python's int() also accepts, are not generated",
                 "csv.reader / csv.writer are external: from_raire_file is exercised on real temporary files, "
                 "the model receives the rows"],
)
