PROP = dict(
    modules=["Shangrla.Props.C15"],
    theorems=[
        "Shangrla.C15.raire_optimal", "Shangrla.C15.raire_optimal_pointwise", "Shangrla.C15.raire_nonempty_of_possible",
        "Shangrla.C15.exists_isMaxDiff", "Shangrla.C15.raire_optimal_total",
        "Shangrla.Raire.leaf_leOPT", "Shangrla.Raire.exit_all_leOPT", "Shangrla.Raire.compute_spec",
        "Shangrla.Raire.mainLoop_spec",
        # outside the property (agap > 0): what optimality degrades to
        "Shangrla.Raire.le_maxEst", "Shangrla.Raire.computeG_near_opt", "Shangrla.C15.raire_near_optimal_gap",
    ],
    groups={"raire": (3000, 120000)},
    design_ref="DESIGN.md section 5, C15; Appendix F (O1-O3)",
    assumptions=[
        "agap = 0; fuelled model with termination proved (Shangrla.C04.raire_terminates); candidates duplicate-free, at least two; "
        "difficulty comparison a lawful total preorder; proved for every difficulty function (monotonicity in the margin "
        "is not needed); for agap > 0 (outside the property) raire_near_optimal_gap: the result is a competing set whose "
        "largest difficulty is within the gap test of a lower bound of the optimum",
    ],
)
