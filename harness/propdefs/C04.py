PROP = dict(
    modules=["Shangrla.Props.C04", "Shangrla.Props.C04Simp"],
    theorems=[
        # single-node lemmas (Appendix F)
        "Shangrla.C04.fba_sound", "Shangrla.C04.fba_min", "Shangrla.C04.valid_order_not_excluded",
        "Shangrla.C04.subsumes_sound", "Shangrla.Raire.nebSubsumes_sound", "Shangrla.Raire.nenSubsumes_sound",
        "Shangrla.Raire.PostInv.dedupeInsert", "Shangrla.Raire.sortAssertions_perm", "Shangrla.Raire.PostInv.subsumePass",
        "Shangrla.Raire.chain",
        # loop invariants S1-S3 (+ O1-O3 carried in the same structure) and their preservation
        "Shangrla.Raire.manageNode_spec", "Shangrla.Raire.manageNode_anp", "Shangrla.Raire.pruneChecks_spec",
        "Shangrla.Raire.performDive_spec", "Shangrla.Raire.expandLoop_spec", "Shangrla.Raire.mainLoop_spec",
        "Shangrla.Raire.init_inv", "Shangrla.Raire.post_spec", "Shangrla.Raire.compute_spec",
        # the property
        "Shangrla.C04.raire_true", "Shangrla.C04.raire_sufficient", "Shangrla.C04.raire_empty_iff",
        "Shangrla.C04.raire_empty_witness", "Shangrla.C04.wrong_winner_empty", "Shangrla.C04.raire_no_exception",
        "Shangrla.C04.raire_terminates", "Shangrla.C04.raire_correct",
        # the same for every `agap` test (the early exit of raire.py L158-163)
        "Shangrla.Raire.mainLoopG_spec", "Shangrla.Raire.exitG_all_finite", "Shangrla.Raire.computeG_spec",
        "Shangrla.C04.raire_true_gap", "Shangrla.C04.raire_sufficient_gap", "Shangrla.C04.raire_empty_iff_gap",
        "Shangrla.C04.wrong_winner_empty_gap", "Shangrla.C04.raire_no_exception_gap", "Shangrla.C04.raire_terminates_gap",
        "Shangrla.C04.raire_correct_gap", "Shangrla.C04.noGap_is_default",
        # the second generator, simp_assertions.py (DESIGN 15.9): simple_IRV_assertions and sim_irv
        "Shangrla.Simp.countBallots_spec", "Shangrla.Simp.pickMin_spec", "Shangrla.Simp.roundTallies_spec",
        "Shangrla.Simp.simLoop_spec", "Shangrla.Simp.simLoop_total",
        "Shangrla.C04.simple_members", "Shangrla.C04.simple_true", "Shangrla.C04.simple_fam",
        "Shangrla.C04.simple_complete_iff", "Shangrla.C04.simple_sufficient",
        "Shangrla.C04.simple_complete_wrong_winner", "Shangrla.C04.simple_complete_unique_winner",
        "Shangrla.C04.sim_irv_valid", "Shangrla.C04.sim_irv_distinct_candidates", "Shangrla.C04.sim_irv_terminates",
        "Shangrla.C04.irv_count_unique", "Shangrla.C04.sim_irv_no_ties", "Shangrla.C04.sim_then_simple",
        "Shangrla.C04.simple_complete_competing", "Shangrla.C04.simple_complete_raire",
    ],
    groups={"raire": (3000, 120000), "simp": (3000, 40000)},
    design_ref="DESIGN.md section 5, C04; Appendix F; sections 15.6, 15.9",
    assumptions=[
        "the model's main loop is fuelled; raire_terminates proves that raireFuel(C, winner) iterations always suffice and "
        "that no exception exit is reached, so the other theorems (stated for any fuel with a Res.ok result) apply; the "
        "driver runs with fuel 2000000 and the correspondence check reports any fuel exhaustion",
        "candidates duplicate-free and at least two; difficulty comparison a lawful total preorder (floats without NaN); "
        "the -10 start of the lower bound is below every difficulty; the `_gap` theorems hold for every agap test that is "
        "false when the largest estimate on the frontier is inf (GapOK: true of `mx - lb <= agap` for every finite agap); "
        "the unsuffixed theorems are the agap = 0 instance; log=True only prints (correspondence: same result required)",
        "wrong_winner_empty / valid_order_not_excluded: ballots well formed (no candidate and no position twice)",
        "simp_assertions.py (simple_*, sim_*): candidates duplicate-free (a repeated candidate has ONE dict entry that is "
        "incremented once per occurrence: modelled literally, compared in group simp, excluded from the theorems by "
        "hypothesis); simple_sufficient / simple_complete_wrong_winner: the reported winner is a candidate (no hypothesis "
        "on runner_up); simple_complete_wrong_winner: ballots well formed; the model of sim_irv's while loop is fuelled with "
        "len(candidates) iterations, sim_irv_terminates proves they are never used up; NEB winner tally = ballots whose "
        "position 0 is the winner (the library's own definition, `ranking == 0`); the script's __main__ block is not modelled",
    ],
)
