PROP = dict(
    modules=["Shangrla.Model.Raire"],
    theorems=[],
    groups={"raire": (3000, 40000)},
    design_ref="DESIGN.md section 5, C04; Appendix F",
)
