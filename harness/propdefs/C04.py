PROP = dict(
    modules=["Shangrla.Props.C04"],
    theorems=[
        # single-node lemmas (Appendix F)
        "Shangrla.C04.fba_sound", "Shangrla.C04.fba_min", "Shangrla.C04.valid_order_not_excluded",
        "Shangrla.C04.subsumes_sound", "Shangrla.Raire.nebSubsumes_sound", "Shangrla.Raire.nenSubsumes_sound",
        "Shangrla.Raire.PostInv.dedupeInsert", "Shangrla.Raire.sortAssertions_perm", "Shangrla.Raire.PostInv.subsumePass",
        "Shangrla.Raire.chain",
        # loop invariants S1-S3 (+ O1-O3 carried in the same structure) and their preservation
        "Shangrla.Raire.manageNode_spec", "Shangrla.Raire.manageNode_anp", "Shangrla.Raire.pruneChecks_spec",
        "Shangrla.Raire.performDive_spec", "Shangrla.Raire.expandLoop_spec", "Shangrla.Raire.mainLoop_spec",
        "Shangrla.Raire.init_inv", "Shangrla.Raire.post_spec", "Shangrla.Raire.compute_spec",
        # the property
        "Shangrla.C04.raire_true", "Shangrla.C04.raire_sufficient", "Shangrla.C04.raire_empty_iff",
        "Shangrla.C04.raire_empty_witness", "Shangrla.C04.wrong_winner_empty", "Shangrla.C04.raire_no_exception",
        "Shangrla.C04.raire_terminates", "Shangrla.C04.raire_correct",
        # the same for every `agap` test (the early exit of raire.py L158-163)
        "Shangrla.Raire.mainLoopG_spec", "Shangrla.Raire.exitG_all_finite", "Shangrla.Raire.computeG_spec",
        "Shangrla.C04.raire_true_gap", "Shangrla.C04.raire_sufficient_gap", "Shangrla.C04.raire_empty_iff_gap",
        "Shangrla.C04.wrong_winner_empty_gap", "Shangrla.C04.raire_no_exception_gap", "Shangrla.C04.raire_terminates_gap",
        "Shangrla.C04.raire_correct_gap", "Shangrla.C04.noGap_is_default",
    ],
    groups={"raire": (3000, 120000), "simp": (3000, 40000)},
    design_ref="DESIGN.md section 5, C04; Appendix F",
    assumptions=[
        "the model's main loop is fuelled; raire_terminates proves that raireFuel(C, winner) iterations always suffice and "
        "that no exception exit is reached, so the other theorems (stated for any fuel with a Res.ok result) apply; the "
        "driver runs with fuel 2000000 and the correspondence check reports any fuel exhaustion",
        "candidates duplicate-free and at least two; difficulty comparison a lawful total preorder (floats without NaN); "
        "the -10 start of the lower bound is below every difficulty; the `_gap` theorems hold for every agap test that is "
        "false when the largest estimate on the frontier is inf (GapOK: true of `mx - lb <= agap` for every finite agap); "
        "the unsuffixed theorems are the agap = 0 instance; log=True only prints (correspondence: same result required)",
        "wrong_winner_empty / valid_order_not_excluded: ballots well formed (no candidate and no position twice)",
    ],
)
