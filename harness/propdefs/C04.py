PROP = dict(
    modules=["Shangrla.Props.C04"],
    theorems=["Shangrla.C04.fba_sound", "Shangrla.C04.fba_min", "Shangrla.C04.valid_order_not_excluded",
              "Shangrla.C04.raire_true", "Shangrla.C04.raire_sufficient", "Shangrla.C04.wrong_winner_empty",
              "Shangrla.C04.raire_empty_of_impossible",
              "Shangrla.Raire.subsumes_sound", "Shangrla.Raire.mainLoop_spec"],
    groups={"raire": (3000, 40000)},
    design_ref="DESIGN.md section 5, C04; Appendix F",
    partial="in progress",
)
