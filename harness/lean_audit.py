"""
Proof-side audit run by every check:
  1. `lake build` of the property's modules, the axiom-audit inputs and the driver (no-op after setup);
  2. grep of the Lean sources for sorry/admit/axiom/native_decide/bv_decide/implemented_by/unsafe/maxHeartbeats 0
     outside comments;
  3. `#print axioms` of every property theorem; allowed: propext, Classical.choice, Quot.sound.
Thorough tier: `lake env leanchecker` on the property's modules.
"""
import os, re, subprocess, tempfile, time
from .core import LEAN_DIR

ALLOWED_AXIOMS = {"propext", "Classical.choice", "Quot.sound"}
FORBIDDEN = re.compile(r"\b(sorry|admit|native_decide|bv_decide|implemented_by)\b|^\s*axiom\s|\bunsafe\s|maxHeartbeats\s+0\b")


def strip_comments(src):
    # remove nested block comments and line comments
    out, i, depth, n = [], 0, 0, len(src)
    while i < n:
        if src.startswith("/-", i):
            depth += 1; i += 2; continue
        if depth > 0 and src.startswith("-/", i):
            depth -= 1; i += 2; continue
        if depth > 0:
            if src[i] == "\n":
                out.append("\n")
            i += 1; continue
        if src.startswith("--", i):
            while i < n and src[i] != "\n":
                i += 1
            continue
        out.append(src[i]); i += 1
    return "".join(out)


def grep_sources():
    hits = []
    for root in ("Shangrla", "Driver"):
        for dp, _, fs in os.walk(os.path.join(LEAN_DIR, root)):
            for f in fs:
                if not f.endswith(".lean"):
                    continue
                p = os.path.join(dp, f)
                body = strip_comments(open(p).read())
                for ln, line in enumerate(body.split("\n"), 1):
                    if FORBIDDEN.search(line):
                        hits.append(f"{os.path.relpath(p, LEAN_DIR)}:{ln}: {line.strip()[:120]}")
    return hits


def lake_build(targets, timeout=3000):
    p = subprocess.run(["lake", "build"] + list(targets), cwd=LEAN_DIR, capture_output=True, text=True, timeout=timeout)
    return p.returncode, (p.stdout + p.stderr)[-4000:]


def print_axioms(modules, theorems, timeout=1200):
    """returns {theorem: [axioms]} ; a theorem missing from the result did not elaborate"""
    src = "".join(f"import {m}\n" for m in modules)
    src += "".join(f"#print axioms {t}\n" for t in theorems)
    with tempfile.NamedTemporaryFile("w", suffix=".lean", dir=LEAN_DIR, delete=False) as f:
        f.write(src); path = f.name
    try:
        p = subprocess.run(["lake", "env", "lean", path], cwd=LEAN_DIR, capture_output=True, text=True, timeout=timeout)
        out = p.stdout + p.stderr
    finally:
        os.unlink(path)
    res = {}
    # "'Foo.bar' depends on axioms: [propext, Quot.sound]"  or  "'Foo.bar' does not depend on any axioms"
    for m in re.finditer(r"'([^']+)' depends on axioms: \[([^\]]*)\]", out, re.S):
        res[m.group(1)] = [a.strip() for a in m.group(2).replace("\n", " ").split(",") if a.strip()]
    for m in re.finditer(r"'([^']+)' does not depend on any axioms", out):
        res[m.group(1)] = []
    return res, out


def leanchecker(modules, timeout=3000):
    p = subprocess.run(["lake", "env", "leanchecker"] + list(modules), cwd=LEAN_DIR, capture_output=True, text=True, timeout=timeout)
    return p.returncode, (p.stdout + p.stderr)[-2000:]


def audit(modules, theorems, tier="quick"):
    """returns dict(obligations, discharged, failures[list of str], checker_cmd, axioms)"""
    t0 = time.time()
    failures = []
    rc, out = lake_build(list(modules) + ["drv"])
    if rc != 0:
        failures.append("lake build failed: " + out[-1500:])
    hits = grep_sources()
    for h in hits:
        failures.append("forbidden construct: " + h)
    ax, raw = ({}, "")
    if rc == 0:
        ax, raw = print_axioms(modules, theorems)
    discharged = 0
    for t in theorems:
        if t not in ax:
            failures.append(f"theorem {t} not found / did not elaborate")
        elif not set(ax[t]) <= ALLOWED_AXIOMS:
            failures.append(f"theorem {t} depends on non-standard axioms {sorted(set(ax[t]) - ALLOWED_AXIOMS)}")
        elif not hits:
            discharged += 1
    lc = None
    if tier == "thorough" and rc == 0:
        lrc, lout = leanchecker(modules)
        lc = lrc
        if lrc != 0:
            failures.append("leanchecker failed: " + lout[-800:])
    cmd = ("cd lean && lake build " + " ".join(modules) + " drv && lake env lean <#print axioms of each theorem>"
           + (" && lake env leanchecker " + " ".join(modules) if tier == "thorough" else ""))
    return {
        "obligations": len(theorems), "discharged": discharged, "failures": failures,
        "checker_cmd": cmd, "axioms": {t: ax.get(t) for t in theorems}, "leanchecker_rc": lc,
        "wall_s": round(time.time() - t0, 2),
    }
