"""
The check engine: `./check Cnn --tier quick|thorough [--replay file]`  (DESIGN.md 2.3)

 1. proof audit (lean_audit.audit)
 2. correspondence of every model group the property's theorems mention: implementation (real code,
    in-process) vs. the Lean driver on the same cases (corpus first, then generated)
 3. implementation-side oracle (the executable statement of the property) on the same cases
 4. verdict / failing-input search / evidence / replay files
Exit 0: property held on everything explored.  Exit 1: VIOLATION line printed.  Exit 2: infrastructure.
"""
import argparse, importlib, json, os, subprocess, sys, time, traceback
from collections import Counter

from . import core, lean_audit, scope
from .core import VERIF, Rng, impl_call, run_driver_parallel, case_key
from .props import PROPS, TRUSTED_BASE

# VERIF_OUT (development drills only): write evidence/ and replays/ elsewhere so that a drill against a scratch
# worktree (VERIF_REPO) never overwrites the committed evidence of /repo itself
_OUT = os.environ.get("VERIF_OUT") or VERIF
EVID = os.path.join(_OUT, "evidence")
REPL = os.path.join(_OUT, "replays")
KNOWN = os.path.join(VERIF, "known_findings.json")


def load_group(name):
    return importlib.import_module(f"harness.groups.{name}")


def changed_sources(pid):
    """anchored source files of the property whose content differs from the recorded hashes
    (harness/source_hashes.json, written by tools/update_hashes.py when /repo's HEAD is validated)"""
    import hashlib
    try:
        rec = json.load(open(os.path.join(VERIF, "harness", "source_hashes.json")))
        files = []
        for l in open(os.path.join(VERIF, "properties.jsonl")):
            p = json.loads(l)
            if p["id"] == pid:
                files = p["anchors"]["files"]
        out = []
        for f in files:
            path = os.path.join(core.REPO, f)
            h = hashlib.sha256(open(path, "rb").read()).hexdigest() if os.path.exists(path) else None
            if rec.get(f) != h:
                out.append(f)
        return out
    except Exception:
        return []


def load_known():
    if not os.path.exists(KNOWN):
        return []
    return json.load(open(KNOWN)).get("entries", [])


def write_replay(pid, seed, k, payload):
    os.makedirs(REPL, exist_ok=True)
    path = os.path.join(REPL, f"{pid}-{seed}-{k}.json")
    with open(path, "w") as f:
        json.dump(payload, f, indent=1, default=str)
    return os.path.relpath(path, VERIF)


def _same_err_kinds(o):
    """copy of a result with every `"err": <kind>` / `"raised": <kind>` replaced by `"Error"` (whether something raised is
    compared, which exception class it raised is not)"""
    if isinstance(o, dict):
        return {k: ("Error" if (k in ("err", "raised") and isinstance(v, str)) else _same_err_kinds(v)) for k, v in o.items()}
    if isinstance(o, list):
        return [_same_err_kinds(v) for v in o]
    return o


PYOPT_MAX = 160      # cases per group that are also evaluated by an interpreter started with -O


def pyopt_start(gname, cases):
    """start `python -O -m harness.oworker <group>` on the cases (asserts and `if __debug__:` blocks compiled away)"""
    import pickle, tempfile
    fin = tempfile.TemporaryFile(); fout = tempfile.TemporaryFile()
    fin.write(pickle.dumps(cases)); fin.seek(0)
    p = subprocess.Popen([sys.executable, "-O", "-W", "ignore", "-m", "harness.oworker", gname], cwd=VERIF,
                         stdin=fin, stdout=fout, stderr=subprocess.DEVNULL)
    return p, fout


def pyopt_collect(handle, n):
    import pickle
    p, fout = handle
    try:
        p.wait(timeout=900)
        fout.seek(0)
        d = pickle.loads(fout.read())
        if d["debug"] or len(d["results"]) != n:
            return None
        return d["results"]
    except Exception:  # noqa
        return None


def _has_err(o):
    """some step of the result recorded an exception"""
    if isinstance(o, dict):
        if o.get("st") == "err" or any(o.get(k) for k in ("err", "raised", "error", "exc")):
            return True
        return any(_has_err(v) for v in o.values())
    if isinstance(o, (list, tuple)):
        return any(_has_err(v) for v in o)
    return isinstance(o, str) and o.endswith("Error")


def _canon(o):
    return json.dumps(o, default=str, sort_keys=True)


def pyopt_one(G, case):
    r = pyopt_collect(pyopt_start(G.NAME, [case]), 1)
    if r is None:
        raise core.DriverError("the -O worker (harness/oworker.py) did not answer")
    return r[0]


def run_group(G, pid, cases, oracle):
    """returns (records, disagreements, violations); a record = dict(case, impl, model, diff, viol)"""
    # a slice of the cases (the regression corpus comes first in `cases`) goes to a second interpreter started with -O
    step = max(1, len(cases) // PYOPT_MAX)
    opt_idx = sorted(set(list(range(min(40, len(cases)))) + list(range(0, len(cases), step))))[:PYOPT_MAX + 40]
    opt_idx = [i for i in opt_idx if isinstance(cases[i], dict) and not cases[i].get("_pyopt")]
    handle = pyopt_start(G.NAME, [cases[i] for i in opt_idx]) if opt_idx else None
    impl_res = [pyopt_one(G, c) if (isinstance(c, dict) and c.get("_pyopt")) else impl_call(G.impl, c) for c in cases]
    reqs = [G.request(c) for c in cases]
    replies = run_driver_parallel(reqs)
    opt_res = pyopt_collect(handle, len(opt_idx)) if handle else None
    recs, dis, vio = [], [], []
    run_group.pyopt = {"cases": 0 if opt_res is None else len(opt_idx), "differing": 0}
    if opt_res is not None:
        for i, iro in zip(opt_idx, opt_res):
            c, ir, mr = cases[i], impl_res[i], replies[i]
            # stripped asserts legitimately change what happens on inputs the library rejects by assertion
            # (any exception at all: an assert's own expression may raise, e.g. len(None) -> TypeError)
            if _has_err(ir) or _canon(iro) == _canon(ir):
                continue
            if bool(getattr(G, "fragile", lambda *_: False)(c, ir, mr)) or scope.excluded(G.NAME, c, ir, mr):
                continue
            co = dict(c, _pyopt=True)
            diff = G.compare(co, _same_err_kinds(iro), _same_err_kinds(mr))
            v = oracle(co, iro) if oracle else None
            if not diff and not v:
                continue
            if G.compare(c, _same_err_kinds(ir), _same_err_kinds(mr)) and not v:
                continue                      # already reported for the ordinary interpreter
            run_group.pyopt["differing"] += 1
            if v:
                v = dict(v, what=str(v.get("what")) + "  [interpreter started with -O / PYTHONOPTIMIZE: asserts and "
                                                      "`if __debug__:` blocks compiled away; same input is fine without -O]")
            rec = {"case": co, "impl": iro, "model": mr, "diff": diff, "viol": v, "fragile": False, "oos": False}
            recs.append(rec)
            if diff:
                dis.append(rec)
            if v:
                vio.append(rec)
    for c, ir, mr in zip(cases, impl_res, replies):
        if mr.get("st") == "bad":
            raise core.DriverError(f"driver rejected request of group {G.NAME}: {mr.get('msg')} case={json.dumps(c, default=str)[:300]}")
        frag = bool(getattr(G, "fragile", lambda *_: False)(c, ir, mr))
        # an input outside every property's quantifier that one side rejects and the other does not (or rejects
        # with another exception type): not a disagreement (harness/scope.py), counted in the evidence
        oos = (not frag) and scope.excluded(G.NAME, c, ir, mr)
        # the KIND of exception is not compared (no property depends on it; a maintainer may turn an IndexError into
        # a descriptive ValueError): both sides are compared with every error kind replaced by the same token
        diff = None if (frag or oos) else G.compare(c, _same_err_kinds(ir), _same_err_kinds(mr))
        v = oracle(c, ir) if oracle else None
        rec = {"case": c, "impl": ir, "model": mr, "diff": diff, "viol": v, "fragile": frag, "oos": oos}
        recs.append(rec)
        if diff:
            dis.append(rec)
        if v:
            vio.append(rec)
    return recs, dis, vio


def classify_violations(pid, vio, known):
    """split oracle violations into (known-finding hits, new violations)"""
    findings = [k for k in known if k.get("kind") == "finding" and k.get("property") == pid]
    hits, new = {}, []
    for rec in vio:
        key = (rec["viol"] or {}).get("finding")
        m = [k for k in findings if key is not None and k.get("match") == key]
        if m:
            hits.setdefault(m[0]["id"], (m[0], rec))
        else:
            new.append(rec)
    return hits, new


def replay(pid, path):
    data = json.load(open(path))
    if not data.get("group") or data.get("case") is None:
        print(json.dumps({"no_longer_checks": data.get("no_longer_checks"), "note": data.get("note")}, indent=1))
        print(f"VIOLATION property={pid} replay={path} no-failing-input-found")
        return 1
    G = load_group(data["group"])
    oracle = getattr(G, "ORACLES", {}).get(pid)
    c = data["case"]
    ir = pyopt_one(G, c) if (isinstance(c, dict) and c.get("_pyopt")) else impl_call(G.impl, c)
    mr = run_driver_parallel([G.request(c)])[0]
    frag = bool(getattr(G, "fragile", lambda *_: False)(c, ir, mr))
    oos = (not frag) and scope.excluded(G.NAME, c, ir, mr)
    diff = None if (frag or oos) else G.compare(c, _same_err_kinds(ir), _same_err_kinds(mr))
    v = oracle(c, ir) if oracle else None
    print(json.dumps({"impl": ir, "model": mr, "diff": diff, "oracle": v, "fragile": frag, "out_of_scope": bool(oos)},
                     indent=1, default=str))
    if v:
        print(f"VIOLATION property={pid} replay={path}")
        return 1
    if diff:
        print(f"VIOLATION property={pid} replay={path} no-failing-input-found")
        return 1
    print("replay: property holds on this input and model agrees")
    return 0


def main(argv=None):
    ap = argparse.ArgumentParser()
    ap.add_argument("pid")
    ap.add_argument("--tier", default=os.environ.get("VERIF_TIER", "quick"), choices=["quick", "thorough"])
    ap.add_argument("--replay")
    ap.add_argument("--no-audit", action="store_true", help="(development) skip the Lean audit")
    ap.add_argument("--scale", type=float, default=1.0)
    args = ap.parse_args(argv)
    pid, tier = args.pid, args.tier
    seed = int(os.environ.get("VERIF_SEED", "0") or 0)
    if pid not in PROPS:
        print(f"unknown property {pid}", file=sys.stderr)
        return 2
    if args.replay:
        return replay(pid, args.replay)
    P = PROPS[pid]
    t0 = time.time()
    known = load_known()
    try:
        # ---- 1. proofs
        if args.no_audit:
            aud = {"obligations": len(P["theorems"]), "discharged": len(P["theorems"]), "failures": [],
                   "checker_cmd": "skipped (--no-audit)", "axioms": {}, "wall_s": 0}
        else:
            aud = lean_audit.audit(P["modules"], P["theorems"], tier)
        # ---- 2./3. correspondence + oracle
        rng = Rng(seed * 1000003 + int(pid[1:]))
        changed = changed_sources(pid)
        # the anchored code differs from the tree the model was last validated against: look harder
        # (a property may set its own factor: `boost` in its propdef; C14's cases are expensive)
        boost = float(P.get("boost", 5.0)) if (changed and tier == "quick") else 1.0
        all_recs, all_dis, all_vio = [], [], []
        per_group = {}
        for gname, budget in P["groups"].items():
            G = load_group(gname)
            n = int(min(budget[0 if tier == "quick" else 1] * args.scale * boost, max(budget[1], budget[0])))
            cases = list(G.corpus()) + list(G.gen(rng, n, tier))
            # de-duplicate
            seen, uniq = set(), []
            for c in cases:
                k = case_key(c)
                if k not in seen:
                    seen.add(k); uniq.append(c)
            oracle = getattr(G, "ORACLES", {}).get(pid)
            recs, dis, vio = run_group(G, pid, uniq, oracle)
            sigs = Counter()
            nontriv = set()
            for r in recs:
                s = G.signature(r["case"], r["impl"])
                sigs[s if s is not None else "trivial"] += 1
                if s is not None and not str(s).startswith("trivial"):
                    nontriv.add(case_key(r["case"]))
            per_group[gname] = {"evaluations": len(recs), "distinct_nontrivial": len(nontriv),
                                "branches": dict(sigs.most_common(40)),
                                "fragile_excluded": sum(1 for r in recs if r["fragile"]),
                                "out_of_scope_excluded": sum(1 for r in recs if r.get("oos")),
                                "disagreements": len(dis), "oracle_violations": len(vio),
                                "also_run_under_python_O": getattr(run_group, "pyopt", {}).get("cases", 0),
                                "exhaustive": bool(getattr(G, "EXHAUSTIVE", {}).get(tier, False)),
                                "rule": G.RULE}
            all_recs += [(gname, r) for r in recs]
            all_dis += [(gname, r) for r in dis]
            all_vio += [(gname, r) for r in vio]
        # ---- 4. verdict
        hits, new_vio = classify_violations(pid, [r for _, r in all_vio], known)
        gname_of = {id(r): g for g, r in all_vio}
        exit_code = 0
        lines = []
        for fid, (k, rec) in hits.items():
            lines.append(f"KNOWN-FINDING: property={pid} {fid} {k.get('what', '')}")
        nviol = 0
        broken = bool(aud["failures"]) or bool(all_dis)
        if new_vio:
            rec = new_vio[0]
            path = write_replay(pid, seed, 0, {
                "property": pid, "tier": tier, "seed": seed, "group": gname_of[id(rec)], "case": rec["case"],
                "observed": rec["impl"], "model": rec["model"], "violation": rec["viol"],
                "required": P["statement"], "how_to_rerun": f"./check {pid} --replay <this file>"})
            lines.append(f"VIOLATION property={pid} replay={path}")
            nviol = len(new_vio)
            exit_code = 1
        elif broken:
            # failing-input search: a larger budget on the implementation with the oracle only
            found = None
            for gname, budget in P["groups"].items():
                G = load_group(gname)
                oracle = getattr(G, "ORACLES", {}).get(pid)
                if not oracle:
                    continue
                # a group may offer a guided search seeded by the configurations on which model and code disagree
                guided = []
                if hasattr(G, "search"):
                    guided = list(G.search(rng, [r["case"] for g, r in all_dis if g == gname], tier))
                extra = guided + list(G.gen(rng, int(budget[1] * args.scale), "thorough"))
                for c in extra:
                    ir = impl_call(G.impl, c)
                    v = oracle(c, ir)
                    if v:
                        h, nv = classify_violations(pid, [{"viol": v}], known)
                        if nv:
                            found = (gname, c, ir, v); break
                if found:
                    break
            what = (aud["failures"][:3] if aud["failures"] else
                    [f"correspondence group {g}: {r['diff']}" for g, r in all_dis[:3]])
            if found:
                gname, c, ir, v = found
                path = write_replay(pid, seed, 0, {
                    "property": pid, "tier": tier, "seed": seed, "group": gname, "case": c, "observed": ir,
                    "violation": v, "required": P["statement"], "no_longer_checks": what,
                    "how_to_rerun": f"./check {pid} --replay <this file>"})
                lines.append(f"VIOLATION property={pid} replay={path}")
            else:
                first = all_dis[0] if all_dis else None
                path = write_replay(pid, seed, 0, {
                    "property": pid, "tier": tier, "seed": seed,
                    "group": first[0] if first else None,
                    "case": first[1]["case"] if first else None,
                    "observed": first[1]["impl"] if first else None,
                    "model": first[1]["model"] if first else None,
                    "no_longer_checks": what, "theorems": P["theorems"],
                    "note": "the property is no longer shown to hold: the proof obligation or the model/implementation "
                            "correspondence named above does not check; the failing-input search found no input on "
                            "which the property itself fails",
                    "how_to_rerun": f"./check {pid} --replay <this file>"})
                lines.append(f"VIOLATION property={pid} replay={path} no-failing-input-found")
            nviol = max(1, len(all_dis))
            exit_code = 1
        wall = time.time() - t0
        # ---- evidence
        samples = []
        for gname, r in all_recs[:: max(1, len(all_recs) // 3)][:3]:
            samples.append({"group": gname, "case": r["case"], "impl": r["impl"], "model": r["model"]})
        for t in P["theorems"][:3]:
            samples.append({"obligation": t, "axioms": aud["axioms"].get(t)})
        ev = {
            "property_id": pid, "tier": tier, "seed": seed, "level": "proof",
            "coverage": {
                "obligations": aud["obligations"], "discharged": aud["discharged"],
                "checker_cmd": aud["checker_cmd"], "trusted_base": TRUSTED_BASE + P.get("trusted_extra", []),
                "theorems": P["theorems"], "axioms": aud["axioms"], "proof_failures": aud["failures"],
                "evaluations": sum(g["evaluations"] for g in per_group.values()),
                "distinct_nontrivial": sum(g["distinct_nontrivial"] for g in per_group.values()),
                "disagreements_checked": sum(g["disagreements"] for g in per_group.values()),
                "rule": " | ".join(f"{n}: {g['rule']}" for n, g in per_group.items()),
                "groups": per_group, "samples": samples,
                "exhaustive": all(g["exhaustive"] for g in per_group.values()) if per_group else False,
                "known_findings_reproduced": sorted(hits.keys()),
                "partial": P.get("partial", ""),
                "anchored_sources_changed_since_validation": changed,
            },
            "assumptions": P.get("assumptions", []),
            "wall_s": round(wall, 2), "violations": nviol,
        }
        os.makedirs(EVID, exist_ok=True)
        with open(os.path.join(EVID, f"{pid}.json"), "w") as f:
            json.dump(ev, f, indent=1, default=str)
        for l in lines:
            print(l)
        tot = ev["coverage"]
        print(f"{pid} {tier} seed={seed}: proofs {tot['discharged']}/{tot['obligations']}, "
              f"{tot['evaluations']} cases ({tot['distinct_nontrivial']} non-trivial), "
              f"{tot['disagreements_checked']} disagreements, {nviol} violations, {wall:.1f}s")
        return exit_code
    except (core.DriverError, subprocess_errors()) as e:
        print(f"infrastructure failure: {e}", file=sys.stderr)
        traceback.print_exc()
        return 2


def subprocess_errors():
    import subprocess
    return subprocess.TimeoutExpired


if __name__ == "__main__":
    sys.exit(main())
