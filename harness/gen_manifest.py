"""regenerates MANIFEST.json from the registry (harness/props.py) and properties.jsonl"""
import json, os, sys
sys.path.insert(0, os.path.dirname(os.path.dirname(os.path.abspath(__file__))))
from harness.props import PROPS, TRUSTED_BASE

here = os.path.dirname(os.path.dirname(os.path.abspath(__file__)))
ids = [json.loads(l)["id"] for l in open(os.path.join(here, "properties.jsonl"))]
BASE = json.load(open("/root/.vp/BASELINE.json"))["cmd"] if os.path.exists("/root/.vp/BASELINE.json") else ""
BASE = BASE.replace(" --junitxml=<file>", "")

checks = []
for pid in ids:
    if pid not in PROPS:
        continue
    P = PROPS[pid]
    checks.append({
        "property_id": pid,
        "quick_cmd": f"./check {pid} --tier quick",
        "thorough_cmd": f"./check {pid} --tier thorough",
        "evidence_file": f"/verif/evidence/{pid}.json",
        "replay_cmd_template": f"./check {pid} --replay {{path}}",
        "engine": "lean4-model+correspondence",
        "level_claimed": {
            "category": "proof",
            "text": P.get("level_text", "") or (
                "Lean 4 theorems about the executable literal model of the anchored code, quantified over all "
                "inputs/sizes/histories (no bound); the model is tied to /repo on every run by a correspondence "
                "check that executes the same model definitions (native driver) and the real code on the same "
                "inputs; an independent implementation-side oracle supplies replays."),
            "design_ref": P.get("design_ref", f"DESIGN.md section 5, {pid}"),
        },
        "level_note": P.get("level_note", "") or (
            "Trusted: Lean kernel + axioms propext/Classical.choice/Quot.sound; the hand-written model is tied to "
            "the code only by the per-run correspondence (bounded sizes, printed in the evidence); floating-point "
            "rounding is not modelled. " + P.get("partial", "")),
        "technique": "machine-checked proof (Lean 4) of theorems about a hand-written executable model + per-run "
                     "model/implementation correspondence check",
    })

NA = json.load(open(os.path.join(here, "harness", "not_applicable.json")))
manifest = {
    "version": 1,
    "setup_cmd": "cd lean && lake build",
    "hooks": {
        "guard": "SHANGRLA_VERIF",
        "enable": "no instrumentation is needed: every observation point is a return value or attribute of the public API; the guard is unused",
        "baseline_off_cmd": BASE,
        "source_commits": [],
        "add_only": True,
    },
    "engines": [{
        "name": "lean4-model+correspondence", "path": "lean/ harness/ check",
        "serves_properties": [c["property_id"] for c in checks],
        "kind_free_text": "Lean 4 library `Shangrla` (literal models, specifications, property theorems), native model "
                          "driver `drv`, Python correspondence harness calling the real SHANGRLA code in-process",
    }],
    "checks": checks,
    "not_applicable": [{"property_id": p, "reason": NA.get(p, "check not built yet in this round (work in progress; see DESIGN.md section 5)")}
                       for p in ids if p not in PROPS],
    "notes": "fix: commits in /repo and known findings are listed in known_findings.json; see DESIGN.md section 6.",
}
json.dump(manifest, open(os.path.join(here, "MANIFEST.json"), "w"), indent=1)
print("checks:", [c["property_id"] for c in checks])
