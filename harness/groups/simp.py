"""
Correspondence group `simp`: shangrla.raire.simp_assertions.sim_irv and simple_IRV_assertions (real code, on
raire_utils.Contest objects and cvrs dicts) vs. Shangrla.Simp.simIrv / simpleIrvAssertions  (property C04).

A case: {"cands": [...], "sigs": [[ranking|None, count], ...], "tot": n, "pair": [winner, runner_up] | None, "ids"?}
Profiles are represented as in group `raire` (whose generators and brute-force helpers are reused): `ranking` is the
list of candidates in preference order, position = index, a `None` inside it is a line position that carries no vote for
a declared candidate (here also the FIRST position), `[]` a blank ballot, `None` a card without the contest.
Every case runs sim_irv on the profile AND simple_IRV_assertions on `pair`; `pair = None` means "the pair sim_irv
returned", which is how the script (the module's __main__ block) uses the two functions.
"""
import itertools, math
from ..core import impl_call, case_key
from . import raire as R

NAME = "simp"
RULE = ("profiles from group raire's generators: a random sample of all multisets of <= 4 ballots (every partial "
        "ranking, blank, card without the contest) on 2-3 candidates; random profiles of 2-6 candidates, 1-60 ballots as "
        "weighted signatures (partial rankings, blanks, cards lacking the contest, forced ties, interior holes, identifier "
        "styles str/int/affix/accented/punctuated); 'dominant' profiles (one candidate ranked first on most ballots, so "
        "that all assertions can be formed); 1 profile in 8 with a hole in the FIRST line position of some ballots; "
        "(winner, runner_up): the pair sim_irv itself returns (1 in 3), the last two of a possible IRV count, a wrong "
        "winner, a wrong runner-up, winner = runner_up, an identifier that is not a candidate; also 0, 1 and repeated "
        "candidates (correspondence only). non-trivial = >= 3 distinct candidates; distinct = distinct canonical input")
EXHAUSTIVE = {"quick": False, "thorough": False}
CONTEST = R.CONTEST


# ---------------------------------------------------------------------------------------------
# the implementation

def _mod():
    # importing the module must not run its command-line block (guarded by __name__ == "__main__")
    import shangrla.raire.simp_assertions as m
    return m


def run_impl(case):
    from shangrla.raire.raire_utils import NEBAssertion, NENAssertion
    m = _mod()
    f = R.ident(case)
    typ = int if case.get("ids") == "int" else str

    def s_(c):
        return str(c) if type(c) is typ else repr(c)
    base = {"cands": case["cands"], "sigs": case["sigs"], "winner": case["cands"][0] if case["cands"] else "A",
            "tot": case["tot"], "outcome": [], "ids": case.get("ids")}
    contest, cvrs = R.build_inputs(base)
    sim = impl_call(lambda: m.sim_irv(contest, cvrs))
    if isinstance(sim, tuple):
        sim = {"st": "ok", "winner": s_(sim[0]), "runner_up": s_(sim[1])}
    pair = case["pair"]
    if pair is None:
        pair = [sim["winner"], sim["runner_up"]] if sim.get("st") == "ok" else None
    simple = None
    if pair is not None:
        contest, cvrs = R.build_inputs(base)
        res, failed = m.simple_IRV_assertions(contest, cvrs, f(pair[0]), f(pair[1]))
        out = []
        for a in res:
            neb = type(a) is NEBAssertion
            out.append({"t": "NEB" if neb else "NEN", "w": s_(a.winner), "l": s_(a.loser),
                        "e": [] if neb else [s_(c) for c in a.eliminated],
                        "vw": int(a.votes_for_winner), "vl": int(a.votes_for_loser),
                        "d": repr(a.difficulty), "ro": sorted(map(list, a.rules_out)),
                        "cn": a.contest if isinstance(a.contest, str) else repr(type(a.contest))})
        simple = {"as": out, "failed": [str(x) for x in failed]}
    return {"st": "ok", "sim": sim, "simple": simple, "pair": pair}


def impl(case):
    return run_impl(case)


def request(case):
    sigs = [[None if r is None else [[c, i] for i, c in enumerate(r) if c is not None], n] for r, n in case["sigs"]]
    a = {"cands": case["cands"], "tot": case["tot"], "cvrs": [b for b, n in sigs for _ in range(n)]}
    if case["pair"] is not None:
        a["winner"], a["runner_up"] = case["pair"]
    return ("simp", "both", a)


def fail_str(case, t):
    """the string simple_IRV_assertions formats for the failure [kind, winner, loser, eliminated]"""
    f = R.ident(case)
    kind, w, l, e = t
    if kind == "NEN":
        return "{} NEN over {} when {} eliminated".format(f(w), f(l), [f(c) for c in e])
    return "{} NEB {}".format(f(w), f(l))


def compare(case, ir, mr):
    if ir.get("st") != "ok" or mr.get("st") != "ok":
        return f"status differs: impl={ir.get('st')}/{ir.get('err')} model={mr.get('st')}/{mr.get('err')}"
    si, sm = ir["sim"], mr["sim"]
    if sm.get("st") == "fuel":
        return "model of sim_irv ran out of fuel"
    if si.get("st") != sm.get("st"):
        return f"sim_irv: status differs: impl={si.get('st')}/{si.get('err')} model={sm.get('st')}/{sm.get('err')}"
    if si["st"] == "ok" and (si["winner"], si["runner_up"]) != (sm["winner"], sm["runner_up"]):
        return f"sim_irv: impl ({si['winner']}, {si['runner_up']}) model ({sm['winner']}, {sm['runner_up']})"
    a, b = ir["simple"], mr["simple"]
    if (a is None) != (b is None):
        return "simple_IRV_assertions run on one side only"
    if a is None:
        return None
    if len(a["as"]) != len(b["as"]):
        return f"number of assertions differs: impl {len(a['as'])} model {len(b['as'])}"
    for k, (x, y) in enumerate(zip(a["as"], b["as"])):
        if x["cn"] != CONTEST:
            return f"assertion {k}: contest attribute is {x['cn']!r}"
        if x["d"] != "inf" or x["ro"]:
            return f"assertion {k}: difficulty {x['d']} / rules_out {x['ro']} (expected the constructor's inf / empty)"
        for fld in ("t", "w", "l", "e", "vw", "vl"):
            if x[fld] != y[fld]:
                return f"assertion {k}: field {fld} differs: impl {x[fld]} model {y[fld]}"
    want = [fail_str(case, t) for t in b["failed"]]
    if a["failed"] != want:
        return f"failed_to_assert differs: impl {a['failed']} model {want}"
    return None


def leading_hole(case):
    return any(r and r[0] is None for r, _ in case["sigs"])


def signature(case, ir):
    n = len(set(case["cands"]))
    tags = []
    if len(case["cands"]) != n:
        tags.append("dupcands")
    if any(r is not None and None in r for r, _ in case["sigs"]):
        tags.append("lead-hole" if leading_hole(case) else "holes")
    if case.get("ids"):
        tags.append("int")
    if ir.get("st") != "ok":
        return "err:" + str(ir.get("err"))
    sim = ir["sim"]
    s = "sim:" + (sim["st"] if sim["st"] != "ok" else ("tie" if len(possible_orders(case, 2)) > 1 else "notie"))
    sp = ir["simple"]
    if sp is None:
        return "trivial:" + s + ";nosimple"
    w, r = ir["pair"]
    if case["pair"] is None:
        p = "pair=sim"
    elif w == r:
        p = "pair=same"
    elif w not in case["cands"] or r not in case["cands"]:
        p = "pair=noncand"
    else:
        pw = possible_winners(case)
        p = "pair=" + ("right" if pw == {w} else "possible" if w in pw else "wrong")
    kinds = sorted({"NEN" if " NEN over " in x else "NEB" for x in sp["failed"]})
    fl = "complete" if not sp["failed"] else "failed:" + "+".join(kinds) + (";none-formed" if not sp["as"] else "")
    return ("trivial:" if n < 3 else "") + f"n={n};{s};{p};{fl}" + (";" + "+".join(tags) if tags else "")


# ---------------------------------------------------------------------------------------------
# brute force on profiles (independent of the repo and of the model)

def possible_orders(case, limit=None):
    """all elimination orders of a plain IRV count of the profile, every tie broken every way (at most `limit`)"""
    wb = R.ballots_of(case)
    cands = list(dict.fromkeys(case["cands"]))
    out = []

    def rec(standing, order):
        if limit is not None and len(out) >= limit:
            return
        if len(standing) <= 1:
            out.append(order + standing)
            return
        t = {c: 0 for c in standing}
        for r, n in wb:
            for c in r:
                if c in t:
                    t[c] += n
                    break
        mn = min(t.values())
        for x in [c for c in standing if t[c] == mn]:
            rec([c for c in standing if c != x], order + [x])
    rec(cands, [])
    return out


def possible_winners(case):
    return {o[-1] for o in possible_orders(case) if o}


def tally_neb_raw(case, w, l):
    """NEB(w, l): winner = ballots whose FIRST LINE POSITION is w (NEBAssertion's definition: `ranking == 0`; a ballot
    whose first position is a hole is not a first preference for anybody); loser = ballots mentioning l and not w
    before it (group raire's helper; holes do not change the order)"""
    W = sum(n for r, n in case["sigs"] if r and r[0] == w and n > 0)
    return W, R.tally_neb(R.ballots_of(case), w, l)[1]


# ---------------------------------------------------------------------------------------------
# oracle

def _oracle_c04(case, ir):
    if ir.get("st") != "ok":
        return {"what": f"simple_IRV_assertions raised {ir.get('err')}: {ir.get('msg')}"}
    cands = case["cands"]
    if len(set(cands)) != len(cands) or len(cands) > 6:
        return None          # the property is about contests (distinct candidates); brute force up to 6
    wb = R.ballots_of(case)
    # ---- sim_irv: a possible IRV count; THE count when no tie occurs
    sim = ir["sim"]
    if len(cands) >= 2:
        if sim.get("st") != "ok":
            return {"what": f"sim_irv raised {sim.get('err')}: {sim.get('msg')} on a contest of {len(cands)} candidates"}
        orders = possible_orders(case)
        w, r = sim["winner"], sim["runner_up"]
        if w == r or w not in cands or r not in cands:
            return {"what": f"sim_irv returned ({w}, {r}): not two distinct candidates"}
        if not any(o[-1] == w and o[-2] == r for o in orders):
            return {"what": f"sim_irv returned ({w}, {r}); the possible IRV counts of the CVRs end in "
                            f"{sorted({(o[-1], o[-2]) for o in orders})}"}
    # ---- simple_IRV_assertions on `pair`
    sp = ir["simple"]
    if sp is None:
        return None
    winner, runner_up = ir["pair"]
    res = sp["as"]
    for k, a in enumerate(res):
        # an assertion compares two different candidates, both still standing
        if a["w"] == a["l"] or a["w"] in a["e"] or a["l"] in a["e"]:
            return {"what": f"assertion {k} {a['t']}({a['w']},{a['l']},{a['e']}) is not an assertion about two "
                            f"standing candidates"}
        if a["t"] == "NEB":
            W, L = tally_neb_raw(case, a["w"], a["l"])
            if not leading_hole(case) and (W, L) != R.tally_neb(wb, a["w"], a["l"]):
                return {"what": "harness: the two NEB tally helpers disagree"}
        else:
            # each tally by its own count (the helper gives a ballot to the winner first when winner = loser)
            W = R.tally_nen(wb, a["w"], None, a["e"])[0]
            L = R.tally_nen(wb, a["l"], None, a["e"])[0]
        if (W, L) != (a["vw"], a["vl"]):
            return {"what": f"assertion {k} {a['t']}({a['w']},{a['l']},{a['e']}) reports tallies "
                            f"{a['vw']}/{a['vl']}, the CVRs give {W}/{L}"}
        if not W > L:
            return {"what": f"assertion {k} {a['t']}({a['w']},{a['l']},{a['e']}) is false on the CVRs: {W} vs {L}"}
    if not sp["failed"] and winner in cands:
        # all assertions could be formed: the set must exclude every other winner
        for pi in R.alt_orders(cands, winner):
            if not any(R.contradicts(a, pi) for a in res):
                return {"what": f"failed_to_assert is empty, yet elimination order {list(pi)} (winner {pi[-1]} != "
                                f"reported {winner}) is contradicted by none of the {len(res)} returned assertions"}
        # ... in particular the reported winner is the only possible winner of an IRV count of these CVRs
        pw = possible_winners(case)
        if pw != {winner}:
            return {"what": f"failed_to_assert is empty for reported winner {winner}, but the possible IRV winners of "
                            f"the CVRs are {sorted(pw)}"}
    return None


ORACLES = {"C04": _oracle_c04}


# ---------------------------------------------------------------------------------------------
# generators

def corpus():
    return [
        # the contest of Props/C04Simp.lean: B wins, runner-up A, both assertions can be formed
        {"cands": ["A", "B", "C"], "sigs": [[["A", "B"], 4], [["B", "C"], 3], [["C", "B"], 2]], "tot": 9, "pair": None},
        {"cands": ["A", "B", "C"], "sigs": [[["A", "B"], 4], [["B", "C"], 3], [["C", "B"], 2]], "tot": 9, "pair": ["B", "A"]},
        {"cands": ["A", "B", "C"], "sigs": [[["A", "B"], 4], [["B", "C"], 3], [["C", "B"], 2]], "tot": 9, "pair": ["A", "B"]},
        {"cands": ["A", "B", "C"], "sigs": [[["A", "B"], 4], [["B", "C"], 3], [["C", "B"], 2]], "tot": 9, "pair": ["B", "B"]},
        {"cands": ["A", "B", "C"], "sigs": [[["A", "B"], 4], [["B", "C"], 3], [["C", "B"], 2]], "tot": 9, "pair": ["B", "Z"]},
        # a dominant winner among four, cards without the contest, blanks
        {"cands": ["A", "B", "C", "D"], "sigs": [[["A", "B", "C", "D"], 10], [["A"], 6], [["B", "A"], 4], [["C", "B", "A"], 2],
                                                 [["D", "C"], 1], [[], 3], [None, 2]], "tot": 28, "pair": None},
        # ties: the first candidate in `standing` order with the smallest tally goes
        {"cands": ["A", "B", "C"], "sigs": [[["A"], 2], [["B"], 2], [["C"], 2]], "tot": 6, "pair": None},
        {"cands": ["C", "B", "A"], "sigs": [[["A"], 2], [["B"], 2], [["C"], 2]], "tot": 6, "pair": None},
        # a hole in the first line position: not a first preference for NEB, but a vote in the count
        {"cands": ["A", "B", "C"], "sigs": [[[None, "A", "B"], 3], [["A"], 3], [["B", "C"], 2], [["C"], 1]], "tot": 9, "pair": ["A", "B"]},
        # fewer than two candidates: sim_irv raises IndexError
        {"cands": ["A"], "sigs": [[["A"], 2]], "tot": 2, "pair": ["A", "A"]},
        {"cands": [], "sigs": [[[], 2]], "tot": 2, "pair": None},
        # a repeated candidate (one dict entry, counted once per occurrence)
        {"cands": ["A", "B", "C", "C"], "sigs": [[["A", "C"], 5], [["C", "B"], 2], [["B"], 1]], "tot": 8, "pair": ["A", "B"]},
        {"cands": ["A", "A"], "sigs": [[["A"], 2]], "tot": 2, "pair": None},
        # numeric identifiers handed over as ints
        {"cands": ["1", "2", "3", "23"], "sigs": [[["3", "1"], 13], [["2", "23", "3"], 4], [["23", "3", "1"], 5]],
         "tot": 22, "pair": None, "ids": "int"},
    ]


def pick_pair(rng, case):
    """(winner, runner_up) handed to simple_IRV_assertions; None = whatever sim_irv returns"""
    cands = case["cands"]
    u = rng.random()
    if u < 0.34 or len(cands) < 2:
        return None
    wb = R.ballots_of(case)
    order = R.irv_order(cands, wb, rng)            # a possible count, ties broken at random
    if u < 0.60:
        return [order[-1], order[-2]]
    if u < 0.72:                                   # right winner, another runner-up
        return [order[-1], rng.choice([c for c in cands if c != order[-1]])]
    if u < 0.90:                                   # any ordered pair
        return rng.sample(cands, 2)
    if u < 0.95:
        c = rng.choice(cands)
        return [c, c]
    ghost = "999" if case.get("ids") == "int" else "Zz"
    p = [rng.choice(cands), ghost]
    rng.shuffle(p)
    return p


def profile_of(rc):
    d = {"cands": rc["cands"], "sigs": rc["sigs"], "tot": rc["tot"]}
    if rc.get("ids"):
        d["ids"] = rc["ids"]
    return d


def gen_dominant(rng):
    """one candidate is ranked first on most ballots: all of simple_IRV_assertions' assertions can be formed"""
    nc = rng.choice([3, 3, 4, 4, 5, 6])
    cands, ids = R.pick_ids(rng, nc)
    w = rng.choice(cands)
    rest = [c for c in cands if c != w]
    sigs = {}
    nb = rng.randint(8, 60)
    share = rng.choice([0.5, 0.6, 0.7, 0.85])
    for _ in range(nb):
        if rng.chance(share):
            r = [w] + rng.sample(rest, rng.randint(0, len(rest)))
        else:
            k = rng.randint(1, min(2, len(rest)))
            r = rng.sample(rest, k)
            if rng.chance(0.5):
                r.append(w)
        sigs[tuple(r)] = sigs.get(tuple(r), 0) + 1
    if rng.chance(0.2):
        sigs[()] = rng.randint(1, 3)
    s = [[list(r), n] for r, n in sigs.items()]
    if rng.chance(0.2):
        s.append([None, rng.randint(1, 3)])
    d = {"cands": cands, "sigs": s, "tot": R.pick_tot(rng, s)}
    if ids:
        d["ids"] = ids
    return d


def add_leading_holes(rng, d):
    for sg in d["sigs"]:
        if sg[0] and rng.chance(0.4):
            sg[0] = [None] + list(sg[0])
    return d


def gen(rng, n, tier):
    cases = []
    # a sample of the exhaustive small profiles of group raire
    nsmall = n // 3
    pool = []
    for cands in (["A", "B"], ["A", "B", "C"]):
        types = R.ballot_types(cands)
        for k in range(1, 5):
            for combo in itertools.combinations_with_replacement(range(len(types)), k):
                pool.append((cands, types, combo))
    for cands, types, combo in (pool if nsmall >= len(pool) else rng.sample(pool, nsmall)):
        sigs = [[types[i], combo.count(i)] for i in sorted(set(combo))]
        if rng.chance(0.3):
            cands = list(cands)
            rng.shuffle(cands)
        d = {"cands": cands, "sigs": sigs, "tot": R.pick_tot(rng, sigs)}
        d["pair"] = pick_pair(rng, d)
        cases.append(d)
    # random and dominant profiles
    while len(cases) < n:
        d = gen_dominant(rng) if rng.chance(0.4) else profile_of(R.gen_random(rng))
        if rng.chance(0.125):
            add_leading_holes(rng, d)
        if rng.chance(0.03):                       # a repeated candidate
            d["cands"] = d["cands"] + [rng.choice(d["cands"])]
        d["pair"] = pick_pair(rng, d)
        cases.append(d)
        # the same profile with the pair sim_irv returns and with a wrong winner
        if rng.chance(0.3) and d["pair"] is not None:
            e = dict(d)
            e["pair"] = None
            cases.append(e)
    yield from cases
