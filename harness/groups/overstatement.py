"""
Correspondence group `overstatement`: the comparison-audit data path of shangrla.core.Audit
    Assorter.set_tally_pool_means, Assorter.mean / Assertion.set_margin_from_cvrs, Assorter.overstatement,
    Assertion.overstatement_assorter, Assertion.mvrs_to_data, Assertion.set_p_values (the u it installs),
    with the glue CVR.from_dict / CVR(...), CVR.make_phantoms, CVR.pool_contests / add_pool_contests,
    Contest.from_dict, Audit.from_dict, Assertion.make_all_assertions (plurality, super-majority, IRV json)
vs. Shangrla.Overstatement.*   (properties C03, C06, C08 second sentence).

One case = one whole scenario built from the repo's own classes.  The raw assorter is a parameter of the model:
the harness calls the real `assorter.assort` on every real record and sends the values; everything else (filters,
pool means, margin, overstatements, test data, u) is computed by the model from the flags of the records.
"""
import math
from fractions import Fraction

from ..core import fr, num_close, err_kind, case_key, container, CONTAINER_KINDS

NAME = "overstatement"
RULE = ("populations of 1-30 (CVR, MVR) pairs built with CVR.from_dict / CVR(...) / CVR.make_phantoms; 0-3 tally pools, any "
        "subset pooled, card-level pool flags, phantoms inside and outside pools (explicit and via make_phantoms), "
        "add_pool_contests on/off, MVRs equal / discrepant / lacking the contest / phantom, style on/off, "
        "plurality (1-2 winners), super-majority (shares on both sides of 1/2) and IRV (json) assorters, built through "
        "make_all_assertions or by the direct constructor call without share_to_win (as the repo's tests do), audit types POLLING / "
        "CARD_COMPARISON / ONEAUDIT / unsupported, tally_pools argument absent / pool_contests dict / explicit list "
        "(missing or extra labels), explicit means and margins (grid in (-u, 2u), rarely >= 2u), thresholds on and off "
        "sample numbers or None, sample numbers integers or (3 in 10) floats k/2^j with a fractional part, down to all in "
        "[0,1), samples with and without repeats, truncated samples; every pair also with the phantom manual records the "
        "library creates (no votes; the contest listed without votes); plus the single-pair table "
        "(CVR vote x phantom x pooled x MVR vote x phantom x style x type; all 1024 in the thorough tier, a random "
        "tenth of the budget in the quick tier); non-trivial = at least 2 cards "
        "under audit and a phantom, a pooled card, a discrepancy or an error branch; distinct = distinct canonical case")
EXHAUSTIVE = {"quick": False, "thorough": False}
RULE += "; option stream (n/10 more cases, own generator, OPTIONS_AUDIT.md): use_style / tally_pools / use_all / prefix / tally_pool / pool left out where they hold their defaults, records and samples by keyword"

CID = "AvB"
OTHER = "CvD"

# --------------------------------------------------------------------------------------------------------------
# building the real objects


def _contest_dict(case):
    from shangrla.core.Audit import Audit, Contest
    from shangrla.core.NonnegMean import NonnegMean
    d = {"id": CID, "name": CID, "risk_limit": 0.05, "cards": case["cards"],
         "choice_function": case["scf"], "n_winners": len(case["winner"]), "candidates": list(case["cands"]),
         "winner": list(case["winner"]), "audit_type": case["audit_type"], "test": NonnegMean.alpha_mart,
         "estim": NonnegMean.optimal_comparison, "use_style": case["use_style"]}
    if case["scf"] == "SUPERMAJORITY":
        d["share_to_win"] = case["share"]
    if case["scf"] == "IRV":
        d["assertion_json"] = [case["irv_assertion"]]
    return d


_cache = {}


def build(case):
    """real objects + the per-record features the anchored functions read (cached per case)"""
    k = case_key(case)
    if k in _cache:
        return _cache[k]
    from shangrla.core.Audit import Audit, Assertion, Contest, CVR
    from shangrla.core.NonnegMean import NonnegMean
    strata = {}
    for s in range(case["n_strata"]):
        strata[f"stratum_{s+1}"] = {"max_cards": case["max_cards"], "use_style": case["use_style"], "replacement": False,
                                    "audit_type": case["audit_type"], "test": NonnegMean.alpha_mart,
                                    "estimator": NonnegMean.optimal_comparison, "test_kwargs": {}}
    audit = Audit.from_dict({"quantile": 0.8, "error_rate_1": 0, "error_rate_2": 0, "reps": 10, "strata": strata})
    con = Contest.from_dict(_contest_dict(case))
    contests = {CID: con}
    if case.get("direct") and case["scf"] in ("PLURALITY", "SUPERMAJORITY"):
        # the constructors called directly, the way tests/core/test_Assertion.py calls them: contest, winner, loser
        # (and the test), WITHOUT repeating what the contest already says (share_to_win)
        losers = [c for c in con.candidates if c not in con.winner]
        if case["scf"] == "PLURALITY":
            con.assertions = Assertion.make_plurality_assertions(contest=con, winner=list(con.winner), loser=losers,
                                                                 test=con.test, estim=con.estim)
        else:
            con.assertions = Assertion.make_supermajority_assertion(contest=con, winner=con.winner[0], loser=losers,
                                                                    test=con.test, estim=con.estim)
    else:
        Assertion.make_all_assertions(contests)
    names = sorted(con.assertions.keys())
    asn_name = names[case["asn"] % len(names)]
    asn = con.assertions[asn_name]
    if case.get("ctor_means") is not None:
        # the Assertion object made by its own constructor with preliminary pool means (`tally_pool_means=`), as a caller
        # who estimated them before the CVRs were final would; the means in force are the ones the assorter holds after
        # set_tally_pool_means -- the keyword's values must not come back
        asn = Assertion(contest=con, assorter=asn.assorter, winner=asn.winner, loser=asn.loser, margin=asn.margin,
                        test=asn.test, estim=asn.estim, bet=asn.bet,
                        tally_pool_means={k: float(Fraction(v)) for k, v in case["ctor_means"]})
    con.assertions = {asn_name: asn}        # the one assertion under test (set_p_values loops over con.assertions)
    # how boolean flags handed to the CVR constructor are materialised: Python bool, numpy bool (a mask of unfound
    # cards), or int 0/1 (a flag column read from a file): all are legitimate truthy / falsy flags
    import numpy as np
    ft = case.get("flag_type", "bool")

    def flag(v):
        v = bool(v)
        return v if ft == "bool" else (np.bool_(v) if ft == "np" else int(v))
    def np_marks(votes):
        # the same marks held as numpy scalars (a row of a marks table / dataframe): np.int64(7), np.bool_(True)
        if not case.get("np_marks"):
            return votes
        conv = lambda x: (np.bool_(x) if isinstance(x, bool) else np.int64(x) if isinstance(x, int) else x)
        return {kk: {c_: conv(x) for c_, x in v.items()} for kk, v in votes.items()}
    # CVRs: half through from_dict, the explicit phantoms through the constructor
    cvrs = []
    for i, c in enumerate(case["cvrs"]):
        votes = np_marks({kk: dict(v) for kk, v in c["votes"].items()})
        if c.get("ctor"):
            cvrs.append(CVR(id=c["id"], votes=votes, phantom=flag(c.get("phantom", False)),
                            tally_pool=c.get("tally_pool"), pool=flag(c.get("pool", False))))
        else:
            dd = {"id": c["id"], "votes": votes}
            for f in ("phantom", "tally_pool", "pool"):
                if f in c:
                    dd[f] = c[f]
            cvrs += CVR.from_dict([dd])
    ph = case.get("make_phantoms")
    if ph is not None:
        # make_phantoms needs exactly one stratum
        a1 = audit
        if case["n_strata"] != 1:
            a1 = Audit.from_dict({"strata": {"s": {"max_cards": case["max_cards"], "use_style": case["use_style"]}}})
        if case.get("call") == "defaults":
            # optional arguments that hold their documented defaults are left out of the call
            kw = {}
            if ph.get("tally_pool") is not None:
                kw["tally_pool"] = ph.get("tally_pool")
            if ph.get("pool", False):
                kw["pool"] = True
            cvrs, _n = CVR.make_phantoms(audit=a1, contests=contests, cvr_list=cvrs, **kw)
        else:
            cvrs, _n = CVR.make_phantoms(a1, contests, cvrs, prefix="phantom-", tally_pool=ph.get("tally_pool"),
                                         pool=bool(ph.get("pool", False)))
    if case.get("add_pool_contests"):
        CVR.add_pool_contests(cvrs, CVR.pool_contests(cvrs))
    nums = case["sample_nums"]
    # `sample_scale` D (a power of two, so that the division is exact): the numbers handed to the code are the floats
    # k/D -- sample numbers are documented as floats and only ever compared; the model works with the integers k
    D = case.get("sample_scale") or 1
    for i, c in enumerate(cvrs):
        k = nums[i % len(nums)] if i < len(nums) else 1000 + i
        c.sample_num = k if D == 1 else _scaled(k, D, case.get("sample_np"))
    # MVRs, padded with phantom MVRs when make_phantoms produced more cards than the case lists
    mvrs = []
    for i, c in enumerate(cvrs):
        if i < len(case["mvrs"]):
            m = case["mvrs"][i]
            mvrs.append(CVR(id=c.id, votes=np_marks({kk: dict(v) for kk, v in m["votes"].items()}), phantom=flag(m.get("phantom", False))))
        else:
            mvrs.append(CVR(id=c.id, votes={}, phantom=flag(True)))
    A = asn.assorter.assort

    def safe_a(r):
        try:
            return float(A(r))
        except Exception:
            return None
    feat = []
    for c, m in zip(cvrs, mvrs):
        feat.append({"c_hc": bool(c.has_contest(CID)), "c_ph": bool(c.phantom), "c_pool": bool(c.pool),
                     "c_tp": c.tally_pool, "c_a": safe_a(c), "c_sn": int(c.sample_num) if D == 1 else float(c.sample_num),
                     "m_hc": bool(m.has_contest(CID)), "m_ph": bool(m.phantom), "m_a": safe_a(m)})
    out = dict(audit=audit, con=con, contests=contests, asn=asn, cvrs=cvrs, mvrs=mvrs, feat=feat,
               upper=float(asn.assorter.upper_bound))
    if len(_cache) > 4:
        _cache.clear()
    _cache[k] = out
    return out


def _scaled(k, D, as_np=False):
    """the sample number k/D as the code receives it (exact: D is a power of two, k < 2**53)"""
    assert D & (D - 1) == 0 and Fraction(k / D) == Fraction(k, D)
    if as_np:
        import numpy as np
        return np.float64(k / D)
    return k / D


def _threshold(case):
    """the contest's sample_threshold as the code receives it"""
    t, D = case.get("threshold"), case.get("sample_scale") or 1
    return t if (t is None or D == 1) else _scaled(t, D, case.get("sample_np"))


def _num(x):
    x = float(x)
    if math.isnan(x):
        return "nan"
    if math.isinf(x):
        return "inf" if x > 0 else "-inf"
    return x


def _call(f):
    try:
        return f()
    except Exception as e:  # noqa
        return {"st": "err", "err": err_kind(e), "msg": str(e)[:120]}


def impl(case):
    import numpy as np
    from shangrla.core.Audit import Assertion, CVR
    o = build(case)
    audit, con, contests, asn, cvrs, mvrs = o["audit"], o["con"], o["contests"], o["asn"], o["cvrs"], o["mvrs"]
    us = case["use_style"]
    asn.assorter.tally_pool_means = None
    asn.margin = None
    res = {"st": "ok", "feat": o["feat"], "upper": o["upper"]}
    # 1. pool means
    res["pm"] = None
    if case["set_means"]:
        arg = case.get("tally_pools_arg")
        if arg == "pool_contests":
            arg = CVR.pool_contests(cvrs)

        dflt = case.get("call") == "defaults"

        def f():
            # (two passes over the records when the pools are not given: a re-iterable container only)
            cl = tuple(cvrs) if case.get("container") not in (None, "list") else cvrs
            if dflt:
                # `tally_pools` left out when there is none, `use_style` left out when it is True (the defaults)
                kw = ({} if arg is None else {"tally_pools": arg}) | ({} if us else {"use_style": us})
                asn.assorter.set_tally_pool_means(cl, **kw)
            else:
                asn.assorter.set_tally_pool_means(cvr_list=cl, tally_pools=arg, use_style=us)
            return {"st": "ok", "means": [[k, _num(v)] for k, v in asn.assorter.tally_pool_means.items()]}
        res["pm"] = _call(f)
    if case.get("means_override") is not None:
        asn.assorter.tally_pool_means = {k: (float("nan") if v == "nan" else float(Fraction(v))) for k, v in case["means_override"]}
    res["means_set"] = asn.assorter.tally_pool_means is not None
    # 2. margin
    def g():
        asn.set_margin_from_cvrs(audit, container(case.get("container"), cvrs))
        return {"st": "ok", "margin": _num(asn.margin), "u": _num(asn.test.u)}
    res["mg"] = _call(g)

    def g2():
        asn.test.u = -777.0
        mm = Assertion.set_all_margins_from_cvrs(audit=audit, contests=contests, cvr_list=cvrs)
        return {"st": "ok", "margin": _num(asn.margin), "u": _num(asn.test.u), "min": _num(mm)}
    res["mgAll"] = _call(g2)
    if case.get("margin_override") is not None:
        v = float(Fraction(case["margin_override"]))
        # numpy scalar where the denominator 2 - v/u vanishes (a Python float would raise ZeroDivisionError,
        # the margin stored by set_margin_from_cvrs is always a numpy scalar)
        asn.margin = np.float64(v) if case.get("margin_np") else v
    res["margin"] = None if asn.margin is None else _num(asn.margin)
    # 3. per pair
    pairs = []
    for m, c in zip(mvrs, cvrs):
        _ft = case.get("flag_type", "bool")
        _true = (True if _ft == "bool" else np.bool_(True) if _ft == "np" else 1)
        mph = CVR(id=m.id, votes=m.votes, phantom=_true)
        # the records the library itself makes for a card that cannot be found: no votes at all
        # (Dominion/Hart.sample_from_cvrs, sample_from_manifest), or the contest listed without votes (make_phantoms)
        mph0 = CVR(id=m.id, votes={}, phantom=_true)
        mphc = CVR(id=m.id, votes={CID: {}}, phantom=_true)
        # the CVR used as its OWN manual record (what mvrs_to_data(cvrs, cvrs) does when a sample size is planned from
        # the CVRs alone), against an equal but distinct copy of it as the manual record: object identity is no evidence
        twin = CVR(id=c.id, votes={kk: dict(v) for kk, v in c.votes.items()}, phantom=c.phantom, tally_pool=c.tally_pool,
                   pool=c.pool)
        bself = _call(lambda: {"st": "ok", "v": _num(asn.overstatement_assorter(c, c, use_style=us))})
        btwin = _call(lambda: {"st": "ok", "v": _num(asn.overstatement_assorter(twin, c, use_style=us))})
        if case.get("call") == "defaults" and us:
            # style-based sampling is the default of both functions: the argument is left out, records go by keyword
            pairs.append({
                "_self": None if (bself == btwin or (bself.get("st") != "ok" and btwin.get("st") != "ok")) else
                f"the CVR as its own manual record gives {bself.get('v', bself.get('err'))}, an equal copy of it {btwin.get('v', btwin.get('err'))}",
                "o": _call(lambda: {"st": "ok", "v": _num(asn.assorter.overstatement(m, c))}),
                "b": _call(lambda: {"st": "ok", "v": _num(asn.overstatement_assorter(mvr=m, cvr=c))}),
                "bph": _call(lambda: {"st": "ok", "v": _num(asn.overstatement_assorter(mph, c))}),
                "bph0": _call(lambda: {"st": "ok", "v": _num(asn.overstatement_assorter(cvr=c, mvr=mph0))}),
                "bphc": _call(lambda: {"st": "ok", "v": _num(asn.overstatement_assorter(mphc, c))}),
            })
            continue
        pairs.append({
            "_self": None if (bself == btwin or (bself.get("st") != "ok" and btwin.get("st") != "ok")) else
            f"the CVR as its own manual record gives {bself.get('v', bself.get('err'))}, an equal copy of it {btwin.get('v', btwin.get('err'))}",
            "o": _call(lambda: {"st": "ok", "v": _num(asn.assorter.overstatement(m, c, us))}),
            "b": _call(lambda: {"st": "ok", "v": _num(asn.overstatement_assorter(m, c, use_style=us))}),
            "bph": _call(lambda: {"st": "ok", "v": _num(asn.overstatement_assorter(mph, c, use_style=us))}),
            "bph0": _call(lambda: {"st": "ok", "v": _num(asn.overstatement_assorter(mph0, c, use_style=us))}),
            "bphc": _call(lambda: {"st": "ok", "v": _num(asn.overstatement_assorter(mphc, c, use_style=us))}),
        })
    res["pairs"] = pairs
    # 4. data for the test
    con.sample_threshold = _threshold(case)
    sc = [cvrs[i] for i in case["sample"]]
    sm = [mvrs[i] for i in case["sample"]]
    if case.get("mvr_sample_len") is not None:
        sm = sm[: case["mvr_sample_len"]]
    if case.get("cvr_sample_len") is not None:
        sc = sc[: case["cvr_sample_len"]]

    def data(ms, cs, use_all):
        def h():
            if case.get("call") == "defaults":
                d, u = (asn.mvrs_to_data(mvr_sample=ms, cvr_sample=cs, use_all=True) if use_all
                        else asn.mvrs_to_data(mvr_sample=ms, cvr_sample=cs))
            else:
                d, u = asn.mvrs_to_data(ms, cs, use_all=use_all)
            return {"st": "ok", "d": [_num(x) for x in d], "u": _num(u)}
        return _call(h)
    res["dat"] = data(sm, sc, False)
    res["datAll"] = data(sm, sc, True)
    res["popAll"] = data(mvrs, cvrs, True)
    # 5. the u installed by set_p_values
    asn.test.u = -12345.0
    raised = None
    try:
        if case.get("call") == "defaults":
            Assertion.set_p_values(contests=contests, mvr_sample=sm, cvr_sample=sc)
        else:
            Assertion.set_p_values(contests, sm, sc)
    except Exception as e:  # noqa
        raised = err_kind(e)
    res["inst"] = {"u": _num(asn.test.u), "raised": raised}
    return res


def _ty(case):
    return case["audit_type"]


def request(case):
    o = build(case)
    f = o["feat"]
    D = case.get("sample_scale") or 1
    cv = [{"hc": x["c_hc"], "ph": x["c_ph"], "pool": x["c_pool"], "tp": x["c_tp"],
           "a": fr(x["c_a"] if x["c_a"] is not None else 0),
           "sn": x["c_sn"] if D == 1 else int(Fraction(x["c_sn"]) * D)} for x in f]
    mv = [{"hc": x["m_hc"], "ph": x["m_ph"], "a": fr(x["m_a"] if x["m_a"] is not None else 0)} for x in f]
    arg = case.get("tally_pools_arg")
    if arg == "pool_contests":
        from shangrla.core.Audit import CVR
        arg = list(CVR.pool_contests(o["cvrs"]).keys())
    a = {"useStyle": case["use_style"], "ty": case["audit_type"], "upper": fr(o["upper"]), "nStrata": case["n_strata"],
         "cvrs": cv, "mvrs": mv, "setMeans": bool(case["set_means"]), "keys": arg,
         "meansOverride": case.get("means_override"), "marginOverride": case.get("margin_override"),
         "threshold": case.get("threshold"), "sample": list(case["sample"]),
         "mvrSampleLen": case.get("mvr_sample_len"), "cvrSampleLen": case.get("cvr_sample_len")}
    return ("overstatement", "scenario", a)


# --------------------------------------------------------------------------------------------------------------
# comparison


def _cmp_res(tag, ir, mr, fields):
    if ir.get("st") != mr.get("st"):
        return f"{tag}: status differs impl={ir.get('st')}/{ir.get('err')} model={mr.get('st')}/{mr.get('err')}"
    if ir["st"] == "err":
        return None if ir["err"] == mr["err"] else f"{tag}: error kind differs impl={ir['err']} model={mr['err']}"
    for f in fields:
        a, b = ir[f], mr[f]
        if isinstance(a, list):
            if len(a) != len(b):
                return f"{tag}.{f}: lengths differ {len(a)} vs {len(b)}"
            for i, (x, y) in enumerate(zip(a, b)):
                if not num_close(x, y):
                    return f"{tag}.{f}[{i}]: impl={x} model={y}"
        elif not num_close(a, b):
            return f"{tag}.{f}: impl={a} model={b}"
    return None


def compare(case, ir, mr):
    if ir.get("st") != "ok" or mr.get("st") != "ok":
        if ir.get("st") == mr.get("st") and ir.get("err") == mr.get("err"):
            return None
        return f"scenario status differs: impl={ir.get('st')}/{ir.get('err')}/{ir.get('msg')} model={mr}"
    # pool means
    if case["set_means"]:
        ip, mp = ir["pm"], mr["pm"]
        if ip.get("st") != mp.get("st"):
            return f"pm: status differs impl={ip.get('st')}/{ip.get('err')} model={mp.get('st')}/{mp.get('err')}"
        if ip["st"] == "err":
            if ip["err"] != mp["err"]:
                return f"pm: error kind differs {ip['err']} vs {mp['err']}"
        else:
            di = {str(k): v for k, v in ip["means"]}
            dm = {str(k): v for k, v in mp["means"]}
            if sorted(di) != sorted(dm):
                return f"pm: pool labels differ {sorted(di)} vs {sorted(dm)}"
            for k in di:
                if not num_close(di[k], dm[k]):
                    return f"pm[{k}]: impl={di[k]} model={dm[k]}"
    r = _cmp_res("mg", ir["mg"], mr["mg"], ["margin", "u"]) or _cmp_res("mgAll", ir["mgAll"], mr["mgAll"], ["margin", "u", "min"])
    if r:
        return r
    if ir["margin"] is not None and not num_close(ir["margin"], mr["margin"]):
        return f"margin: impl={ir['margin']} model={mr['margin']}"
    if len(ir["pairs"]) != len(mr["pairs"]):
        return "number of pairs differs"
    for i, (p, q) in enumerate(zip(ir["pairs"], mr["pairs"])):
        for f in ("o", "b", "bph"):
            r = _cmp_res(f"pairs[{i}].{f}", p[f], q[f], ["v"])
            if r:
                return r
        # the model scores a phantom manual record whatever it lists: one answer for every phantom record
        for f in ("bph0", "bphc"):
            r = _cmp_res(f"pairs[{i}].{f}", p[f], q["bph"], ["v"])
            if r:
                return r
    for f in ("dat", "datAll", "popAll"):
        r = _cmp_res(f, ir[f], mr[f], ["d", "u"])
        if r:
            return r
    # installed u: set_p_values asserts equal lengths first; afterwards u is installed iff mvrs_to_data returned
    ins, mi = ir["inst"], mr["inst"]
    if case.get("mvr_sample_len") is not None or case.get("cvr_sample_len") is not None:
        return None                       # set_p_values asserts equal lengths before anything else
    if mi["st"] == "ok":
        if not num_close(ins["u"], mi["u"]):
            return f"inst.u: impl={ins['u']} model={mi['u']}"
    else:
        if ins["raised"] != mi["err"]:
            return f"inst: impl raised {ins['raised']} model {mi['err']}"
        if ins["u"] != -12345.0:
            return f"inst: u changed to {ins['u']} although mvrs_to_data raised"
    return None


def _under_audit(case, ir):
    return [i for i, x in enumerate(ir["feat"]) if (not case["use_style"]) or x["c_hc"]]


def signature(case, ir):
    if ir.get("st") != "ok":
        return "err:" + str(ir.get("err"))
    f = ir["feat"]
    U = _under_audit(case, ir)
    tags = [case["audit_type"][:4], "sty" if case["use_style"] else "nosty"]
    pooled = any(x["c_pool"] for x in f) and ir["means_set"]
    if any(x["c_ph"] and x["c_pool"] for x in f) and ir["means_set"]:
        tags.append("pool+phantomInPool")
    elif pooled:
        tags.append("pool")
    errs = set()
    if ir["pm"] and ir["pm"].get("st") == "err":
        errs.add(ir["pm"]["err"])
    if ir["mg"].get("st") == "err":
        errs.add(ir["mg"]["err"])
    for k in ("dat", "popAll"):
        if ir[k].get("st") == "err":
            errs.add(ir[k]["err"])
    for p in ir["pairs"]:
        if p["o"].get("st") == "err":
            errs.add(p["o"]["err"])
    errs = {"err=" + "+".join(sorted(errs))} if errs else set()
    disc = any(p["o"].get("st") == "ok" and p["o"]["v"] not in (0, 0.0) for p in ir["pairs"])
    nontrivial = len(U) >= 2 and (pooled or errs or disc or any(x["c_ph"] or x["m_ph"] for x in f))
    s = ";".join(tags + sorted(errs))
    return s if nontrivial else "trivial:" + s


# --------------------------------------------------------------------------------------------------------------
# oracles (the properties evaluated on the implementation's results, independently of the model)

TOL = 1e-9


def _close(a, b, tol=TOL):
    return abs(a - b) <= tol * max(1.0, abs(a), abs(b))


def _mvr_A(case, x):
    """A applied to the manual record: an unfindable card counts 0, under style a record lacking the contest counts 0"""
    if x["m_ph"] or (case["use_style"] and not x["m_hc"]):
        return 0.0
    return x["m_a"]


def _usable(case, ir):
    if ir.get("st") != "ok":
        return False
    return all(x["c_a"] is not None and x["m_a"] is not None for x in ir["feat"])


def oracle_c03(case, ir):
    if ir.get("st") != "ok":
        return {"what": f"scenario construction raised {ir.get('err')}: {ir.get('msg')}"}
    if not _usable(case, ir):
        return None
    # premises: the implementation's own margin and pool means, computed from these CVRs
    if case.get("margin_override") is not None or case.get("means_override") is not None:
        return None
    if case["n_strata"] != 1:
        return None
    if case["set_means"] and ir["pm"].get("st") != "ok":
        return None          # malformed tally_pools argument (KeyError): no means were installed by the code ...
    f = ir["feat"]
    U = _under_audit(case, ir)
    if not U:
        return None
    u = ir["upper"]
    v = ir["margin"]
    if v is None or isinstance(v, str):
        return {"what": f"margin from a non-empty list of cards under audit is {v}"}
    # premise: a phantom CVR outside a pool is a non-vote for the assorter (A = 1/2): true of every record made by
    # make_phantoms / the readers; a hand-made phantom record carrying votes is outside the quantifier
    means_set = ir["means_set"]
    for i in U:
        x = f[i]
        if x["c_ph"] and not (x["c_pool"] and means_set) and abs(x["c_a"] - 0.5) > 1e-12:
            return None
    if not (2 * u - v > 0):
        return {"what": f"2u - v = {2*u - v} is not positive (u={u}, v={v})"}
    B = []
    for i in U:
        b = ir["pairs"][i]["b"]
        if b.get("st") != "ok":
            return {"what": f"overstatement_assorter raised {b.get('err')} on pair {i}, a card under audit", "pair": i}
        if isinstance(b["v"], str):
            return {"what": f"overstatement_assorter is {b['v']} on pair {i}, a card under audit", "pair": i}
        B.append(b["v"])
    Abar = sum(_mvr_A(case, f[i]) for i in U) / len(U)
    rhs = (2 * Abar - 1) / (2 * (2 * u - v))
    lhs = sum(B) / len(B) - 0.5
    if not _close(lhs, rhs):
        return {"what": f"mean(B) - 1/2 = {lhs} but (2*mean(A) - 1)/(2*(2u - v)) = {rhs} "
                        f"(u={u}, v={v}, mean A={Abar}, {len(U)} cards under audit)"}
    if abs(Abar - 0.5) > 1e-7 and ((sum(B) / len(B) <= 0.5) != (Abar <= 0.5)):
        return {"what": f"mean(B)={sum(B)/len(B)} and mean(A)={Abar} fall on different sides of 1/2"}
    # the same through mvrs_to_data over the whole population (comparison audits)
    if case["audit_type"] in ("CARD_COMPARISON", "ONEAUDIT"):
        pa = ir["popAll"]
        if pa.get("st") != "ok":
            return {"what": f"mvrs_to_data(use_all=True) on the population raised {pa.get('err')}"}
        d = pa["d"]
        if len(d) != len(U):
            return {"what": f"mvrs_to_data(use_all=True) returns {len(d)} values for {len(U)} cards under audit"}
        if any(isinstance(x, str) for x in d):
            return {"what": "mvrs_to_data(use_all=True) returns a non-finite value"}
        lhs2 = sum(d) / len(d) - 0.5
        if not _close(lhs2, rhs):
            return {"what": f"mean of mvrs_to_data(use_all=True) - 1/2 = {lhs2} but (2*mean(A)-1)/(2*(2u-v)) = {rhs}"}
    return None


def oracle_c06(case, ir):
    if ir.get("st") != "ok":
        return {"what": f"scenario construction raised {ir.get('err')}: {ir.get('msg')}"}
    if not _usable(case, ir):
        return None
    ty = case["audit_type"]
    if ty not in ("POLLING", "CARD_COMPARISON", "ONEAUDIT"):
        return None
    f = ir["feat"]
    u = ir["upper"]
    v = ir["margin"]
    comp = ty != "POLLING"
    if comp:
        if v is None or isinstance(v, str):
            return None                      # no margin (no card under audit)
        if not (v < 2 * u):
            return None                      # not the margin of any population (v <= 2u - 1)
    # every assorter of this group is one the library ships, built by the library's own constructors (through
    # make_all_assertions or directly): that its values stay within its own bound is NOT a premise here -- if they do
    # not, the data below leave [0,u] and that is reported.  Premise on the inputs: supplied pool means in [0,u]
    if case.get("means_override") is not None:
        for _k, m in case["means_override"]:
            if m == "nan" or not (0 <= Fraction(m) <= Fraction(u)):
                return None
    malformed = case.get("mvr_sample_len") is not None or case.get("cvr_sample_len") is not None
    expect_u = u if not comp else 2 / (2 - v / u)
    sample = list(case["sample"])
    us = case["use_style"]
    thr = _threshold(case)
    for key, idx, use_all in (("dat", sample, False), ("datAll", sample, True), ("popAll", list(range(len(f))), True)):
        if malformed and key != "popAll":
            continue
        r = ir[key]
        guard_type_error = comp and us and (not use_all) and thr is None and any(f[i]["c_hc"] for i in idx)
        if r.get("st") != "ok":
            if guard_type_error and r.get("err") == "TypeError":
                continue                      # F20 guard: sample_threshold None
            if r.get("err") == "KeyError" and case.get("means_override") is not None:
                continue                      # supplied dict lacks a pool: no data handed to the test
            return {"what": f"mvrs_to_data ({key}) raised {r.get('err')}: {r.get('msg')}"}
        if guard_type_error:
            return {"what": f"{key}: sample_threshold is None under style-based sampling and a sampled CVR lists the contest, "
                            f"yet mvrs_to_data handed {len(r['d'])} data to the test instead of raising (no threshold: "
                            f"no card is known to be within it)"}
        if not _close(r["u"], expect_u) if not isinstance(r["u"], str) else True:
            return {"what": f"{key}: returned u={r['u']}, required {'2/(2 - v/u_assorter)' if comp else 'u_assorter'} = {expect_u}"}
        for j, x in enumerate(r["d"]):
            # exact comparison: the library's own wald_sprt raises ValueError for a datum above u by one ulp
            # (`if any(xx < 0 or xx > u)`), and (1 - o/u_a)/(2 - v/u_a) <= 2/(2 - v/u_a) holds exactly in floating
            # point (same divisor, numerator <= 2)
            if isinstance(x, str) or not (0 <= x <= r["u"]):
                return {"what": f"{key}: d[{j}]={x!r} outside [0, u={r['u']!r}]"
                                + ("" if not (-TOL <= x <= r["u"] * (1 + TOL) + TOL) else
                                   " (by rounding only: still rejected as out of range by NonnegMean.wald_sprt)")}
        # which pairs contribute
        if comp:
            if us:
                # whatever else the record is (phantom or not, pooled or not)
                want = [i for i in idx if f[i]["c_hc"] and (use_all or f[i]["c_sn"] <= thr)]
            else:
                want = list(idx)
            wv = []
            bad = None
            for i in want:
                b = ir["pairs"][i]["b"]
                if b.get("st") != "ok":
                    bad = i
                    break
                wv.append(b["v"])
            if bad is None:
                if len(wv) != len(r["d"]) or any((isinstance(a, str) or isinstance(b, str) or not _close(a, b)) for a, b in zip(r["d"], wv)):
                    return {"what": f"{key}: contributing pairs are not exactly those whose CVR lists the contest and whose "
                                    f"sample number is within the threshold: expected indices {want} -> {wv}, got {r['d']}"}
        else:
            if len(r["d"]) != len(idx):
                return {"what": f"{key}: polling data has {len(r['d'])} entries for {len(idx)} records"}
    # installed u
    ins = ir["inst"]
    if not malformed and ir["dat"].get("st") == "ok":
        if isinstance(ins["u"], str) or not _close(ins["u"], ir["dat"]["u"]):
            return {"what": f"set_p_values installed test.u={ins['u']} but mvrs_to_data returned u={ir['dat']['u']}"}
    # set_margin_from_cvrs / set_all_margins_from_cvrs install the same bound
    for key, fn in (("mg", "set_margin_from_cvrs"), ("mgAll", "set_all_margins_from_cvrs")):
        mg = ir[key]
        if mg.get("st") == "ok" and not isinstance(mg["margin"], str) and mg["margin"] < 2 * u:
            eu = u if not comp else 2 / (2 - mg["margin"] / u)
            if isinstance(mg["u"], str) or not _close(mg["u"], eu):
                return {"what": f"{fn} installed test.u={mg['u']}, required {eu}"}
    return None


def oracle_c08(case, ir):
    if ir.get("st") != "ok":
        return {"what": f"scenario construction raised {ir.get('err')}: {ir.get('msg')}"}
    if not _usable(case, ir):
        return None
    f = ir["feat"]
    u = ir["upper"]
    v = ir["margin"]
    means_set = ir["means_set"]
    for i, (x, p) in enumerate(zip(f, ir["pairs"])):
        o = p["o"]
        if p.get("_self"):
            return {"what": f"pair {i} (CVR phantom={x['c_ph']}, pooled={x['c_pool']}): {p['_self']} -- a card that cannot "
                            f"be found is scored by what the records SAY, not by which objects they are", "pair": i}
        # phantom CVR scored as a non-vote (1/2) outside a pool
        if o.get("st") == "ok" and not isinstance(o["v"], str) and x["c_ph"] and not (x["c_pool"] and means_set):
            cvr_assort = o["v"] + _mvr_A(case, x)
            if not _close(cvr_assort, 0.5):
                return {"what": f"pair {i}: phantom CVR scored {cvr_assort}, required 1/2", "pair": i}
        # replacing the MVR by a phantom never increases the overstatement assorter
        if v is None or isinstance(v, str) or not (2 - v / u > 0):
            continue
        if x["m_a"] < 0 or x["c_a"] < 0:
            continue
        b = p["b"]
        # the phantom that replaces the manual record: the same record flagged phantom, a phantom without votes, a
        # phantom that lists the contest without votes
        for key, shape in (("bph", "the same votes"), ("bph0", "votes {}"), ("bphc", f"votes {{{CID!r}: {{}}}}")):
            bph = p[key]
            if b.get("st") == "ok":
                if bph.get("st") != "ok":
                    return {"what": f"pair {i}: overstatement_assorter raised {bph.get('err')} with a phantom MVR ({shape}) but not with the MVR", "pair": i}
                if isinstance(b["v"], str) or isinstance(bph["v"], str):
                    continue
                if bph["v"] > b["v"] + TOL * max(1.0, abs(b["v"])):
                    return {"what": f"pair {i}: overstatement assorter with a phantom MVR ({shape}) {bph['v']} exceeds {b['v']} with the MVR", "pair": i}
    return None


ORACLES = {"C03": oracle_c03, "C06": oracle_c06, "C08": oracle_c08}


# --------------------------------------------------------------------------------------------------------------
# generators

PLUR_CANDS = ["Alice", "Bob", "Candy"]
IRV_CANDS = ["A", "B", "C", "D"]


def _base(**kw):
    c = {"scf": "PLURALITY", "cands": PLUR_CANDS, "winner": ["Alice"], "asn": 0, "share": None, "irv_assertion": None,
         "direct": False,
         "audit_type": "CARD_COMPARISON", "use_style": True, "n_strata": 1, "cards": 100, "max_cards": 100,
         "cvrs": [], "make_phantoms": None, "add_pool_contests": False, "sample_nums": [1], "mvrs": [],
         "set_means": False, "tally_pools_arg": None, "means_override": None, "margin_override": None, "margin_np": False,
         "threshold": 10 ** 6, "sample": [], "mvr_sample_len": None, "cvr_sample_len": None}
    c.update(kw)
    return c


def corpus():
    A, B = {CID: {"Alice": True}}, {CID: {"Bob": True}}
    out = []
    # the pairs of tests/core/test_Assertion.py::test_overstatement
    cv = [{"id": 1, "votes": A}, {"id": 2, "votes": B}, {"id": 3, "votes": {CID: {}}}, {"id": 4, "votes": {OTHER: {"Elvis": True}}},
          {"id": "phantom_1", "votes": {CID: {}}, "phantom": True}]
    mv = [{"votes": A}, {"votes": B}, {"votes": {CID: {}}}, {"votes": {OTHER: {"Elvis": True, "Candy": False}}},
          {"votes": {CID: {}}, "phantom": True}]
    for us in (True, False):
        out.append(_base(cvrs=cv, mvrs=mv, use_style=us, sample_nums=[5, 3, 9, 1, 7], sample=[0, 1, 2, 3, 4], threshold=7))
        out.append(_base(cvrs=cv, mvrs=[mv[1], mv[0], mv[4], mv[3], mv[0]], use_style=us, sample_nums=[5, 3, 9, 1, 7],
                         sample=[4, 0, 2], threshold=7, audit_type="POLLING"))
    # tests/core/test_Assertion.py::test_set_tally_pool_means, with and without add_pool_contests
    pc = [{"id": 1, "tally_pool": "1", "pool": True, "votes": {CID: {"Alice": 1}, OTHER: {"Candy": True}}},
          {"id": 2, "tally_pool": "1", "pool": True, "votes": {OTHER: {"Elvis": True, "Candy": False}, "EvF": {}}},
          {"id": 3, "tally_pool": "1", "pool": True, "votes": {"GvH": {}}},
          {"id": 4, "tally_pool": "2", "pool": True, "votes": {CID: {"Bob": 1}, OTHER: {"Candy": True}}},
          {"id": 5, "tally_pool": "2", "pool": True, "votes": {OTHER: {"Elvis": True, "Candy": False}, "EvF": {}}}]
    pm = [{"votes": {CID: {"Alice": 1}}}, {"votes": {CID: {"Bob": 1}}}, {"votes": {}}, {"votes": {CID: {"Bob": 1}}},
          {"votes": {}, "phantom": True}]
    for us in (True, False):
        for add in (True, False):
            out.append(_base(cvrs=pc, mvrs=pm, use_style=us, add_pool_contests=add, set_means=True,
                             tally_pools_arg="pool_contests", audit_type="ONEAUDIT", sample_nums=[2, 4, 6, 8, 10],
                             sample=[0, 1, 2, 3, 4], threshold=6))
    # a pool none of whose cards lists the contest (nan mean), style on; threshold None (F20 guard)
    out.append(_base(cvrs=[pc[0], pc[4]], mvrs=[pm[0], pm[4]], set_means=True, audit_type="ONEAUDIT",
                     sample_nums=[1, 2], sample=[0, 1], threshold=None))
    # an explicit tally_pools list that misses pool "2" (KeyError, means stay None)
    out.append(_base(cvrs=pc, mvrs=pm, use_style=False, set_means=True, tally_pools_arg=["1"], audit_type="ONEAUDIT",
                     sample_nums=[2, 4, 6, 8, 10], sample=[0, 3], threshold=6))
    # phantoms from make_phantoms inside a pool
    out.append(_base(cvrs=pc[:2], mvrs=pm[:2], cards=4, max_cards=6, set_means=True, audit_type="ONEAUDIT",
                     make_phantoms={"tally_pool": "1", "pool": True}, add_pool_contests=True,
                     sample_nums=[3, 1, 4, 1, 5, 9], sample=[0, 1, 2, 3], threshold=4))
    # a phantom CVR that carries a vote, outside a pool (premise of C03 fails; the model must still agree)
    out.append(_base(cvrs=[{"id": 1, "votes": A}, {"id": "ph", "votes": A, "phantom": True, "ctor": True}],
                     mvrs=[{"votes": A}, {"votes": {}, "phantom": True}], sample_nums=[1, 2], sample=[0, 1]))
    return out


def _plur_votes(rng, cands):
    r = rng.random()
    if r < 0.72:
        return {rng.choice(cands): rng.choice([True, 1, 1, 7])}
    if r < 0.80:
        a, b = rng.sample(cands, 2)
        return {a: True, b: rng.choice([True, False, 0])}
    if r < 0.92:
        return {}
    return {"Dan": True}


def _irv_votes(rng, cands):
    k = rng.choice([0, 1, 1, 2, 2, 3, 4])
    order = rng.sample(cands, min(k, len(cands)))
    return {c: i + 1 for i, c in enumerate(order)}


_TABLE = None


def single_pair_table():
    """every combination of CVR vote / phantom / pooled and MVR vote / phantom, style and audit type, for the
    plurality assorter Alice v Bob: the pair under test next to one fixed card (so that the margin is not degenerate)"""
    global _TABLE
    if _TABLE is not None:
        return _TABLE
    vote = {"w": {CID: {"Alice": True}}, "l": {CID: {"Bob": True}}, "n": {CID: {}}, "x": {OTHER: {"Candy": True}}}
    out = []
    for cv in vote:
        for cph in (False, True):
            for cpool in (False, True):
                for mv in vote:
                    for mph in (False, True):
                        for us in (True, False):
                            for ty in ("CARD_COMPARISON", "ONEAUDIT"):
                                c0 = {"id": "c0", "votes": vote["w"], "tally_pool": "b", "pool": cpool}
                                c1 = {"id": "c1", "votes": vote[cv], "phantom": cph, "tally_pool": "b", "pool": cpool,
                                      "ctor": cph}
                                out.append(_base(cvrs=[c0, c1], mvrs=[{"votes": vote["l"]}, {"votes": vote[mv], "phantom": mph}],
                                                 use_style=us, audit_type=ty, set_means=cpool, sample_nums=[2, 1],
                                                 sample=[0, 1], threshold=1 if mph else 2))
    _TABLE = out
    return out


def gen_options(rng):
    """call forms the main stream never uses (OPTIONS_AUDIT.md): the optional arguments of Assorter.overstatement,
    Assertion.overstatement_assorter, Assorter.set_tally_pool_means, Assertion.mvrs_to_data and CVR.make_phantoms left
    at their documented defaults (use_style=True, tally_pools=None, use_all=False, prefix='phantom-', tally_pool=None,
    pool=False) instead of spelled out; records handed over by keyword"""
    c = gen_one(rng)
    if rng.chance(0.7):
        for _ in range(12):                 # mostly style-based cases: that is where `use_style` can be left out
            if c["use_style"]:
                break
            c = gen_one(rng)
    if c.get("tally_pools_arg") is not None and rng.chance(0.5):
        c["tally_pools_arg"] = None
    c["call"] = "defaults"
    return c


def gen(rng, n, tier):
    import hashlib
    from ..core import Rng
    opt = Rng(int(hashlib.sha1(("options" + repr(rng.getstate())).encode()).hexdigest()[:15], 16))
    yield from gen_main(rng, n, tier)
    for _ in range(max(8, n // 10)):
        yield gen_options(opt)


def gen_main(rng, n, tier):
    table = single_pair_table()
    pick = table if tier == "thorough" else rng.sample(table, min(len(table), n // 10))
    for c in pick[:n]:
        yield c
    for _ in range(max(0, n - len(pick))):
        yield gen_one(rng)


def gen_one(rng):
    scf = rng.choice(["PLURALITY"] * 3 + ["SUPERMAJORITY"] * 2 + ["IRV"] * 2)
    case = _base(scf=scf)
    if scf == "PLURALITY":
        case["cands"] = list(PLUR_CANDS)
        case["winner"] = ["Alice"] if rng.chance(0.7) else ["Alice", "Bob"]
        votes = lambda: _plur_votes(rng, PLUR_CANDS)
    elif scf == "SUPERMAJORITY":
        case["cands"] = list(PLUR_CANDS)
        case["winner"] = ["Alice"]
        # shares on both sides of 1/2 (below 1/2: thresholds of primaries, explicitly allowed by the docstring)
        case["share"] = rng.choice([0.5, 0.55, 0.6, 2 / 3, 0.75, 1.0, rng.uniform(0.3, 1.0), rng.uniform(0.5, 0.9),
                                    0.25, 0.3, 1 / 3, 0.4, 0.45, rng.uniform(0.15, 0.5)])
        votes = lambda: _plur_votes(rng, PLUR_CANDS)
    else:
        case["cands"] = list(IRV_CANDS)
        w, l = rng.sample(IRV_CANDS, 2)
        case["winner"] = [w]
        if rng.chance(0.5):
            case["irv_assertion"] = {"winner": w, "loser": l, "assertion_type": "WINNER_ONLY"}
        else:
            rest = [c for c in IRV_CANDS if c not in (w, l)]
            elim = [c for c in rest if rng.chance(0.5)]
            case["irv_assertion"] = {"winner": w, "loser": l, "assertion_type": "IRV_ELIMINATION", "already_eliminated": elim}
        votes = lambda: _irv_votes(rng, IRV_CANDS)
    case["asn"] = rng.randint(0, 3)
    # type of the boolean flags handed to the CVR constructor (phantom / pool): bool, numpy bool, int
    case["flag_type"] = rng.choice(["bool", "bool", "np", "int"])
    case["direct"] = scf != "IRV" and rng.chance(0.4)     # assertion built by the direct constructor call
    case["np_marks"] = scf != "IRV" and rng.chance(0.15)   # marks held as numpy scalars
    case["container"] = rng.choice(CONTAINER_KINDS)
    _ctor_means = rng.chance(0.2)                          # Assertion(...) with preliminary pool means (filled in below)
    case["use_style"] = rng.chance(0.6)
    r = rng.random()
    case["audit_type"] = ("CARD_COMPARISON" if r < 0.4 else "ONEAUDIT" if r < 0.82 else "POLLING" if r < 0.97 else "BATCH_COMPARISON")
    N = rng.choice([1, 1, 2, 2, 3, 3, 4, 5, 6, 8, 10, 12, 15, 20, 25, 30, rng.randint(1, 30)])
    k = rng.choice([0, 0, 1, 2, 3])
    labels = [f"p{i+1}" for i in range(k)]
    pooled_labels = [p for p in labels if rng.chance(0.7)]
    if _ctor_means:
        case["ctor_means"] = [[p, str(rng.choice([Fraction(0), Fraction(1, 2), Fraction(1, 4), Fraction(1), Fraction(3, 4)]))]
                              for p in (labels or ["p1"])]
    p_contest = rng.choice([0.5, 0.8, 0.8, 1.0])
    cvrs, mvrs = [], []

    def mvr_for(cv_votes, phantom_cvr):
        r = rng.random()
        if phantom_cvr:
            if r < 0.7:
                return {"votes": {}, "phantom": True}
            if r < 0.8:
                return {"votes": {CID: {}}, "phantom": True}
            return {"votes": {CID: votes()}}
        if r < 0.55:
            return {"votes": {kk: dict(v) for kk, v in cv_votes.items()}}
        if r < 0.75:
            return {"votes": {CID: votes()}}
        if r < 0.85:
            return {"votes": ({OTHER: {"Elvis": True}} if rng.chance(0.5) else {})}
        if r < 0.95:
            return {"votes": ({CID: votes()} if rng.chance(0.5) else {}), "phantom": True}
        return {"votes": {CID: votes(), OTHER: {"Candy": True}}}

    for i in range(N):
        v = {}
        if rng.chance(p_contest):
            v[CID] = votes()
        if rng.chance(0.4):
            v[OTHER] = {"Candy": True}
        c = {"id": f"c{i+1}", "votes": v}
        if labels and rng.chance(0.85):
            tp = rng.choice(labels)
            c["tally_pool"] = tp
            c["pool"] = (tp in pooled_labels) if rng.chance(0.92) else rng.chance(0.5)
        elif rng.chance(0.05):
            c["pool"] = True                      # pooled with tally_pool None
        if rng.chance(0.5):
            c["ctor"] = True
        cvrs.append(c)
        mvrs.append(mvr_for(v, False))
    # explicit phantoms
    if rng.chance(0.35):
        for j in range(rng.randint(1, 3)):
            r = rng.random()
            v = {CID: {}} if r < 0.8 else ({} if r < 0.93 else {CID: votes()})
            c = {"id": f"xph{j+1}", "votes": v, "phantom": True}
            if labels and rng.chance(0.6):
                tp = rng.choice(labels)
                c["tally_pool"] = tp
                c["pool"] = tp in pooled_labels
            if rng.chance(0.5):
                c["ctor"] = True
            pos = rng.randint(0, len(cvrs))
            cvrs.insert(pos, c)
            mvrs.insert(pos, mvr_for(v, True))
    n_with = sum(1 for c in cvrs if CID in c["votes"] and not c.get("phantom"))
    extra = 0
    if rng.chance(0.35):
        extra = rng.randint(1, 3)
        ph = {}
        if labels and rng.chance(0.6):
            ph["tally_pool"] = rng.choice(labels)
            ph["pool"] = ph["tally_pool"] in pooled_labels
        case["make_phantoms"] = ph
        for _ in range(extra):
            r = rng.random()
            mvrs.append({"votes": {}, "phantom": True} if r < 0.75 else {"votes": {CID: votes()}})
    case["cards"] = n_with + extra if case["make_phantoms"] is not None else max(len(cvrs) + 5, 10)
    case["max_cards"] = len(cvrs) + extra
    if case["make_phantoms"] is None:
        case["max_cards"] = max(case["max_cards"], case["cards"])
    case["cvrs"], case["mvrs"] = cvrs, mvrs
    any_pooled = any(c.get("pool") for c in cvrs) or bool((case["make_phantoms"] or {}).get("pool"))
    case["add_pool_contests"] = any_pooled and case["use_style"] and rng.chance(0.7)
    total = len(cvrs) + extra
    nums = rng.sample(range(1, 10 * total + 10), total) if rng.chance(0.85) else [rng.randint(1, 5) for _ in range(total)]
    case["sample_nums"] = nums
    r = rng.random()
    case["threshold"] = (rng.choice(nums) if r < 0.6 else rng.randint(0, 10 * total + 10) if r < 0.93 else None)
    # sample numbers (and the threshold) as floats with a fractional part: k/D; D large puts all of them in [0, 1)
    if rng.chance(0.3):
        big = 1 << (10 * total + 10).bit_length()
        case["sample_scale"] = rng.choice([2, 4, 16, big, big, 1 << 20])
        case["sample_np"] = rng.chance(0.3)
    # n_strata
    r = rng.random()
    case["n_strata"] = 1 if r < 0.96 else (2 if r < 0.985 else 0)
    # pool means
    case["set_means"] = rng.chance(0.92) if any_pooled else rng.chance(0.15)
    if case["set_means"]:
        r = rng.random()
        if r < 0.45:
            case["tally_pools_arg"] = None
        elif r < 0.8:
            case["tally_pools_arg"] = "pool_contests"
        else:
            lab = [p for p in labels if rng.chance(0.8)]
            if rng.chance(0.3):
                lab.append("extra")
            if rng.chance(0.15) and lab:
                lab.append(lab[0])
            case["tally_pools_arg"] = lab
    upper = 1.0 if scf != "SUPERMAJORITY" else 1 / (2 * case["share"])
    if any_pooled and rng.chance(0.06):
        keys = list(labels) + ([None] if rng.chance(0.3) else [])
        ov = []
        for p in keys:
            r = rng.random()
            if r < 0.05:
                continue
            ov.append([p, "nan" if r < 0.1 else fr(Fraction(upper) * Fraction(rng.randint(0, 8), 8))])
        case["means_override"] = ov
    if case["n_strata"] != 1 or rng.chance(0.25):
        r = rng.random()
        kq = rng.randint(-8, 15) if r < 0.93 else rng.choice([16, 16, 18, 24])
        case["margin_override"] = fr(Fraction(upper) * Fraction(kq, 8))
        case["margin_np"] = (kq == 16) or rng.chance(0.3)
    # the sample
    r = rng.random()
    if r < 0.5:
        m = rng.randint(0, total)
        case["sample"] = rng.sample(range(total), m)
    elif r < 0.75:
        case["sample"] = [i for i in range(total) if rng.chance(0.6)]
    elif r < 0.9:
        case["sample"] = [rng.randrange(total) for _ in range(rng.randint(1, total + 2))]
    else:
        case["sample"] = list(range(total))
    if rng.chance(0.03) and case["sample"]:
        if rng.chance(0.5):
            case["mvr_sample_len"] = rng.randint(0, len(case["sample"]) - 1)
        else:
            case["cvr_sample_len"] = rng.randint(0, len(case["sample"]) - 1)
    return case
