"""
Correspondence group `merge`: shangrla.core.Audit.CVR.merge_cvrs / CVR.from_raire / CVR.from_raire_file
(with the constructors CVR(...), CVR.from_dict, CVR.from_vote as glue) vs. Shangrla.Merge.mergeCvrs /
Shangrla.Merge.fromRaire  (property C18).

A case is one of
  {"op": "merge", "recs": [{"id", "votes": [[contest, [[cand, value], ...]], ...], "phantom", "pool",
                            "tally_pool", "via": "ctor"|"dict"|"dict_min"|"vote"}, ...]}
  {"op": "raire", "rows": [[cell, ...], ...], "phantom": bool, "int_cands": bool}      (CVR.from_raire)
  {"op": "raire_file", "rows": [[cell, ...], ...]}                                      (CVR.from_raire_file on a real csv file)
Dicts travel as lists of pairs so that insertion order is explicit.
"""
import csv, json, os, tempfile

NAME = "merge"
RULE = ("merge: 1-12 records over 1-4 ids (ids in random, unsorted order), 0-3 contests per record drawn from a "
        "pool of 1-4 (so contests overlap within a card), vote dicts of 0-3 candidates with bool/int/str/None "
        "values, phantom all/none/random, pool with density 0/.3/.7/1, tally pools none / one common value with "
        "gaps / conflicting (incl. the falsy pool ''), records built through CVR(...), CVR.from_dict (full and "
        "minimal dicts) and CVR.from_vote, fresh objects per call; raire: 1-3 contests, 0-15 ballot rows over "
        "1-6 ballot ids repeated across and within contests, declared header count equal to / different from the "
        "number of contest lines, rare repeated candidates, malformed stream (empty input, empty/non-numeric first "
        "cell, short rows); raire_file: same rows written with csv.writer to a real temporary file (cells with "
        "commas, quotes, blanks); in a fifth of the raire / raire_file cases candidate, ballot and contest identifiers "
        "with letters outside ASCII ('José' next to 'Jos', 'Köln-7' next to 'Kln-7'); non-trivial = some id occurs in >= 2 records; distinct = distinct canonical input")
EXHAUSTIVE = {"quick": False, "thorough": False}
RULE += "; option stream (n/12 more cases, own generator, OPTIONS_AUDIT.md): CVR(id, ...) and CVR.from_vote(vote, ...) with every default-valued argument left out (integer id 1, contest AvB), from_raire without phantom, from_raire_file(cvr_file=)"


# ------------------------------------------------------------------------------------------ corpus

def _r(id, votes, phantom=False, pool=False, tp=None, via="ctor"):
    return {"id": id, "votes": votes, "phantom": phantom, "pool": pool, "tally_pool": tp, "via": via}


def corpus():
    t = [["1"], ["Contest", "339", "5", "15", "16", "17", "18", "45"], ["339", "99813_1_1", "17"],
         ["339", "99813_1_3", "16"], ["339", "99813_1_6", "18", "17", "15", "16"], ["3", "99813_1_6", "2"]]
    return [
        # F09 witness: two records, same id, pool False -> pool must be the bool False
        {"op": "merge", "recs": [_r("1", [["AvB", [["Alice", 1]]]]), _r("1", [["CvD", [["Carol", 1]]]])]},
        {"op": "merge", "recs": [_r("b", [["AvB", [["Alice", 1], ["Bob", 2]]]], True, False, None),
                                 _r("a", [["AvB", [["Bob", True]]]], True, True, "X"),
                                 _r("b", [["CvD", [["C", "x"]]], ["AvB", [["Bob", 1]]]], True, True, "Y", "dict"),
                                 _r("b", [], False, False, None, "dict_min")]},
        # tally pools [A, None, B] -> ValueError ; [None, A, None, A] -> A ; ['' , 'A'] -> ValueError
        {"op": "merge", "recs": [_r("1", [], tp="A"), _r("1", [], tp=None), _r("1", [], tp="B")]},
        {"op": "merge", "recs": [_r("1", [], tp=None), _r("1", [], tp="A"), _r("1", [], tp=None), _r("1", [], tp="A")]},
        {"op": "merge", "recs": [_r("1", [], tp=""), _r("1", [], tp="A")]},
        {"op": "merge", "recs": [_r("1", [], tp="A"), _r("2", [], tp="B"), _r("2", [], tp="B"), _r("1", [], tp=None)]},
        {"op": "merge", "recs": []},
        {"op": "raire", "rows": t, "phantom": False, "int_cands": False},
        {"op": "raire", "rows": t, "phantom": True, "int_cands": True},
        {"op": "raire_file", "rows": t},
        {"op": "raire", "rows": [], "phantom": False, "int_cands": False},
        {"op": "raire", "rows": [[]], "phantom": False, "int_cands": False},
        {"op": "raire", "rows": [["x"]], "phantom": False, "int_cands": False},
        {"op": "raire", "rows": [["7"]], "phantom": False, "int_cands": False},
        {"op": "raire_file", "rows": [["1"], ["Contest", "c", "2", "a", "b"], ["c"]]},
    ] + ([{"op": "raire_file", "rows": [["1"], ["Contest", "Bezirk-ä", "3", "José", "Jos", "Zoë"],
                                        ["Bezirk-ä", "Köln-7", "José", "Zoë", "Jos"], ["Bezirk-ä", "Kln-7", "Zoë"],
                                        ["Bezirk-ä", "Köln-7", "Jos", "José"]]}] if NONASCII_OK else [])


# ------------------------------------------------------------------------------------------ generators

VALS = [True, False, 1, 2, 3, 0, "", "x", None, True, 1]
IDS = ["1", "01", "b", "a", "10", "2", "Z-9", " 1"]
CONTESTS = ["AvB", "CvD", "3", "339"]
CANDS = ["Alice", "Bob", "Carol", "17", "x"]


def gen_merge(rng):
    nid = rng.choice([1, 1, 2, 2, 3, 4])
    ids = rng.sample(IDS, nid)
    if rng.chance(0.12):
        # identifiers that print alike but are different objects: the str "7" and the int 7 (written "#int:7")
        k = rng.choice(["7", "12", "0"])
        ids = ([k, "#int:" + k] + ids)[: max(2, nid)]
    n = rng.randint(1, 12)
    ncon = rng.randint(1, 4)
    contests = rng.sample(CONTESTS, ncon)
    ph_mode = rng.choice(["all", "none", "rand", "rand"])
    pool_p = rng.choice([0.0, 0.3, 0.7, 1.0])
    tp_mode = rng.choice(["none", "common", "common", "conflict", "conflict_rare"])
    tp_common = {i: rng.choice(["A", "B", "", "0"]) for i in ids}
    recs = []
    for _ in range(n):
        id = rng.choice(ids)
        k = rng.choice([0, 1, 1, 2, 2, 3])
        cs = rng.sample(contests, min(k, len(contests)))
        votes = []
        for c in cs:
            cands = rng.sample(CANDS, rng.randint(0, 3))
            votes.append([c, [[x, rng.choice(VALS)] for x in cands]])
        phantom = {"all": True, "none": False}.get(ph_mode, rng.chance(0.6))
        pool = rng.chance(pool_p)
        if tp_mode == "none":
            tp = None
        elif tp_mode == "common":
            tp = tp_common[id] if rng.chance(0.5) else None
        elif tp_mode == "conflict":
            tp = rng.choice(["A", "B", "", None, None])
        else:
            tp = (tp_common[id] if rng.chance(0.5) else None) if rng.chance(0.93) else "C"
        vias = ["ctor", "dict", "dict_min"]
        if len(votes) == 1 and not pool and tp is None:
            vias.append("vote")
        recs.append(_r(id, votes, phantom, pool, tp, rng.choice(vias)))
    from ..core import CONTAINER_KINDS
    return {"op": "merge", "recs": recs, "container": rng.choice(CONTAINER_KINDS),
            "retry": rng.choice([None, "blank", "correct"])}


ODD_CELLS = ["A,B", 'say "x"', " 17", "17 ", "", "a b"]
# identifiers with letters outside ASCII, next to what they become when such letters are dropped or mis-decoded
ACCENT_CANDS = ["José", "Jos", "Zoë", "Zo", "JosÃ©"]
ACCENT_BIDS = ["Köln-7", "Kln-7", "b-é"]
ACCENT_CIDS = ["Bezirk-ä", "Bezirk-"]


def _text_files_hold(s):
    """can a text file opened the default way (as from_raire_file opens its input) hold `s`?"""
    import locale
    try:
        enc = locale.getpreferredencoding(False)
        return s.encode(enc).decode(enc) == s
    except Exception:
        return False


NONASCII_OK = _text_files_hold("".join(ACCENT_CANDS + ACCENT_BIDS + ACCENT_CIDS))


def gen_raire(rng, file_p=0.35):
    ncon = rng.randint(1, 3)
    odd = rng.chance(0.15)
    accents = NONASCII_OK and rng.chance(0.2)        # names of people and places, as a real export has them
    cids = rng.sample(["339", "3", "C1", "Contest", "17"] + (ACCENT_CIDS if accents else []), ncon)
    cand_of = {}
    rows = []
    for c in cids:
        nc = rng.randint(2, 6)
        pool = ["15", "16", "17", "18", "45", "2", "007"] + (ODD_CELLS if odd else []) + (ACCENT_CANDS if accents else [])
        if accents and rng.chance(0.5):
            pool = ACCENT_CANDS + ["17", "2"]
        cand_of[c] = rng.sample(pool, nc)
    declared = ncon
    u = rng.random()
    if u < 0.08:
        declared = 0
    elif u < 0.14:
        declared = ncon + rng.randint(1, 3)
    elif u < 0.18:
        declared = rng.randint(5, 30)
    first = [str(declared)] + (["extra"] if rng.chance(0.1) else [])
    if rng.chance(0.05):
        first = ["0" + str(declared)]
    rows.append(first)
    for c in cids:
        rows.append(["Contest", c, str(len(cand_of[c]))] + cand_of[c])
    bids = rng.sample(["99813_1_1", "99813_1_3", "99813_1_6", "7", "b-2", "1"] + ([" 7", "x,y"] if odd else [])
                      + (ACCENT_BIDS if accents else []), rng.randint(1, 6))
    once = rng.chance(0.4)                   # each (contest, ballot id) at most once: only cross-contest merging
    seen = set()
    for _ in range(rng.randint(0, 15)):
        c = rng.choice(cids)
        b = rng.choice(bids)
        if once and (c, b) in seen:
            continue
        seen.add((c, b))
        k = rng.randint(0, len(cand_of[c]))
        ranking = rng.sample(cand_of[c], k)
        if ranking and rng.chance(0.06):
            ranking.insert(rng.randint(0, len(ranking)), rng.choice(ranking))   # repeated candidate
        rows.append([c, b] + ranking)
    # malformed stream
    u = rng.random()
    if u < 0.03:
        rows = []
    elif u < 0.06:
        rows[0] = []
    elif u < 0.10:
        rows[0] = [rng.choice(["x", "", "one", "1.0", "0x1", "1e1"])] + rows[0][1:]
    elif u < 0.16 and len(rows) > 1:
        rows.insert(rng.randint(1, len(rows)), rng.choice([[], ["339"], [""]]))
    if rng.chance(file_p):
        return {"op": "raire_file", "rows": rows}
    return {"op": "raire", "rows": rows, "phantom": rng.chance(0.3), "int_cands": rng.chance(0.25), "warm": rng.chance(0.3)}


def gen_options(rng):
    """entry points / call forms the main stream never uses (OPTIONS_AUDIT.md): records built by CVR(id, ...) and
    CVR.from_vote(vote, ...) with every argument that holds its default left out (phantom, pool, tally_pool; id=1 and
    contest_id="AvB" of from_vote), CVR.from_raire without `phantom`, from_raire_file(cvr_file=...)"""
    if rng.chance(0.6):
        c = gen_merge(rng)
        one = rng.chance(0.3)                      # records of the integer id 1 (from_vote's default identifier)
        first = c["recs"][0]["id"]
        for r in c["recs"]:
            if one and r["id"] == first:
                r["id"] = INT1
        for r in c["recs"]:
            if len(r["votes"]) == 1 and not r["pool"] and r["tally_pool"] is None and rng.chance(0.6):
                r["via"] = "vote_min"
                if rng.chance(0.4):
                    r["votes"][0][0] = "AvB"
            elif rng.chance(0.7):
                r["via"] = "ctor_min"
        return c
    c = gen_raire(rng)
    c["call"] = "defaults"
    if c["op"] == "raire" and rng.chance(0.6):
        c["phantom"] = False
    return c


def gen(rng, n, tier):
    import hashlib
    from ..core import Rng
    opt = Rng(int(hashlib.sha1(("options" + repr(rng.getstate())).encode()).hexdigest()[:15], 16))
    yield from gen_main(rng, n, tier)
    for _ in range(max(8, n // 12)):
        yield gen_options(opt)


def gen_main(rng, n, tier):
    for i in range(n):
        if i % 5 < 3:
            yield gen_merge(rng)
        else:
            yield gen_raire(rng)


# ------------------------------------------------------------------------------------------ implementation

def _flag(x):
    """a flag of the result: the bool itself, or a description of a non-bool"""
    return x if type(x) is bool else {"nonbool": type(x).__name__, "truthy": bool(x)}


def _val(v):
    return v if (v is None or type(v) in (bool, int, str)) else {"type": type(v).__name__, "repr": repr(v)[:60]}


def _tp_obj(tp):
    """a non-empty tally-pool label as the code meets it in practice: a string built at run time (read from a file,
    concatenated from tabulator and batch), i.e. a FRESH object for every record -- equal labels are equal, not
    identical"""
    if isinstance(tp, str) and tp:
        return ("pool:" + tp + "_")[:-1]
    return tp


def _tp_back(tp):
    return tp[5:] if isinstance(tp, str) and tp.startswith("pool:") else tp


def canon_cvr(c):
    return {"id": _id_back(c.id),
            "votes": [[k, [[x, _val(v)] for x, v in d.items()]] for k, d in c.votes.items()],
            "phantom": _flag(c.phantom), "pool": _flag(c.pool), "tally_pool": _tp_back(c.tally_pool)}


INT1 = "#int:1"       # the case's (and the model's) name for the INTEGER identifier 1, the default `id` of CVR.from_vote


def _id_obj(i):
    """identifiers written "#int:7" in a case are handed to the code as the Python int 7 (an id column read by
    pandas / json): a DIFFERENT identifier from the string "7", which prints alike"""
    return int(i[5:]) if isinstance(i, str) and i.startswith("#int:") else i


def _id_back(i):
    return f"#int:{i}" if isinstance(i, int) and not isinstance(i, bool) else i


def build_cvr(rec):
    from shangrla.core.Audit import CVR
    votes = {k: dict((x, v) for x, v in d) for k, d in rec["votes"]}
    via = rec.get("via", "ctor")
    rec = dict(rec, tally_pool=_tp_obj(rec["tally_pool"]), id=_id_obj(rec["id"]))
    if via in ("vote", "vote_min") and len(votes) == 1 and not rec["pool"] and rec["tally_pool"] is None:
        (cid, d), = votes.items()
        if via == "vote_min":
            # CVR.from_vote(vote, id=1, contest_id="AvB", phantom=False): every argument that holds its default is left out
            kw = ({} if (rec["id"] == 1 and type(rec["id"]) is int) else {"id": rec["id"]}) | \
                 ({} if cid == "AvB" else {"contest_id": cid}) | ({} if rec["phantom"] is False else {"phantom": rec["phantom"]})
            return CVR.from_vote(d, **kw)
        return CVR.from_vote(d, id=rec["id"], contest_id=cid, phantom=rec["phantom"])
    if via == "ctor_min":
        # the constructor with only the arguments that differ from its defaults (phantom=False, pool=False,
        # tally_pool=None; `votes` left out for a record without votes), the identifier by position
        kw = ({} if not votes else {"votes": votes}) | ({} if rec["phantom"] is False else {"phantom": rec["phantom"]}) | \
             ({} if rec["pool"] is False else {"pool": rec["pool"]}) | ({} if rec["tally_pool"] is None else {"tally_pool": rec["tally_pool"]})
        return CVR(rec["id"], **kw)
    if via == "dict":
        return CVR.from_dict([{"id": rec["id"], "votes": votes, "phantom": rec["phantom"], "pool": rec["pool"],
                               "tally_pool": rec["tally_pool"]}])[0]
    if via == "dict_min":
        d = {"id": rec["id"], "votes": votes}
        if rec["phantom"]:
            d["phantom"] = True
        if rec["pool"]:
            d["pool"] = True
        if rec["tally_pool"] is not None:
            d["tally_pool"] = rec["tally_pool"]
        return CVR.from_dict([d])[0]
    if not votes:
        # a record without votes is built WITHOUT the `votes` argument: it then holds the constructor's
        # (shared, mutable) default dict, as a caller writing CVR(id=..., tally_pool=...) would get
        return CVR(id=rec["id"], phantom=rec["phantom"], pool=rec["pool"], tally_pool=rec["tally_pool"])
    return CVR(id=rec["id"], votes=votes, phantom=rec["phantom"], pool=rec["pool"], tally_pool=rec["tally_pool"])


def _is_canon_int(s):
    return isinstance(s, str) and s.isascii() and s.isdigit() and str(int(s)) == s


def impl(case):
    from shangrla.core.Audit import CVR
    op = case["op"]
    if op == "merge":
        cvrs = [build_cvr(r) for r in case["recs"]]          # fresh objects: merge_cvrs mutates its inputs
        from ..core import container, err_kind
        try:
            out = CVR.merge_cvrs(container(case.get("container"), cvrs))
        except ValueError as e:
            if not case.get("retry"):
                raise
            # the documented recovery from a tally-pool conflict: repair the offending records (blank the conflicting
            # label, or correct it to the card's pool) and merge the SAME objects again
            first = {}
            for c in cvrs:
                if c.tally_pool is not None:
                    first.setdefault(_id_back(c.id), c.tally_pool)
            for c in cvrs[1:]:
                k = _id_back(c.id)
                if c.tally_pool is not None and k in first and c.tally_pool != first[k]:
                    c.tally_pool = None if case["retry"] == "blank" else first[k]
            try:
                out2 = CVR.merge_cvrs(cvrs)
                retry = {"st": "ok", "recs": [canon_cvr(c) for c in out2]}
            except Exception as e2:  # noqa
                retry = {"st": "err", "err": err_kind(e2), "msg": str(e2)[:120]}
            return {"st": "err", "err": "ValueError", "msg": str(e)[:120], "retry": retry}
        return {"st": "ok", "recs": [canon_cvr(c) for c in out]}
    if op == "raire":
        rows = [list(r) for r in case["rows"]]
        if case.get("int_cands"):
            rows = [r[:2] + [int(x) if _is_canon_int(x) else x for x in r[2:]] if i > 0 else r
                    for i, r in enumerate(rows)]
        if case.get("warm"):
            # an earlier, independent read whose records were then amended in place (CVR.update_votes): what a later
            # read returns is a function of ITS rows
            try:
                w_rows = [list(r) for r in rows]
                prev, _n = CVR.from_raire(w_rows, phantom=case["phantom"])
                for c in prev[:3]:
                    for cid in list(c.votes)[:1]:
                        c.update_votes({cid: {"zz-late": 1, **{k: v + 1 for k, v in c.votes[cid].items()
                                                                if isinstance(v, int)}}})
            except Exception:  # noqa
                pass
        if case.get("call") == "defaults" and case["phantom"] is False:
            out, n = CVR.from_raire(rows)                       # phantom=False is the default
        elif case.get("call") == "defaults":
            out, n = CVR.from_raire(raire=rows, phantom=case["phantom"])
        else:
            out, n = CVR.from_raire(rows, phantom=case["phantom"])
        return {"st": "ok", "recs": [canon_cvr(c) for c in out], "n": n}
    if op == "raire_file":
        fd, path = tempfile.mkstemp(prefix="verif-c18-", suffix=".csv")
        try:
            with os.fdopen(fd, "w", newline="") as f:
                w = csv.writer(f, delimiter=",", quotechar='"')
                for r in case["rows"]:
                    w.writerow(r)
            out, n, uniq = CVR.from_raire_file(cvr_file=path) if case.get("call") == "defaults" else CVR.from_raire_file(path)
        finally:
            os.unlink(path)
        return {"st": "ok", "recs": [canon_cvr(c) for c in out], "n": n, "unique": uniq}
    raise RuntimeError(f"unknown op {op}")


def request(case):
    if case["op"] == "merge":
        return ("merge", "merge", {"recs": [{k: r[k] for k in ("id", "votes", "phantom", "pool", "tally_pool")}
                                            for r in case["recs"]]})
    return ("merge", "from_raire", {"rows": case["rows"], "phantom": bool(case.get("phantom", False))})


def _j(x):
    return json.dumps(x, sort_keys=True)


def compare(case, ir, mr):
    if ir.get("st") != mr.get("st"):
        return f"status differs: impl={ir.get('st')}/{ir.get('err')} model={mr.get('st')}/{mr.get('err')}"
    if ir["st"] == "err":
        return None if ir["err"] == mr["err"] else f"error kind differs: {ir['err']} vs {mr['err']}"
    if len(ir["recs"]) != len(mr["recs"]):
        return f"number of merged records differs: {len(ir['recs'])} vs {len(mr['recs'])}"
    for a, b in zip(ir["recs"], mr["recs"]):
        for k in ("id", "votes", "phantom", "pool", "tally_pool"):
            if _j(a[k]) != _j(b[k]):          # strict: True != 1, order of contests and candidates included
                return f"record {a['id']!r}: {k} differs: impl={_j(a[k])[:120]} model={_j(b[k])[:120]}"
    if case["op"] != "merge":
        if type(ir["n"]) is not int or ir["n"] != mr["n"]:
            return f"count differs: impl={ir['n']} model={mr['n']}"
    if case["op"] == "raire_file" and ir["unique"] != len(mr["recs"]):
        return f"unique ids differ: impl={ir['unique']} model={len(mr['recs'])}"
    return None


# ------------------------------------------------------------------------------------------ signature

def _groups(recs):
    g = {}
    for r in recs:
        g.setdefault(r["id"], []).append(r)
    return g


def _raire_wellformed(rows):
    if not rows or not rows[0]:
        return False
    s = rows[0][0]
    if not (isinstance(s, str) and s.isascii() and s.isdigit()):
        return False
    return all(len(r) >= 2 for r in rows[int(s) + 1:])


def signature(case, ir):
    if case["op"] == "merge":
        gs = [g for g in _groups(case["recs"]).values() if len(g) >= 2]
        if not gs:
            return "trivial:merge:no-repeated-id" if ir.get("st") == "ok" else "err:" + str(ir.get("err"))
        overlap = any(len({c for c, _ in r["votes"]} & {c for c, _ in s["votes"]}) > 0
                      for g in gs for i, r in enumerate(g) for s in g[i + 1:])
        def tp_kind(g):
            nn = [r["tally_pool"] for r in g if r["tally_pool"] is not None]
            return "none" if not nn else ("conflict" if len(set(nn)) > 1 else ("gap" if len(nn) < len(g) else "same"))
        kinds = {tp_kind(g) for g in gs}
        tp = next(k for k in ("conflict", "gap", "same", "none") if k in kinds)
        def ph_kind(g):
            s = {r["phantom"] for r in g}
            return "mixed" if len(s) > 1 else ("all" if True in s else "nobody")
        pk = {ph_kind(g) for g in gs}
        ph = next(k for k in ("mixed", "all", "nobody") if k in pk)
        st = "ok" if ir.get("st") == "ok" else "err:" + str(ir.get("err"))
        return f"merge;{st};{'overlap' if overlap else 'disjoint'};tp={tp};ph={ph}"
    rows = case["rows"]
    tag = "raire_file" if case["op"] == "raire_file" else "raire"
    if ir.get("st") != "ok":
        return f"{tag};err:{ir.get('err')}"
    if not _raire_wellformed(rows):
        return f"{tag};ok-on-malformed-input"          # unreachable on the unchanged code
    skip = int(rows[0][0])
    body = rows[skip + 1:]
    keys = [(r[1], r[0]) for r in body]
    ids = [r[1] for r in body]
    if len(set(ids)) == len(ids):
        return f"trivial:{tag}:no-repeated-ballot-id"
    rep = "same-contest-repeat" if len(set(keys)) < len(keys) else "cross-contest"
    ncontest = sum(1 for r in rows[1:skip + 1] if r and r[0] == "Contest")
    hdr = "hdr=decl" if ncontest == skip and len(rows) > skip else "hdr=other"
    return f"{tag};ok;{rep};{hdr}"


# ------------------------------------------------------------------------------------------ oracle
# the property, evaluated on the implementation's result, recomputed from the input dicts only

def _strict_eq(a, b):
    return _j(a) == _j(b)


def _oracle_merge(recs, ir):
    groups = _groups(recs)
    conflict = [i for i, g in groups.items()
                if len({r["tally_pool"] for r in g if r["tally_pool"] is not None}) > 1]
    if ir.get("st") != "ok":
        if conflict and ir.get("err") == "ValueError":
            return None
        return {"what": f"merge_cvrs raised {ir.get('err')} ({ir.get('msg', '')[:80]}) but "
                        + ("the conflict of tally pools calls for ValueError" if conflict else
                           "no two records of one id carry different tally pools")}
    if conflict:
        return {"what": f"records of id {conflict[0]!r} carry different tally pools "
                        f"{[r['tally_pool'] for r in groups[conflict[0]]]} but merge_cvrs raised no error"}
    out = ir["recs"]
    want_ids = list(dict.fromkeys(r["id"] for r in recs))
    got_ids = [o["id"] for o in out]
    if got_ids != want_ids:
        return {"what": f"merged ids {got_ids} are not the distinct input ids in first-appearance order {want_ids}"}
    for o in out:
        g = groups[o["id"]]
        got_votes = {k: d for k, d in o["votes"]}
        if len(got_votes) != len(o["votes"]):
            return {"what": f"card {o['id']!r}: a contest is listed twice"}
        want = {}
        for r in g:                                   # union, the later record winning within a contest
            for k, d in r["votes"]:
                want[k] = d
        if set(want) != set(got_votes):
            return {"what": f"card {o['id']!r}: contests {sorted(got_votes)} are not the union {sorted(want)} of its records' contests"}
        for k in want:
            if not _strict_eq(sorted(map(_j, want[k])), sorted(map(_j, got_votes[k]))):
                return {"what": f"card {o['id']!r} contest {k!r}: votes {got_votes[k]} are not those of the last record listing it {want[k]}"}
        if type(o["phantom"]) is not bool or o["phantom"] != all(r["phantom"] for r in g):
            return {"what": f"card {o['id']!r}: phantom={o['phantom']} but its records have phantom={[r['phantom'] for r in g]}"}
        if type(o["pool"]) is not bool:
            return {"what": f"card {o['id']!r}: pool is not a true/false value: {o['pool']}"}
        if o["pool"] != any(r["pool"] for r in g):
            return {"what": f"card {o['id']!r}: pool={o['pool']} but its records have pool={[r['pool'] for r in g]}"}
        nn = [r["tally_pool"] for r in g if r["tally_pool"] is not None]
        want_tp = nn[0] if nn else None
        if not _strict_eq(o["tally_pool"], want_tp):
            return {"what": f"card {o['id']!r}: tally_pool={o['tally_pool']!r} but its records carry {[r['tally_pool'] for r in g]}"}
    return None


def _oracle_raire(case, ir):
    rows = case["rows"]
    if not _raire_wellformed(rows):
        return None                                    # outside the RAIRE format: the property says nothing
    if ir.get("st") != "ok":
        return {"what": f"reading a well-formed RAIRE input raised {ir.get('err')}: {ir.get('msg', '')[:80]}"}
    skip = int(rows[0][0])
    body = rows[skip + 1:]                             # the declared number of header lines (+ the count line) skipped
    want_ids = list(dict.fromkeys(r[1] for r in body))
    out = ir["recs"]
    if [o["id"] for o in out] != want_ids:
        return {"what": f"cards {[o['id'] for o in out]} are not the ballot ids of the rows after {skip} header lines, "
                        f"in first-appearance order {want_ids}"}
    ph = bool(case.get("phantom", False))
    for o in out:
        last = {}
        for r in body:
            if r[1] == o["id"]:
                last[r[0]] = r[2:]
        got = {k: d for k, d in o["votes"]}
        if len(got) != len(o["votes"]) or set(got) != set(last):
            return {"what": f"card {o['id']!r}: contests {[k for k, _ in o['votes']]} but its rows list {sorted(last)}"}
        for k, ranking in last.items():
            d = {x: v for x, v in got[k]}
            if len(d) != len(got[k]) or set(d) != set(ranking):
                return {"what": f"card {o['id']!r} contest {k!r}: candidates {sorted(d)} but the row lists {ranking}"}
            for x in d:
                pos = [i + 1 for i, y in enumerate(ranking) if y == x]
                ok = type(d[x]) is int and (d[x] == pos[0] if len(pos) == 1 else d[x] in pos)
                if not ok:
                    return {"what": f"card {o['id']!r} contest {k!r}: candidate {x!r} has rank {d[x]!r} but is listed at position {pos} of {ranking}"}
        if o["phantom"] is not ph or o["pool"] is not False or o["tally_pool"] is not None:
            return {"what": f"card {o['id']!r}: flags phantom={o['phantom']} pool={o['pool']} tally_pool={o['tally_pool']!r} "
                            f"after reading with phantom={ph}"}
    if case["op"] == "raire_file" and ir["unique"] != len(want_ids):
        return {"what": f"from_raire_file reports {ir['unique']} distinct ids, the rows carry {len(want_ids)}"}
    return None


def _repaired(case):
    """the records after the repair `impl` makes when the first merge raised (see there)"""
    first, out = {}, []
    for r in case["recs"]:
        tp = _tp_back(_tp_obj(r["tally_pool"]))
        if tp is not None:
            first.setdefault(r["id"], tp)
    for i, r in enumerate(case["recs"]):
        tp = _tp_back(_tp_obj(r["tally_pool"]))
        if i > 0 and tp is not None and r["id"] in first and tp != first[r["id"]]:
            r = dict(r, tally_pool=(None if case["retry"] == "blank" else first[r["id"]]))
        out.append(r)
    return out


def oracle_c18(case, ir):
    if case["op"] == "merge":
        v = _oracle_merge(case["recs"], ir)
        if v is None and ir.get("retry") is not None:
            w = _oracle_merge(_repaired(case), ir["retry"])
            if w:
                return {"what": f"after a merge that raised on a tally-pool conflict, the conflicting records were repaired "
                                f"({case['retry']}) and the same objects merged again: " + w["what"]}
        return v
    return _oracle_raire(case, ir)


ORACLES = {"C18": oracle_c18}
