"""
Correspondence group `elimtree`: shangrla.core.IRVVisualisationUtils.buildRemainingTreeAsLists
vs. Shangrla.ElimTree.build  (property C20).
"""
import itertools
from ..core import impl_call

NAME = "elimtree"
RULE = ("exhaustive over 3 candidates x all subsets (<=3 elements) of the 6 NEB + 9 IRV triples in quick tier "
        "(all subsets up to 4 in thorough), plus random 4-6 candidate instances with redundant / inconsistent / "
        "duplicate assertions; non-trivial = tree has at least one internal node and at least one pruned leaf; "
        "distinct = distinct canonical input")
EXHAUSTIVE = {"quick": False, "thorough": False}


def corpus():
    return [
        {"c": "B", "S": ["A", "C"], "wo": [["B", "A", True]], "irv": [["C", ["A"], False]]},
        {"c": "B", "S": ["A", "C"], "wo": [["C", "A", True]], "irv": [["C", ["A"], False], ["C", ["A"], True]]},
        {"c": "B", "S": [], "wo": [], "irv": []},
        {"c": "B", "S": ["A"], "wo": [["A", "B", False], ["A", "B", False]], "irv": [["B", ["A"], True]]},
        {"c": "12", "S": ["1", "2", "7"], "wo": [["1", "7", True], ["2", "7", False]], "irv": [["7", ["12"], False]]},
    ]


def all_triples(cands):
    wo = [[l, w] for l in cands for w in cands if l != w]
    irv = []
    for x in cands:
        others = [c for c in cands if c != x]
        for r in range(len(others) + 1):
            for E in itertools.combinations(others, r):
                irv.append([x, list(E)])
    return wo, irv


def gen(rng, n, tier):
    cands = ["A", "B", "C"]
    wo3, irv3 = all_triples(cands)
    pool = [("wo", t) for t in wo3] + [("irv", t) for t in irv3]
    maxk = 3 if tier == "quick" else 4
    count = 0
    # exhaustive part (bounded by n/2)
    subsets = []
    for k in range(0, maxk + 1):
        subsets += list(itertools.combinations(range(len(pool)), k))
    rng.shuffle(subsets)
    for sub in subsets[: n // 2]:
        for c in (["B"] if count % 3 else ["B", "C"]):
            S = [x for x in cands if x != c]
            wo = [pool[i][1] + [rng.chance(0.5)] for i in sub if pool[i][0] == "wo"]
            irv = [pool[i][1] + [rng.chance(0.5)] for i in sub if pool[i][0] == "irv"]
            yield {"c": c, "S": S, "wo": wo, "irv": irv}
            count += 1
    # random part
    while count < n:
        nc = rng.choice([3, 4, 4, 5, 5, 6])
        cands = [chr(ord("A") + i) for i in range(nc)]
        if rng.chance(0.35):
            # numeric identifiers of mixed width whose concatenations are ambiguous ("1","2","12","21",...),
            # as in real Dominion candidate ids
            pool_ids = ["1", "2", "12", "21", "7", "17", "71", "112", "4", "47"]
            rng.shuffle(pool_ids)
            cands = pool_ids[:nc]
        c = rng.choice(cands)
        S = [x for x in cands if x != c]
        rng.shuffle(S)
        wo_all, irv_all = all_triples(cands)
        dens = rng.choice([0.05, 0.15, 0.3, 0.6])
        wo = [t + [rng.chance(0.5)] for t in wo_all if rng.chance(dens)]
        irv = [t + [rng.chance(0.5)] for t in irv_all if rng.chance(dens / 2)]
        # duplicates and reorderings of the same set
        if wo and rng.chance(0.3):
            wo.append(list(rng.choice(wo)))
        if irv and rng.chance(0.3):
            t = rng.choice(irv)
            e = list(t[1]); rng.shuffle(e)
            irv.append([t[0], e, t[2]])
        rng.shuffle(wo); rng.shuffle(irv)
        yield {"c": c, "S": S, "wo": wo, "irv": irv}
        count += 1


def canon_py(t):
    # t is [LeafNode] or [c, [subtrees]]
    if len(t) == 1:
        n = t[0]
        return {"leaf": n.cand, "neb": [[int(a), bool(b)] for a, b in n.NEBTagList],
                "irv": [[int(a), bool(b)] for a, b in n.IRVTagList]}
    kids = sorted((canon_py(k) for k in t[1]), key=lambda d: d.get("leaf", d.get("node")))
    return {"node": t[0], "kids": kids}


def canon_model(t):
    if "leaf" in t:
        return {"leaf": t["leaf"], "neb": t["neb"], "irv": t["irv"]}
    kids = sorted((canon_model(k) for k in t["kids"]), key=lambda d: d.get("leaf", d.get("node")))
    return {"node": t["node"], "kids": kids}


def has_unpruned(t):
    if "leaf" in t:
        return not t["neb"] and not t["irv"]
    return any(has_unpruned(k) for k in t["kids"])


def impl(case):
    from shangrla.core.IRVVisualisationUtils import buildRemainingTreeAsLists
    wo = [(l, w, p) for l, w, p in case["wo"]]
    irv = [(x, set(E), p) for x, E, p in case["irv"]]
    t = buildRemainingTreeAsLists(case["c"], set(case["S"]), wo, irv)
    ct = canon_py(t)
    return {"st": "ok", "tree": ct, "unpruned": has_unpruned(ct)}


def request(case):
    return ("elimtree", "build", case)


def compare(case, ir, mr):
    if ir.get("st") != mr.get("st"):
        return f"status differs: impl={ir.get('st')}/{ir.get('err')} model={mr.get('st')}/{mr.get('err')}"
    if ir["st"] == "err":
        return None if ir["err"] == mr["err"] else f"error kind differs: {ir['err']} vs {mr['err']}"
    mt = canon_model(mr["tree"])
    if mt != ir["tree"]:
        return "trees differ"
    if mr["unpruned"] != ir["unpruned"]:
        return "unpruned flag differs"
    return None


def signature(case, ir):
    if ir.get("st") != "ok":
        return "err:" + str(ir.get("err"))
    t = ir["tree"]
    if "leaf" in t:
        return "trivial:root-leaf"
    def leaves(t):
        if "leaf" in t:
            yield t
        else:
            for k in t["kids"]:
                yield from leaves(k)
    ls = list(leaves(t))
    pr = sum(1 for l in ls if l["neb"] or l["irv"])
    return f"internal;pruned={'some' if pr else 'none'};unpruned={'yes' if pr < len(ls) else 'no'}"


# ---- oracle: brute force over all elimination orders (independent of the model)

def contradicted_by(order, wo, irv):
    """order: first eliminated first, last = winner.  returns True iff some assertion contradicts it"""
    pos = {c: i for i, c in enumerate(order)}
    for l, w, _ in wo:
        if l in pos and w in pos and pos[w] < pos[l]:
            return True
    for x, E, _ in irv:
        if x in pos and set(order[: pos[x]]) == set(E):
            return True
    return False


def oracle_c20(case, ir):
    if ir.get("st") != "ok":
        return {"what": f"tree construction raised {ir.get('err')}"}
    c, S, wo, irv = case["c"], case["S"], case["wo"], case["irv"]
    if len(S) > 6:
        return None
    exists = any(not contradicted_by(list(p) + [c], wo, irv) for p in itertools.permutations(S))
    if exists != ir["unpruned"]:
        return {"what": f"unpruned leaf shown={ir['unpruned']} but an uncontradicted order ending in {c} exists={exists}"}
    # tags exact: walk the tree with the earlier-set of each node
    def walk(t, cand_set):
        if "leaf" in t:
            x = t["leaf"]
            neb = [[i, p] for i, (l, w, p) in enumerate(wo) if l == x and w in cand_set]
            # first-index semantics of list.index for equal tuples
            neb = [[next(j for j, u in enumerate(wo) if u == wo[i]), p] for i, p in neb]
            it = [[i, p] for i, (y, E, p) in enumerate(irv) if y == x and set(E) == cand_set]
            it = [[next(j for j, u in enumerate(irv) if u[0] == irv[i][0] and set(u[1]) == set(irv[i][1]) and u[2] == irv[i][2]), p] for i, p in it]
            if t["neb"] != neb or t["irv"] != it:
                return {"what": f"leaf {x} with earlier set {sorted(cand_set)} tagged neb={t['neb']} irv={t['irv']}, "
                                f"contradicting assertions are neb={neb} irv={it}"}
            return None
        for k in t["kids"]:
            kc = k.get("leaf", k.get("node"))
            r = walk(k, cand_set - {kc})
            if r:
                return r
        return None
    return walk(ir["tree"], set(S))


ORACLES = {"C20": oracle_c20}
