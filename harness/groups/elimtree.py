"""
Correspondence group `elimtree`: shangrla.core.IRVVisualisationUtils.buildRemainingTreeAsLists
vs. Shangrla.ElimTree.build  (property C20).

Two kinds of case:
  tree  {"c", "S", "wo", "irv"}: one direct call of buildRemainingTreeAsLists on pruning triples
  log   {"kind": "log", "contests": [[id, contest], ...], "seed", "contest_id", "candfile", "alt"}: end to end from an
        audit log of the shape parseAssertions expects ({"Audit": {"seed": ..}, "contests": {id: {"choice_function",
        "n_winners", "winner", "candidates", "assertions": {name: {"winner", "loser", "proved"}}, "assertion_json":
        [...]}}}, contests in the given dict order) and a candidate manifest: the REAL parseAssertions selects the
        contest (contest_id, or the numerically smallest id) and translates its assertions, then -- as
        buildPrintedResults does -- a tree is built for every alternative winner and rendered with treeListToTuple.
        The oracle brute-forces all elimination orders against the SELECTED contest's own assertion_json; the model is
        asked to build the tree of the alternative winner `alt` from the triples the harness derives from that JSON.
"""
import contextlib, copy, io, itertools
from ..core import impl_call

NAME = "elimtree"
RULE = ("exhaustive over 3 candidates x all subsets (<=3 elements) of the 6 NEB + 9 IRV triples in quick tier "
        "(all subsets up to 4 in thorough), plus random 4-6 candidate instances with redundant / inconsistent / "
        "duplicate assertions; `log` cases (1 in 3 of the random part): audit logs with 1-3 IRV contests of 2-5 "
        "candidates in random dict order (numeric ids, default = numerically smallest, selection by contest_id as "
        "str / int / unknown id; same or different candidate sets per contest; assertion sets from sparse to "
        "sufficient; a contest without assertion_json; missing `proved`) + candidate manifest through the real "
        "parseAssertions, trees for every alternative winner; non-trivial = tree has at least one internal node and at least one pruned leaf; "
        "distinct = distinct canonical input")
EXHAUSTIVE = {"quick": False, "thorough": False}
RULE += "; option stream (n/25 more log cases, own generator, OPTIONS_AUDIT.md): parseAssertions without contest_id / with contest_id= by keyword"


def _corpus_log():
    """two IRV contests over the same candidates, in both file orders: the default contest is "9", not "10"
    (numeric order); its assertions leave the order 17,15,16 open, those of contest "10" do not"""
    def con(cid, elim, proved):
        aj = [{"winner": "15", "loser": "17", "already_eliminated": "", "assertion_type": "WINNER_ONLY"},
              {"winner": "15", "loser": "16", "already_eliminated": list(elim), "assertion_type": "IRV_ELIMINATION"}]
        return {"id": cid, "name": "contest " + cid, "risk_limit": 0.05, "choice_function": "IRV", "n_winners": 1,
                "candidates": ["15", "16", "17"], "winner": ["15"], "assertion_json": aj,
                "assertions": {assertion_key(a): {"contest": cid, "winner": a["winner"], "loser": a["loser"],
                                                  "proved": proved} for a in aj}}
    cf = {"List": [{"Id": 15, "Description": "ALICE"}, {"Id": 16, "Description": "BOB"}, {"Id": 17, "Description": "CAROL"}]}
    out = []
    for order in (["10", "9"], ["9", "10"]):
        for contest_id in (None, "10", 9):
            cs = {"10": con("10", ["17"], True), "9": con("9", ["16"], False)}
            out.append({"kind": "log", "seed": 12345678901234567890, "contests": [[c, cs[c]] for c in order],
                        "contest_id": contest_id, "candfile": cf, "alt": "16"})
    return out


def corpus():
    return _corpus_log() + [
        {"c": "B", "S": ["A", "C"], "wo": [["B", "A", True]], "irv": [["C", ["A"], False]]},
        {"c": "B", "S": ["A", "C"], "wo": [["C", "A", True]], "irv": [["C", ["A"], False], ["C", ["A"], True]]},
        {"c": "B", "S": [], "wo": [], "irv": []},
        {"c": "B", "S": ["A"], "wo": [["A", "B", False], ["A", "B", False]], "irv": [["B", ["A"], True]]},
        {"c": "12", "S": ["1", "2", "7"], "wo": [["1", "7", True], ["2", "7", False]], "irv": [["7", ["12"], False]]},
    ]


def all_triples(cands):
    wo = [[l, w] for l in cands for w in cands if l != w]
    irv = []
    for x in cands:
        others = [c for c in cands if c != x]
        for r in range(len(others) + 1):
            for E in itertools.combinations(others, r):
                irv.append([x, list(E)])
    return wo, irv


def gen(rng, n, tier):
    import hashlib
    from ..core import Rng
    opt = Rng(int(hashlib.sha1(("options" + repr(rng.getstate())).encode()).hexdigest()[:15], 16))
    yield from gen_main(rng, n, tier)
    # call form the main stream never uses (OPTIONS_AUDIT.md): parseAssertions(auditfile, candidatefile) without the
    # optional `contest_id` (default None: the numerically smallest contest), and `contest_id=` by keyword
    for _ in range(max(6, n // 25)):
        c = gen_log(opt)
        if opt.chance(0.6):
            c["contest_id"] = None
            sel = selected_contest(c)              # the tree asked of the model is one of the contest now selected
            alts = [x for x in sel["candidates"] if x != sel["winner"][0]]
            c["alt"] = opt.choice(alts) if alts else None
        c["call"] = "defaults"
        yield c


def gen_main(rng, n, tier):
    cands = ["A", "B", "C"]
    wo3, irv3 = all_triples(cands)
    pool = [("wo", t) for t in wo3] + [("irv", t) for t in irv3]
    maxk = 3 if tier == "quick" else 4
    count = 0
    # exhaustive part (bounded by n/2)
    subsets = []
    for k in range(0, maxk + 1):
        subsets += list(itertools.combinations(range(len(pool)), k))
    rng.shuffle(subsets)
    for sub in subsets[: n // 2]:
        for c in (["B"] if count % 3 else ["B", "C"]):
            S = [x for x in cands if x != c]
            wo = [pool[i][1] + [rng.chance(0.5)] for i in sub if pool[i][0] == "wo"]
            irv = [pool[i][1] + [rng.chance(0.5)] for i in sub if pool[i][0] == "irv"]
            yield {"c": c, "S": S, "wo": wo, "irv": irv}
            count += 1
    # random part
    while count < n:
        nc = rng.choice([3, 4, 4, 5, 5, 6])
        cands = [chr(ord("A") + i) for i in range(nc)]
        if rng.chance(0.35):
            # numeric identifiers of mixed width whose concatenations are ambiguous ("1","2","12","21",...),
            # as in real Dominion candidate ids
            pool_ids = ["1", "2", "12", "21", "7", "17", "71", "112", "4", "47"]
            rng.shuffle(pool_ids)
            cands = pool_ids[:nc]
        c = rng.choice(cands)
        S = [x for x in cands if x != c]
        rng.shuffle(S)
        wo_all, irv_all = all_triples(cands)
        dens = rng.choice([0.05, 0.15, 0.3, 0.6])
        wo = [t + [rng.chance(0.5)] for t in wo_all if rng.chance(dens)]
        irv = [t + [rng.chance(0.5)] for t in irv_all if rng.chance(dens / 2)]
        # duplicates and reorderings of the same set
        if wo and rng.chance(0.3):
            wo.append(list(rng.choice(wo)))
        if irv and rng.chance(0.3):
            t = rng.choice(irv)
            e = list(t[1]); rng.shuffle(e)
            irv.append([t[0], e, t[2]])
        rng.shuffle(wo); rng.shuffle(irv)
        yield {"c": c, "S": S, "wo": wo, "irv": irv}
        count += 1
        if count < n and rng.chance(0.5):
            yield gen_log(rng)
            count += 1


IDS = ["15", "16", "17", "18", "45", "1", "2", "12", "21", "7"]
NAMES_ = ["ALICE", "BOB", "CAROL", "DAVE", "ERIN", "FRANK", "GRACE", "HEIDI", "IVAN", "JUDY"]


def assertion_key(a):
    if a["assertion_type"] == "WINNER_ONLY":
        return f"{a['winner']} v {a['loser']}"
    return f"{a['winner']} v {a['loser']} elim " + " ".join(a["already_eliminated"])


def gen_contest_json(rng, cid, cands, style=None):
    """one IRV contest of an audit log: winner, candidates, assertions (name -> winner/loser/proved) and assertion_json
    in the same order (what Assertion.make_assertions_from_json / the audit log writer produce)"""
    winner = rng.choice(cands)
    style = style or rng.choice(["sparse", "medium", "raire", "raire", "dense"])
    aj = []
    others = [c for c in cands if c != winner]
    if style == "raire":
        # a (mostly) sufficient set: every alternative winner is excluded by NEB "winner never before alt" or by NEN
        # assertions on the last rounds; then a few assertions are dropped / altered
        for alt in others:
            if rng.chance(0.5):
                aj.append({"winner": winner, "loser": alt, "already_eliminated": "", "assertion_type": "WINNER_ONLY"})
            else:
                for r in range(len(others)):
                    for E in itertools.combinations([c for c in cands if c not in (alt, winner)], r):
                        rest = [c for c in cands if c not in E]
                        # in the round with `rest` standing, someone other than alt is not eliminated next ... the
                        # usual RAIRE shape "w not eliminated next when E gone" for a random w != alt
                        w = rng.choice([c for c in rest if c != alt])
                        aj.append({"winner": w, "loser": alt, "already_eliminated": list(E),
                                   "assertion_type": "IRV_ELIMINATION"})
        aj = [a for a in aj if not rng.chance(0.08)]
    else:
        dens = {"sparse": 0.1, "medium": 0.3, "dense": 0.6}[style]
        wo_all, irv_all = all_triples(cands)
        for l, w in wo_all:
            if rng.chance(dens):
                aj.append({"winner": w, "loser": l, "already_eliminated": "", "assertion_type": "WINNER_ONLY"})
        for x, E in irv_all:
            if rng.chance(dens / 2):
                losers = [c for c in cands if c != x and c not in E] or [c for c in cands if c != x]
                E = list(E); rng.shuffle(E)
                aj.append({"winner": x, "loser": rng.choice(losers), "already_eliminated": E,
                           "assertion_type": "IRV_ELIMINATION"})
    if rng.chance(0.2):
        # "... not eliminated next when exactly E are gone" with an identifier in E that is not a listed candidate of the
        # contest (a write-in, as in examples/log.json "elim 15 16 45"): such an assertion contradicts no elimination
        # order of the listed candidates and must prune nothing
        extra = rng.choice(["45", "W", "write-in", cands[0] + cands[-1]])
        if extra not in cands:
            for a in aj:
                if a["assertion_type"] == "IRV_ELIMINATION" and rng.chance(0.4):
                    E = list(a["already_eliminated"])
                    E.insert(rng.randint(0, len(E)), extra)
                    a["already_eliminated"] = E
    rng.shuffle(aj)
    seen, uniq = set(), []
    for a in aj:                      # assertion names are dict keys: one assertion per name
        k = assertion_key(a)
        if k not in seen:
            seen.add(k); uniq.append(a)
    aj = uniq
    p_proved = rng.choice([0.0, 0.5, 1.0])
    assertions = {}
    for a in aj:
        d = {"contest": cid, "winner": a["winner"], "loser": a["loser"], "proved": rng.chance(p_proved),
             "p_value": 0.01, "margin": 0.1}
        if rng.chance(0.03):
            d.pop("proved")
        assertions[assertion_key(a)] = d
    con = {"id": cid, "name": "contest " + cid, "risk_limit": 0.05, "cards": 1000, "choice_function": "IRV",
           "n_winners": 1, "share_to_win": None, "candidates": list(cands), "winner": [winner],
           "assertions": assertions, "assertion_json": aj}
    return con


def gen_log(rng):
    k = rng.choice([1, 2, 2, 2, 3, 3])
    cids = rng.sample(["1", "2", "3", "9", "10", "11", "339", "47"], k)
    nc = rng.choice([2, 3, 3, 3, 4, 4, 5])
    ids = list(IDS); rng.shuffle(ids)
    base = ids[:nc]
    same = rng.chance(0.6)
    contests = []
    for cid in cids:
        if same:
            cands = list(base)
            if rng.chance(0.3):
                rng.shuffle(cands)
        else:
            m = rng.choice([2, 3, 3, 4])
            cands = rng.sample(ids, m)
        contests.append([cid, gen_contest_json(rng, cid, cands)])
    if rng.chance(0.12):
        c = rng.choice(contests)[1]
        c.pop("assertion_json")           # a contest logged without the RAIRE details (plurality-style)
        if rng.chance(0.5):
            c["choice_function"] = "PLURALITY"
    u = rng.random()
    if u < 0.4:
        contest_id = None
    elif u < 0.85:
        contest_id = rng.choice(cids)
        if rng.chance(0.2):
            contest_id = int(contest_id)
    else:
        contest_id = rng.choice(["99", "0", 5])        # not in the log: the default contest is shown
    used = sorted({c for _, con in contests for c in con["candidates"]})
    cf = [{"Id": (int(c) if rng.chance(0.8) else c), "Description": NAMES_[IDS.index(c)]} for c in used
          if not rng.chance(0.05)]
    rng.shuffle(cf)
    case = {"kind": "log", "seed": rng.choice([12345678901234567890, 1, "293876"]), "contests": contests,
            "contest_id": contest_id, "candfile": {"List": cf}}
    sel = selected_contest(case)
    alts = [c for c in sel["candidates"] if c != sel["winner"][0]]
    case["alt"] = rng.choice(alts) if alts else None
    if rng.chance(0.2):
        case["amended"] = True
    return case


def selected_contest(case):
    """the contest the log case visualises: contest_id if the log has it, else the numerically smallest id"""
    d = dict((cid, con) for cid, con in case["contests"])
    cid = str(case["contest_id"])
    if cid not in d:
        cid = str(min(int(x) for x in d))
    return d[cid]


def contest_triples(con):
    """pruning triples of a contest in the order of its assertions, from its own JSON: the k-th assertion's type,
    winner, loser and eliminated set from assertion_json[k] (a contest logged without assertion_json: plain
    "winner beats loser" = NEB), its `proved` flag from the k-th entry of `assertions`"""
    aj = con.get("assertion_json")
    wo, irv = [], []
    for k, a in enumerate(con["assertions"].values()):
        proved = bool(a.get("proved", False))
        d = aj[k] if aj is not None and k < len(aj) else None
        if d is None:
            wo.append([a["loser"], a["winner"], proved])
        elif d["assertion_type"] == "WINNER_ONLY":
            wo.append([d["loser"], d["winner"], proved])
        elif d["assertion_type"] == "IRV_ELIMINATION":
            irv.append([d["winner"], list(d["already_eliminated"]), proved])
    return wo, irv


def impl_log(case):
    from shangrla.core.IRVVisualisationUtils import buildRemainingTreeAsLists, parseAssertions, treeListToTuple
    log = {"Audit": {"seed": case["seed"]}, "contests": {cid: copy.deepcopy(con) for cid, con in case["contests"]}}
    with contextlib.redirect_stdout(io.StringIO()):
        if case.get("call") == "defaults":
            # `contest_id` left out when the case selects no contest (its default is None), given by keyword otherwise
            kw = {} if case["contest_id"] is None else {"contest_id": case["contest_id"]}
            (winner, wname), nonw, WOLosers, IRVElims = parseAssertions(log, copy.deepcopy(case["candfile"]), **kw)
        else:
            (winner, wname), nonw, WOLosers, IRVElims = parseAssertions(log, copy.deepcopy(case["candfile"]), case["contest_id"])
    non = [c[0] for c in nonw]
    if case.get("amended") and len(WOLosers) + len(IRVElims) > 0:
        # the assertion lists are AMENDED IN PLACE between two uses (a proved flag updated, an assertion replaced: the
        # entries are tuples, so `L[i] = ...` is the only way): first the trees of an earlier state of the SAME list
        # objects are built (every entry's candidate replaced by another candidate, flags flipped), then each entry is
        # put to its real value in place.  A tree reflects the lists as they are when it is built.
        real_wo, real_irv = list(WOLosers), list(IRVElims)
        allc = non + [winner]
        rot = {c: allc[(i + 1) % len(allc)] for i, c in enumerate(allc)}
        for i, (l, w, p) in enumerate(real_wo):
            WOLosers[i] = (rot.get(l, l), rot.get(w, w), not p)
        for i, (x, E, p) in enumerate(real_irv):
            IRVElims[i] = (rot.get(x, x), set(rot.get(e, e) for e in E), not p)
        for c in nonw:
            S = set(non).copy(); S.add(winner); S.remove(c[0])
            try:
                buildRemainingTreeAsLists(c[0], S, WOLosers, IRVElims)
            except Exception:  # noqa
                pass
        for i, e in enumerate(real_wo):
            WOLosers[i] = e
        for i, e in enumerate(real_irv):
            IRVElims[i] = e
    alts = []
    for c in nonw:                      # as buildPrintedResults does
        S = set(non).copy()
        S.add(winner)
        S.remove(c[0])
        t = buildRemainingTreeAsLists(c[0], S, WOLosers, IRVElims)
        ct = canon_py(t)
        tup = treeListToTuple(t)
        alts.append({"alt": c[0], "tree": ct, "unpruned": has_unpruned(ct),
                     "marker": "***Unpruned leaf" in repr(tup), "render": render_mismatch(t, tup)})
    mine = [a for a in alts if a["alt"] == case["alt"]]
    return {"st": "ok", "winner": winner, "winner_name": wname, "nonwinners": [[c[0], c[1]] for c in nonw],
            "tree": mine[0]["tree"] if mine else None, "unpruned": mine[0]["unpruned"] if mine else None, "alts": alts}


def render_mismatch(t, tup):
    """walk the list-form tree and the tuple `treeListToTuple` rendered from it in parallel: a pruned leaf must be
    shown with exactly the NEB numbers and exactly the IRV numbers it is tagged with (each group with its own
    confirmation status = any of its flags), an untagged leaf with the unpruned-leaf marker and nothing else.
    Returns a description of the first mismatch or None.  (Only numbers, the words Confirmed / Unconfirmed and the
    marker are read: the layout of the tag text is not part of the property.)"""
    import re
    if len(t) == 1:
        n = t[0]
        if not (isinstance(tup, tuple) and len(tup) == 2 and tup[0] == n.cand and isinstance(tup[1], str)):
            return f"leaf {n.cand}: rendered as {tup!r}"
        tag = tup[1]
        marker = "***Unpruned leaf" in tag
        shown = {}
        for kind in ("NEB", "IRV"):
            m = re.search(kind + r"\s+([0-9][0-9,\s]*)", tag)
            shown[kind] = [int(x) for x in re.findall(r"[0-9]+", m.group(1))] if m else []
        want = {"NEB": [int(a) for a, _ in n.NEBTagList], "IRV": [int(a) for a, _ in n.IRVTagList]}
        if shown != want:
            return (f"leaf {n.cand}: tag shows NEB {shown['NEB']} / IRV {shown['IRV']} but the node is tagged "
                    f"NEB {want['NEB']} / IRV {want['IRV']}")
        if marker != (not want["NEB"] and not want["IRV"]):
            return f"leaf {n.cand}: unpruned-leaf marker shown = {marker}, tags NEB {want['NEB']} / IRV {want['IRV']}"
        stat = re.findall(r"Unconfirmed|Confirmed", tag)
        wstat = [("Confirmed" if any(bool(b) for _, b in lst) else "Unconfirmed")
                 for lst in (n.NEBTagList, n.IRVTagList) if lst]
        if stat != wstat:
            return f"leaf {n.cand}: confirmation shown {stat}, tags require {wstat}"
        return None
    if not (isinstance(tup, tuple) and len(tup) == 1 + len(t[1]) and tup[0] == t[0]):
        return f"node {t[0]}: rendered with {len(tup) - 1 if isinstance(tup, tuple) else '?'} branches, tree has {len(t[1])}"
    for k, sub in zip(t[1], tup[1:]):
        r = render_mismatch(k, sub)
        if r:
            return r
    return None


def canon_py(t):
    # t is [LeafNode] or [c, [subtrees]]
    if len(t) == 1:
        n = t[0]
        return {"leaf": n.cand, "neb": [[int(a), bool(b)] for a, b in n.NEBTagList],
                "irv": [[int(a), bool(b)] for a, b in n.IRVTagList]}
    kids = sorted((canon_py(k) for k in t[1]), key=lambda d: d.get("leaf", d.get("node")))
    return {"node": t[0], "kids": kids}


def canon_model(t):
    if "leaf" in t:
        return {"leaf": t["leaf"], "neb": t["neb"], "irv": t["irv"]}
    kids = sorted((canon_model(k) for k in t["kids"]), key=lambda d: d.get("leaf", d.get("node")))
    return {"node": t["node"], "kids": kids}


def has_unpruned(t):
    if "leaf" in t:
        return not t["neb"] and not t["irv"]
    return any(has_unpruned(k) for k in t["kids"])


def impl(case):
    if case.get("kind") == "log":
        return impl_log(case)
    from shangrla.core.IRVVisualisationUtils import buildRemainingTreeAsLists, treeListToTuple
    wo = [(l, w, p) for l, w, p in case["wo"]]
    irv = [(x, set(E), p) for x, E, p in case["irv"]]
    t = buildRemainingTreeAsLists(case["c"], set(case["S"]), wo, irv)
    ct = canon_py(t)
    return {"st": "ok", "tree": ct, "unpruned": has_unpruned(ct), "render": render_mismatch(t, treeListToTuple(t))}


def request(case):
    if case.get("kind") == "log":
        sel = selected_contest(case)
        wo, irv = contest_triples(sel)
        alt = case["alt"] if case["alt"] is not None else sel["winner"][0]
        return ("elimtree", "build", {"c": alt, "S": [c for c in sel["candidates"] if c != alt], "wo": wo, "irv": irv})
    return ("elimtree", "build", case)


def compare(case, ir, mr):
    if ir.get("st") != mr.get("st"):
        return f"status differs: impl={ir.get('st')}/{ir.get('err')} model={mr.get('st')}/{mr.get('err')}"
    if ir["st"] == "err":
        return None if ir["err"] == mr["err"] else f"error kind differs: {ir['err']} vs {mr['err']}"
    if case.get("kind") == "log":
        sel = selected_contest(case)
        if ir["winner"] != sel["winner"][0] or [c[0] for c in ir["nonwinners"]] != [c for c in sel["candidates"] if c != sel["winner"][0]]:
            return f"parseAssertions reports winner {ir['winner']} / non-winners {ir['nonwinners']} for contest {sel['id']}"
        if case["alt"] is None:
            return None
    mt = canon_model(mr["tree"])
    if mt != ir["tree"]:
        return "trees differ"
    if mr["unpruned"] != ir["unpruned"]:
        return "unpruned flag differs"
    return None


def signature(case, ir):
    if ir.get("st") != "ok":
        return "err:" + str(ir.get("err"))
    t = ir["tree"]
    pre = ""
    if case.get("kind") == "log":
        if t is None:
            return "trivial:log-no-alternative"
        last = case["contests"][-1][1] is selected_contest(case)
        pre = f"log;contests={len(case['contests'])};{'last' if last else 'not-last'};"
        if "leaf" in t:
            return pre + "root-leaf"
    if "leaf" in t:
        return "trivial:root-leaf"
    def leaves(t):
        if "leaf" in t:
            yield t
        else:
            for k in t["kids"]:
                yield from leaves(k)
    ls = list(leaves(t))
    pr = sum(1 for l in ls if l["neb"] or l["irv"])
    return pre + f"internal;pruned={'some' if pr else 'none'};unpruned={'yes' if pr < len(ls) else 'no'}"


# ---- oracle: brute force over all elimination orders (independent of the model)

def contradicted_by(order, wo, irv):
    """order: first eliminated first, last = winner.  returns True iff some assertion contradicts it"""
    pos = {c: i for i, c in enumerate(order)}
    for l, w, _ in wo:
        if l in pos and w in pos and pos[w] < pos[l]:
            return True
    for x, E, _ in irv:
        if x in pos and set(order[: pos[x]]) == set(E):
            return True
    return False


def oracle_c20(case, ir):
    if case.get("kind") == "log":
        return oracle_log(case, ir)
    if ir.get("st") != "ok":
        return {"what": f"tree construction raised {ir.get('err')}"}
    r = check_tree(case["c"], case["S"], case["wo"], case["irv"], ir["tree"], ir["unpruned"])
    if r is None and ir.get("render"):
        return {"what": "the displayed tree (treeListToTuple) does not show the tags of the tree: " + ir["render"]}
    return r


def oracle_log(case, ir):
    """end to end: for the contest the log case visualises, every alternative winner's tree shows an unpruned leaf
    exactly when an elimination order ending in it survives the assertions of THAT contest's own JSON"""
    sel = selected_contest(case)
    if ir.get("st") != "ok":
        return {"what": f"parseAssertions / tree construction raised {ir.get('err')}: {ir.get('msg')} "
                        f"(contest {sel['id']} of {[cid for cid, _ in case['contests']]})"}
    cands, winner = sel["candidates"], sel["winner"][0]
    wo, irv = contest_triples(sel)
    shown = {a["alt"]: a for a in ir["alts"]}
    for alt in cands:
        if alt == winner:
            continue
        if alt not in shown:
            return {"what": f"contest {sel['id']}: no tree for alternative winner {alt}"}
        a = shown[alt]
        S = [c for c in cands if c != alt]
        r = check_tree(alt, S, wo, irv, a["tree"], a["unpruned"])
        if r:
            return {"what": f"contest {sel['id']} (contest_id={case['contest_id']!r}, log order "
                            f"{[cid for cid, _ in case['contests']]}), alternative winner {alt}: " + r["what"]}
        if a["marker"] != a["unpruned"]:
            return {"what": f"contest {sel['id']}, alternative winner {alt}: rendered tree "
                            f"{'shows' if a['marker'] else 'lacks'} the ***Unpruned leaf marker, tree has unpruned leaf = {a['unpruned']}"}
        if a.get("render"):
            return {"what": f"contest {sel['id']}, alternative winner {alt}: the displayed tree does not show the tags "
                            f"of the tree: " + a["render"]}
    return None


def check_tree(c, S, wo, irv, tree, unpruned):
    if len(S) > 6:
        return None
    exists = any(not contradicted_by(list(p) + [c], wo, irv) for p in itertools.permutations(S))
    if exists != unpruned:
        return {"what": f"unpruned leaf shown={unpruned} but an uncontradicted order ending in {c} exists={exists}"}
    # tags exact: walk the tree with the earlier-set of each node
    def walk(t, cand_set):
        if "leaf" in t:
            x = t["leaf"]
            neb = [[i, p] for i, (l, w, p) in enumerate(wo) if l == x and w in cand_set]
            # first-index semantics of list.index for equal tuples
            neb = [[next(j for j, u in enumerate(wo) if u == wo[i]), p] for i, p in neb]
            it = [[i, p] for i, (y, E, p) in enumerate(irv) if y == x and set(E) == cand_set]
            it = [[next(j for j, u in enumerate(irv) if u[0] == irv[i][0] and set(u[1]) == set(irv[i][1]) and u[2] == irv[i][2]), p] for i, p in it]
            if t["neb"] != neb or t["irv"] != it:
                return {"what": f"leaf {x} with earlier set {sorted(cand_set)} tagged neb={t['neb']} irv={t['irv']}, "
                                f"contradicting assertions are neb={neb} irv={it}"}
            return None
        for k in t["kids"]:
            kc = k.get("leaf", k.get("node"))
            r = walk(k, cand_set - {kc})
            if r:
                return r
        return None
    return walk(tree, set(S))


ORACLES = {"C20": oracle_c20}
