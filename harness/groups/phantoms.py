"""
Correspondence group `phantoms` (property C08, first sentence): CVR.make_phantoms on REAL Audit (one stratum),
Contest and CVR objects   vs.   Shangrla.Phantoms.makePhantoms (lean/Shangrla/Model/Phantoms.lean).

Vote contents, tally_pool and pool arguments are drawn from a case-local seed and never sent to the model: a record
is (id, which contests it lists, phantom flag).
"""
import copy, numbers, itertools, random
from ..core import impl_call

NAME = "phantoms"
RULE = ("0-20 records (incl. empty and all-phantom lists), 1-4 contests (also none), card bounds None / = / > the number "
        "of records listing the contest, max_cards >= #records, style on/off, random prefix, tally_pool / pool "
        "arguments; malformed stream: bounds below the count, max_cards below #records (negative phantom count); "
        "exhaustive part: every style sequence of <=3 (quick) / <=4 (thorough) records x 2 contests x bounds None/+0/+1/+2 "
        "x max_cards +0/+2; "
        "non-trivial = style information used and at least two contests with different positive shortfalls, or a "
        "no-style call that creates phantoms; distinct = distinct canonical input")
EXHAUSTIVE = {"quick": False, "thorough": False}
RULE += "; option stream (n/15 more cases, own generator, OPTIONS_AUDIT.md): make_phantoms(audit, contests, cvrs) with prefix / tally_pool / pool left out where they hold their defaults"

CIDS = ["A", "B", "C", "D"]


# contest identifiers that are falsy, numeric-looking, differ only in case / blanks, or contain one another (round 9)
CID_FAMILIES = [["0", "", "a", "A", "aa"], ["1", "01", "10", " 1", "1.0"]]


def _cids(rng, ncon):
    fam = CIDS if not rng.chance(0.15) else rng.choice(CID_FAMILIES)
    return list(fam[:ncon])


def _votes(rng, styles):
    return {c: {rng.choice(["x", "y", "z"]): rng.choice([0, 1, True]) for _ in range(rng.randint(0, 2))} for c in styles}


def _build(case):
    from shangrla.core.Audit import CVR, Contest, Audit
    rng = random.Random(case["vseed"])
    audit = Audit.from_dict({"strata": {"s1": {"max_cards": case["max_cards"], "use_style": case["use_style"],
                                                "replacement": False}}})
    contests = Contest.from_dict_of_dicts({c["id"]: {"id": c["id"], "cards": c["cards"], "risk_limit": 0.05}
                                           for c in case["contests"]})
    cvrs = [CVR(id=r["id"], votes=_votes(rng, r["styles"]), phantom=bool(r["phantom"])) for r in case["cvrs"]]
    if case.get("num_type"):
        # counts as the library itself leaves them after Contest.check_cards / a sum over a manifest column: numpy
        # integers (or floats holding whole numbers) instead of Python ints -- equal values
        import numpy as np
        conv = {"np": np.int64, "np32": np.int32, "float": float}[case["num_type"]]
        for con in contests.values():
            if con.cards is not None:
                con.cards = conv(con.cards)
        if case["num_type"] != "float":
            audit.strata["s1"].max_cards = conv(audit.strata["s1"].max_cards)
    return audit, contests, cvrs, rng


def impl(case):
    from shangrla.core.Audit import CVR
    audit, contests, cvrs, rng = _build(case)
    before = [(c.id, copy.deepcopy(c.votes), c.phantom) for c in cvrs]
    tp, pool = rng.choice([None, "pool-7"]), (rng.random() < 0.5)
    if case.get("call") == "defaults":
        # optional arguments that hold their documented defaults (prefix='phantom-', tally_pool=None, pool=False) are
        # left out of the call; the three required ones go by position
        kw = ({} if case["prefix"] == "phantom-" else {"prefix": case["prefix"]}) | \
             ({} if tp is None else {"tally_pool": tp}) | ({} if pool is False else {"pool": pool})
        out, n = CVR.make_phantoms(audit, contests, cvrs, **kw)
    else:
        out, n = CVR.make_phantoms(audit=audit, contests=contests, cvr_list=cvrs, prefix=case["prefix"],
                                   tally_pool=tp, pool=pool)
    k = len(cvrs)
    same = (len(out) >= k and all(a is b for a, b in zip(out[:k], cvrs))
            and [(c.id, c.votes, c.phantom) for c in cvrs] == before)
    new = out[k:]
    return {"st": "ok",
            "recs": [{"id": r.id, "styles": list(r.votes.keys()), "phantom": bool(r.phantom)} for r in out],
            "n": int(n), "n_is_int": isinstance(n, numbers.Integral),   # a Python or numpy integer, not a float
            "contests": [{"id": c["id"], "cards": (None if contests[c["id"]].cards is None else int(contests[c["id"]].cards)),
                          "cvrs": int(contests[c["id"]].cvrs)} for c in case["contests"]],
            "originals_first_unchanged": bool(same),
            "new_flags_ok": all(r.phantom and r.tally_pool == tp and r.pool == pool and
                                all(v == {} for v in r.votes.values()) for r in new)}


def request(case):
    return ("phantoms", "make", {"use_style": case["use_style"], "max_cards": case["max_cards"], "prefix": case["prefix"],
                                 "contests": case["contests"], "cvrs": case["cvrs"]})


def compare(case, ir, mr):
    if ir.get("st") != mr.get("st"):
        return f"status differs: impl={ir.get('st')}/{ir.get('err')} model={mr.get('st')}/{mr.get('err')}"
    if ir["st"] == "err":
        return None if ir["err"] == mr["err"] else f"error kind differs: {ir['err']} vs {mr['err']}"
    if ir["recs"] != mr["recs"]:
        return "record lists differ"
    if ir["n"] != mr["n"]:
        return f"phantom count {ir['n']} vs model {mr['n']}"
    if ir["contests"] != mr["contests"]:
        return f"contest cards/cvrs {ir['contests']} vs model {mr['contests']}"
    return None


def _short(case):
    out = []
    for c in case["contests"]:
        cv = sum(1 for r in case["cvrs"] if not r["phantom"] and c["id"] in r["styles"])
        cards = case["max_cards"] if (c["cards"] is None or not case["use_style"]) else c["cards"]
        out.append((cards, cv))
    return out


def in_quantifier(case):
    if len({c["id"] for c in case["contests"]}) != len(case["contests"]):
        return False
    if case["max_cards"] < len(case["cvrs"]):
        return False
    return all(cards >= cv for cards, cv in _short(case))


def signature(case, ir):
    if ir.get("st") != "ok":
        return "err:" + str(ir.get("err"))
    if not in_quantifier(case):
        return "malformed"
    if not case["use_style"]:
        return "nostyle;" + ("phantoms" if ir["n"] > 0 else "trivial")
    sh = sorted({cards - cv for cards, cv in _short(case) if cards > cv})
    if len(sh) >= 2:
        return "style;shortfalls>=2"
    return "trivial:style;" + ("one-shortfall" if sh else "no-phantoms")


def corpus():
    t = [{"id": str(i + 1), "styles": s, "phantom": False} for i, s in enumerate(
        [["city_council", "measure_1"]] * 3 + [["city_council"]] * 2 + [["measure_1"]])]
    cons = [{"id": "city_council", "cards": None}, {"id": "measure_1", "cards": 5}]
    return [
        {"use_style": True, "max_cards": 8, "prefix": "phantom-", "contests": cons, "cvrs": t, "vseed": 1},
        {"use_style": False, "max_cards": 8, "prefix": "phantom-", "contests": cons, "cvrs": t, "vseed": 2},
        # F22: no real record at all
        {"use_style": True, "max_cards": 3, "prefix": "ph-", "contests": [{"id": "A", "cards": 2}], "cvrs": [], "vseed": 3},
        {"use_style": True, "max_cards": 3, "prefix": "ph-", "contests": [{"id": "A", "cards": 2}],
         "cvrs": [{"id": "old-1", "styles": ["A"], "phantom": True}], "vseed": 4},
        {"use_style": False, "max_cards": 1, "prefix": "ph-", "contests": [{"id": "A", "cards": 2}],
         "cvrs": [{"id": "1", "styles": ["A"], "phantom": False}, {"id": "2", "styles": [], "phantom": False}], "vseed": 5},
        {"use_style": True, "max_cards": 5, "prefix": "", "contests": [], "cvrs": [{"id": "1", "styles": ["A"], "phantom": False}], "vseed": 6},
    ]


def gen_exhaustive(rng, maxn):
    sty = [[], ["A"], ["B"], ["A", "B"]]
    for n in range(0, maxn + 1):
        for seq in itertools.product(range(4), repeat=n):
            cvrs = [{"id": str(i + 1), "styles": sty[s], "phantom": False} for i, s in enumerate(seq)]
            cA = sum(1 for r in cvrs if "A" in r["styles"]); cB = sum(1 for r in cvrs if "B" in r["styles"])
            for dA in (None, 0, 1, 2):
                for dB in (None, 0, 1, 2):
                    for mx in (n, n + 2):
                        yield {"use_style": rng.chance(0.8), "max_cards": mx, "prefix": "phantom-",
                               "contests": [{"id": "A", "cards": None if dA is None else cA + dA},
                                            {"id": "B", "cards": None if dB is None else cB + dB}],
                               "cvrs": cvrs, "vseed": rng.randint(0, 10 ** 6)}


def gen_random(rng):
    n = rng.choice([0, 0, 1, 2, 3, 5, 8, 12, 20])
    ncon = rng.choice([0, 1, 2, 3, 4, 4])
    cids = _cids(rng, ncon)
    if rng.chance(0.3):
        cids = list(cids); rng.shuffle(cids)
    dens = rng.choice([0.2, 0.5, 0.9])
    allph = rng.chance(0.08)
    cvrs = []
    for i in range(n):
        st = [c for c in cids if rng.chance(dens)]
        if rng.chance(0.3):
            rng.shuffle(st)
        if rng.chance(0.1):
            st.append("ZZ")
        ph = allph or rng.chance(0.08)
        cvrs.append({"id": (f"old-{i + 1}" if ph else rng.choice([str(i + 1), f"1_{i}_7"])), "styles": st, "phantom": ph})
    malformed = rng.chance(0.12)
    mx = n + rng.choice([0, 0, 1, 2, 5])
    if malformed and n and rng.chance(0.5):
        mx = rng.randint(0, n - 1)
    cons = []
    for c in cids:
        cv = sum(1 for r in cvrs if not r["phantom"] and c in r["styles"])
        b = rng.choice([None, cv, cv + 1, cv + rng.randint(0, 6), mx])
        if b is not None and b < cv and not malformed:
            b = cv
        if malformed and cv and rng.chance(0.4):
            b = rng.randint(0, cv - 1)
        cons.append({"id": c, "cards": b})
    # unspecified bound means max_cards: keep it inside the quantifier unless malformed
    if not malformed:
        need = max([sum(1 for r in cvrs if not r["phantom"] and c in r["styles"]) for c in cids] + [n])
        mx = max(mx, need)
    out = {"use_style": rng.chance(0.65), "max_cards": mx, "prefix": rng.choice(["phantom-", "phantom-", "ph", "", "P_1_"]),
           "contests": cons, "cvrs": cvrs, "vseed": rng.randint(0, 10 ** 6)}
    if rng.chance(0.2):
        out["num_type"] = rng.choice(["np", "np", "np32"])
    return out


def gen_options(rng):
    """CVR.make_phantoms called the short way (OPTIONS_AUDIT.md): audit, contests, cvr_list by position, and
    `prefix` / `tally_pool` / `pool` left out whenever they hold their defaults ('phantom-', None, False)"""
    c = gen_random(rng)
    if rng.chance(0.7):
        c["prefix"] = "phantom-"
    c["call"] = "defaults"
    return c


def gen(rng, n, tier):
    import hashlib
    from ..core import Rng
    opt = Rng(int(hashlib.sha1(("options" + repr(rng.getstate())).encode()).hexdigest()[:15], 16))
    yield from gen_main(rng, n, tier)
    for _ in range(max(8, n // 15)):
        yield gen_options(opt)


def gen_main(rng, n, tier):
    ex = list(gen_exhaustive(rng, 3 if tier == "quick" else 4))
    if len(ex) > n // 2:
        rng.shuffle(ex); ex = ex[: n // 2]
    count = 0
    for c in ex:
        yield c; count += 1
    while count < n:
        yield gen_random(rng); count += 1


# ------------------------------------------------------------------------------------------------
# oracle: first sentence of C08 on the implementation's output

def oracle_c08(case, ir):
    if not in_quantifier(case):
        return None
    if ir.get("st") != "ok":
        return {"what": f"make_phantoms raised {ir.get('err')}: {ir.get('msg')}"}
    k = len(case["cvrs"])
    recs = ir["recs"]
    if not ir["originals_first_unchanged"]:
        return {"what": "the original records do not come back unchanged and first"}
    new = recs[k:]
    if not ir["new_flags_ok"] or not all(r["phantom"] for r in new):
        return {"what": "a created record is not a phantom with empty votes and the requested pool labels"}
    ids = [r["id"] for r in new]
    if len(set(ids)) != len(ids):
        return {"what": f"phantom identifiers repeat: {ids}"}
    if not ir["n_is_int"] or ir["n"] != len(new):
        return {"what": f"reported phantom count {ir['n']} but {len(new)} phantoms were created"}
    sh = _short(case)
    if case["use_style"]:
        for c, (cards, cv), cc in zip(case["contests"], sh, ir["contests"]):
            if cc["cards"] != cards or cc["cvrs"] != cv:
                return {"what": f"contest {c['id']}: cards/cvrs set to {cc['cards']}/{cc['cvrs']}, expected {cards}/{cv}"}
            real = sum(1 for r in recs[:k] if not r["phantom"] and c["id"] in r["styles"])
            ph = sum(1 for r in new if c["id"] in r["styles"])
            if real + ph != cards:
                return {"what": f"contest {c['id']}: {real} real + {ph} phantom records list it, card bound is {cards}"}
        most = max([cards - cv for cards, cv in sh] + [0])
        if len(new) != most:
            return {"what": f"{len(new)} phantoms created, the largest shortfall is {most}"}
        others = {cid for r in new for cid in r["styles"]} - {c["id"] for c in case["contests"]}
        if others:
            return {"what": f"phantoms list contests that are not under audit: {sorted(others)}"}
    else:
        if len(recs) != case["max_cards"]:
            return {"what": f"{len(recs)} records in all, the stratum's card bound is {case['max_cards']}"}
        for c, cc in zip(case["contests"], ir["contests"]):
            if cc["cards"] != case["max_cards"]:
                return {"what": f"contest {c['id']}: cards = {cc['cards']}, expected max_cards = {case['max_cards']}"}
        if any(r["styles"] for r in new):
            return {"what": "a no-style phantom lists a contest"}
    return None


ORACLES = {"C08": oracle_c08}
