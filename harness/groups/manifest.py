"""
Correspondence group `manifest` (properties C17 and, for the phantom accounting of the two format modules, C08):
  shangrla.formats.Dominion / shangrla.formats.Hart :: prep_manifest, sample_from_manifest, sample_from_cvrs
  vs. Shangrla.Manifest.{prepManifest, prepRows, entry, sampleFromManifest, sampleFromCvrs}.

The implementation side builds real pandas DataFrames with the vendor's column names (the way
tests/formats/test_Dominion.py and test_Hart.py do), calls the real `prep_manifest`, then the real lookup
 (a) once per number of `all` (= 0 .. max_cards+1: the whole valid range and both out-of-range ends), and
 (b) once on `sample`.
A case may carry "index": the row labels of the incoming DataFrame (a 1-based index, the labels left after rows
were filtered out before preparation, a permuted index, repeated labels of concatenated manifests).  Nothing in the
documented interface needs the default 0..n-1 index (every lookup is positional), and the model has no index.
"""
import itertools, math
from ..core import impl_call, err_kind

NAME = "manifest"
RULE = ("three kinds of case, both vendors: `manifest` = 1-8 batches of sizes 0-6 (empty batches frequent; every size "
        "vector with <=4 batches and sizes <=3 enumerated), card bound equal to / above (phantom batch) / below "
        "(AssertionError) the manifest total, n_cvrs within or above the total, lookup of EVERY number 0..max_cards+1 "
        "one by one plus a random sample in random order (some with repeats, some with an out-of-range number); "
        "`cvrs` = the same manifests with a CVR list (one CVR per listed card, phantom CVRs `phantom-1-k`, some "
        "malformed ids / unknown batches / out-of-range indices) through sample_from_cvrs; `prep` = size column and "
        "bounds only; the incoming DataFrame carries the default index or (2 in 5) a 1-based / filtered (rows dropped "
        "before preparation) / permuted / repeated-label index. non-trivial = prep succeeded and at least one card was looked up, or prep refused; "
        "distinct = distinct canonical input")
EXHAUSTIVE = {"quick": False, "thorough": False}
RULE += "; option stream (n/10 more cases, own generator, OPTIONS_AUDIT.md): incoming frames with further columns and / or another column order, samples as numpy integer arrays (int64 / int32 / uint32)"

DOM_COLS = ["Tray #", "Tabulator Number", "Batch Number", "Total Ballots", "VBMCart.Cart number"]
HART_COLS = ["Container", "Tabulator", "Batch Name", "Number of Ballots"]


# ------------------------------------------------------------------------------------------- cases

SAMPLE_KINDS = ["list", "list", "array", "array", "tuple", "iter", "gen"]


_SUB_TABS = ["a", "m", "an", "tom", "p", "hant", "Phantom", "phantom1", " phantom", "t", "phanto", "ant"]


def mk_rows(vendor, sizes, rng=None, style="int"):
    """distinct (tab, batch) labels; extra = [cart, tray] (Dominion) or [container] (Hart)"""
    rows = []
    for i, sz in enumerate(sizes):
        if style == "int":
            tab, batch = 10 + i // 3, 100 + i
        elif style == "str":
            tab, batch = f"T{i // 2}", f"B{i}"
        elif style == "sub":        # tabulator labels that are pieces / variants of the word the code uses for the
            # batch it appends itself ("phantom"): `in` on a string, startswith, casefold, strip (round 9)
            tab, batch = _SUB_TABS[(i // 2) % len(_SUB_TABS)], i + 1
        elif style == "names":      # named tabulators / carts / trays, numbered batches
            tab, batch = f"T{i // 2}", i + 1
        else:  # same tabulator everywhere, batches 1..n (the Hart test's layout)
            tab, batch = 1, i + 1
        extra = [1 + i // 4, i + 1] if vendor == "dominion" else [("Mail" if i % 2 == 0 else "EV")]
        if style in ("str", "names", "sub") and vendor == "dominion":
            extra = [f"C{1 + i // 4}", f"Y{i + 1}"]      # cart / tray names (a manifest read with dtype=str)
        rows.append({"tab": tab, "batch": batch, "size": int(sz), "extra": extra})
    return rows


def all_range(max_cards):
    return list(range(0, max_cards + 2))


def corpus():
    out = []
    # the repo's own fixtures, shrunk: three batches (Dominion), two batches (Hart)
    out.append({"kind": "manifest", "vendor": "dominion", "rows": mk_rows("dominion", [2, 2, 2]), "max_cards": 6,
                "n_cvrs": 6, "all": all_range(6), "sample": [1, 2, 3, 4, 6]})
    out.append({"kind": "manifest", "vendor": "hart", "rows": mk_rows("hart", [1, 2], style="one"), "max_cards": 3,
                "n_cvrs": 3, "all": all_range(3), "sample": [0, 1, 2]})
    # empty batches at the start, in the middle, at the end; phantom batch
    for v in ("dominion", "hart"):
        out.append({"kind": "manifest", "vendor": v, "rows": mk_rows(v, [0, 2, 0, 0, 3, 0]), "max_cards": 8,
                    "n_cvrs": 4, "all": all_range(8), "sample": [5, 1, 7, 2]})
        out.append({"kind": "manifest", "vendor": v, "rows": mk_rows(v, [0, 0]), "max_cards": 2,
                    "n_cvrs": 0, "all": all_range(2), "sample": [1]})
        out.append({"kind": "manifest", "vendor": v, "rows": mk_rows(v, [3, 1]), "max_cards": 3,
                    "n_cvrs": 0, "all": all_range(3), "sample": []})          # too many cards
        out.append({"kind": "manifest", "vendor": v, "rows": mk_rows(v, [3, 1]), "max_cards": 9,
                    "n_cvrs": 5, "all": all_range(9), "sample": []})          # too many CVRs
        out.append({"kind": "prep", "vendor": v, "sizes": [4, 0, 1], "max_cards": 5, "n_cvrs": 5})
        out.append({"kind": "prep", "vendor": v, "sizes": [4, 0, 1], "max_cards": 1000, "n_cvrs": 0})
    # a manifest whose DataFrame does not carry the default index (an empty first batch filtered out: labels 1..3;
    # a permuted index), phantom batch needed
    for v in ("dominion", "hart"):
        for idx in ([1, 2, 3], [2, 0, 1]):
            out.append({"kind": "manifest", "vendor": v, "rows": mk_rows(v, [5, 3, 4], style="names"), "max_cards": 15,
                        "n_cvrs": 12, "all": all_range(15), "sample": [3, 14, 9], "index": idx})
    out.append(cvr_case("dominion", [2, 0, 3], 7, None, sample=[0, 4, 6, 2], style="int"))
    out.append(cvr_case("hart", [2, 0, 3], 7, None, sample=[0, 4, 6, 2], style="one"))
    return out


def cvr_list_for(vendor, rows, n_phantoms, drop=0, prefix="phantom-1-"):
    """one CVR per listed card (minus `drop` at the end), then phantom CVRs `phantom-1-k` (or another `prefix`
    handed to CVR.make_phantoms: the identifier of a phantom is whatever the caller chose)"""
    cvrs = []
    for r in rows:
        for k in range(1, r["size"] + 1):
            cid = f"{r['tab']}-{r['batch']}-{k}" if vendor == "dominion" else f"{r['batch']}_{k}"
            cvrs.append({"id": cid, "cib": k, "phantom": False})
    if drop:
        cvrs = cvrs[: max(0, len(cvrs) - drop)]
    for k in range(1, n_phantoms + 1):
        cvrs.append({"id": f"{prefix}{k}", "cib": None, "phantom": True})
    return cvrs


def cvr_case(vendor, sizes, max_cards, rng, sample=None, style="int", drop=0, wellformed=True):
    rows = mk_rows(vendor, sizes, style=style)
    T = sum(sizes)
    prefix = "phantom-1-"
    if vendor == "dominion" and rng is not None and rng.chance(0.3):
        prefix = rng.choice(["missing-1-", "ph-9-", "phantom-2-", "zz-0-"])
    cvrs = cvr_list_for(vendor, rows, max(0, max_cards - T) + drop, drop, prefix)
    n_cvrs = sum(1 for c in cvrs if not c["phantom"])
    if sample is None:
        k = rng.randint(0, min(10, len(cvrs)))
        sample = rng.sample(range(len(cvrs)), k)
    out = {"kind": "cvrs", "vendor": vendor, "rows": rows, "max_cards": max_cards, "n_cvrs": n_cvrs,
           "cvrs": cvrs, "sample": [int(s) for s in sample], "wellformed": wellformed}
    if rng is not None:
        out["container"] = rng.choice(SAMPLE_KINDS)
    return out


def rand_sizes(rng):
    nb = rng.choice([1, 1, 2, 2, 3, 3, 4, 5, 6, 7, 8])
    pz = rng.choice([0.0, 0.2, 0.4, 0.7])
    return [0 if rng.chance(pz) else rng.randint(1, 6) for _ in range(nb)]


def rand_bounds(rng, T):
    """(max_cards, n_cvrs)"""
    u = rng.random()
    if u < 0.30:
        M = T
    elif u < 0.76:
        M = T + rng.choice([1, 1, 2, 3, 5, 7])
    elif u < 0.84:
        M = max(0, T - rng.choice([1, 1, 2, 3]))
    else:
        M = rng.randint(0, T + 8)
    w = rng.random()
    if w < 0.25:
        c = T
    elif w < 0.86:
        c = rng.randint(0, T)
    elif w < 0.93:
        c = T + rng.choice([1, 1, 2, 5])
    else:
        c = rng.randint(0, T + 6)
    return M, c


def rand_sample(rng, vendor, M):
    lo, hi = (1, M) if vendor == "dominion" else (0, M - 1)
    if hi < lo:
        return []
    valid = list(range(lo, hi + 1))
    k = rng.randint(1, min(10, len(valid)))
    s = rng.sample(valid, k)
    u = rng.random()
    if u < 0.10:                      # repeats (sampling with replacement)
        s += [rng.choice(s) for _ in range(rng.randint(1, 2))]
        rng.shuffle(s)
    elif u < 0.20:                    # one out-of-range number somewhere
        s.insert(rng.randint(0, len(s)), rng.choice([lo - 1, hi + 1, hi + 2]) if lo > 0 else rng.choice([hi + 1, hi + 2]))
    elif u < 0.30:                    # the whole range in random order
        s = valid[:]
        rng.shuffle(s)
    return [int(x) for x in s]


def rand_index(rng, n):
    """row labels of the incoming DataFrame (None = the default 0..n-1)"""
    u = rng.random()
    if u < 0.6 or n == 0:
        return None
    if u < 0.70:
        return list(range(1, n + 1))                                  # 1-based
    if u < 0.82:
        k = rng.choice([1, 1, 2, 3])
        return list(range(k, n + k))                                  # leading rows dropped before preparation
    if u < 0.90:
        return sorted(rng.sample(range(0, n + rng.randint(1, 3)), n))  # rows dropped anywhere
    if u < 0.96:
        lab = list(range(n)); rng.shuffle(lab)                        # permuted (sort_values)
        return lab
    a = rng.randint(1, n)
    return list(range(a)) + list(range(n - a))                        # concatenated manifests: repeated labels


def with_index(rng, case):
    n = len(case["rows"]) if "rows" in case else len(case["sizes"])
    idx = rand_index(rng, n)
    if idx is not None:
        case["index"] = idx
    # the size column's integer type: pandas' default int64 (3 in 4) or a narrower / unsigned one
    if rng.chance(0.25):
        case["dtype"] = rng.choice(DTYPES)
    return case


def manifest_case(rng, vendor, sizes, style=None):
    T = sum(sizes)
    M, c = rand_bounds(rng, T)
    style = style or rng.choice(["int", "int", "str", "one", "names", "sub"])
    return {"kind": "manifest", "vendor": vendor, "rows": mk_rows(vendor, sizes, style=style), "max_cards": M,
            "n_cvrs": c, "all": all_range(M), "sample": rand_sample(rng, vendor, M), "container": rng.choice(SAMPLE_KINDS)}


def malform(rng, case):
    """damage a well-formed `cvrs` case: bad id, unknown batch, index past the end, duplicate batch name"""
    case = dict(case, cvrs=[dict(c) for c in case["cvrs"]], wellformed=False)
    cv = case["cvrs"]
    what = rng.choice(["parts", "unknown", "index", "word", "dupbatch"])
    if what == "index" or not cv:
        case["sample"] = case["sample"] + [len(cv) + rng.randint(0, 2)]
        rng.shuffle(case["sample"])
        return case
    j = rng.choice(case["sample"]) if case["sample"] else rng.randrange(len(cv))
    if what == "parts":
        cv[j]["id"] = rng.choice(["7", "a-b", "1-2-3-4", "1_2_3", "", "phantom-5", "x_y"])
    elif what == "unknown":
        cv[j]["id"] = "999-999-1" if case["vendor"] == "dominion" else "999_1"
    elif what == "word":
        cv[j]["id"] = "ghost-2-9"
        cv[j]["phantom"] = True
    elif what == "dupbatch" and len(case["rows"]) >= 2:
        rows = [dict(r) for r in case["rows"]]
        rows[-1]["batch"] = rows[0]["batch"]
        if case["vendor"] == "dominion":
            rows[-1]["tab"] = rows[0]["tab"]
        case["rows"] = rows
    return case


def gen_options(rng):
    """input forms the main stream never uses (OPTIONS_AUDIT.md): the sample as a numpy integer array (what
    cryptorandom's sampler returns and what sample_from_cvrs documents), and incoming manifests with further columns
    and / or another column order (every documented access is by name)"""
    vendor = rng.choice(["dominion", "hart"])
    sizes = rand_sizes(rng)
    T = sum(sizes)
    u = rng.random()
    if u < 0.5:
        c = manifest_case(rng, vendor, sizes)
    elif u < 0.9:
        M = T + rng.choice([0, 0, 1, 2, 4])
        style = rng.choice(["int", "str", "names", "sub"]) if vendor == "dominion" else rng.choice(["int", "str", "one", "sub"])
        c = cvr_case(vendor, sizes, M, rng, style=style, drop=rng.choice([0, 0, 0, 1]))
    else:
        M, k = rand_bounds(rng, T)
        c = {"kind": "prep", "vendor": vendor, "sizes": sizes, "max_cards": M, "n_cvrs": k}
    r = rng.random()
    if r < 0.6 or c["kind"] == "prep":
        c["cols"] = {"extra": rng.choice([[], ["Ballot Type"], ["Ballot Type", "Notes"], ["Count", "Location"]]),
                     "order": rng.choice([None, rng.randint(1, 10 ** 6), rng.randint(1, 10 ** 6)])}
        if not c["cols"]["extra"] and c["cols"]["order"] is None:
            c["cols"]["order"] = rng.randint(1, 10 ** 6)
    if r >= 0.4 and c["kind"] != "prep" and all(isinstance(x, int) and 0 <= x < 2 ** 31 for x in c["sample"]):
        c["sample_np"] = rng.choice(["int64", "int64", "int32", "uint32"])
    return c


def gen(rng, n, tier):
    import hashlib
    from ..core import Rng
    opt = Rng(int(hashlib.sha1(("options" + repr(rng.getstate())).encode()).hexdigest()[:15], 16))
    yield from gen_main(rng, n, tier)
    for _ in range(max(8, n // 10)):
        yield gen_options(opt)


def gen_main(rng, n, tier):
    count = 0
    # (1) enumerated small size vectors: <= 4 batches, sizes <= 3
    vecs = [list(v) for nb in range(1, 5) for v in itertools.product(range(4), repeat=nb)]
    rng.shuffle(vecs)
    take = vecs if tier == "thorough" else vecs[: max(1, n // 6)]
    for v in take:
        for vendor in ("dominion", "hart"):
            if count >= n:
                break
            yield with_index(rng, manifest_case(rng, vendor, v))
            count += 1
    # (2) random
    while count < n:
        vendor = rng.choice(["dominion", "hart"])
        sizes = rand_sizes(rng)
        T = sum(sizes)
        u = rng.random()
        if u < 0.55:
            yield with_index(rng, manifest_case(rng, vendor, sizes))
        elif u < 0.90:
            M = T + rng.choice([0, 0, 1, 2, 4])
            style = rng.choice(["int", "str", "names", "sub"]) if vendor == "dominion" else rng.choice(["int", "str", "one", "sub"])
            c = cvr_case(vendor, sizes, M, rng, style=style, drop=rng.choice([0, 0, 0, 1, 2]))
            if rng.chance(0.3):
                c = malform(rng, c)
            yield with_index(rng, c)
        else:
            M, c = rand_bounds(rng, T)
            if rng.chance(0.3):
                M, c = M * rng.choice([1, 10, 1000]), c
            yield with_index(rng, {"kind": "prep", "vendor": vendor, "sizes": sizes, "max_cards": M, "n_cvrs": c})
        count += 1


# ------------------------------------------------------------------------------------------- implementation

def cell(x):
    """str() of one printed cell; a missing value (None/NaN in a string column) prints `nan`"""
    try:
        if x is None or (isinstance(x, float) and math.isnan(x)):
            return "nan"
    except Exception:
        pass
    return str(x)


SIZE_COL = {"dominion": "Total Ballots", "hart": "Number of Ballots"}
DTYPES = ["uint8", "uint16", "uint32", "uint64", "int8", "int16", "int32"]


def frame(vendor, rows, index=None, dtype=None, cols=None):
    """`dtype`: the integer type of the size column when it is not pandas' default int64 (a manifest read with an
    explicit dtype=, or downcast with pd.to_numeric(..., downcast='unsigned') to save memory); every generated size
    fits the type.  `cols` = {"extra": [names], "order": seed}: the incoming frame has further columns besides the
    documented ones (a real manifest file does: ballot type, location, notes) and / or its columns in another order;
    "should contain the columns ..." -- every documented access is by column name"""
    df = frame0(vendor, rows, index)
    if dtype is not None:
        df[SIZE_COL[vendor]] = df[SIZE_COL[vendor]].astype(dtype)
    if cols:
        import random
        r = random.Random(cols.get("order", 0))
        for name in cols.get("extra") or []:
            df[name] = [r.choice(["Mail", "EV", "ED", 7, 3.5]) if name != "Count" else r.randint(0, 9) for _ in range(len(df))]
        if cols.get("order") is not None:
            names = list(df.columns)
            r.shuffle(names)
            df = df[names].copy()
    return df


def frame0(vendor, rows, index=None):
    """the incoming DataFrame.  `index` = its row labels: strictly increasing non-negative labels are produced the way
    an auditor would, by building the longer raw manifest and filtering rows out with a boolean mask; any other label
    list is assigned to `.index`"""
    if index is not None and len(index) == len(rows) and rows:
        lab = [int(x) for x in index]
        if all(a < b for a, b in zip(lab, lab[1:])) and lab[0] >= 0:
            filler = dict(rows[0], size=0)
            it = iter(rows)
            raw = [next(it) if k in set(lab) else filler for k in range(lab[-1] + 1)]
            df = frame0(vendor, raw)
            return df[[k in set(lab) for k in range(lab[-1] + 1)]].copy()
        df = frame0(vendor, rows)
        df.index = lab
        return df
    import pandas as pd
    if vendor == "dominion":
        d = [{"Tray #": r["extra"][1], "Tabulator Number": r["tab"], "Batch Number": r["batch"],
              "Total Ballots": r["size"], "VBMCart.Cart number": r["extra"][0]} for r in rows]
        return pd.DataFrame.from_dict(d)
    return pd.DataFrame.from_dict({"Container": [r["extra"][0] for r in rows], "Tabulator": [r["tab"] for r in rows],
                                   "Batch Name": [r["batch"] for r in rows],
                                   "Number of Ballots": [r["size"] for r in rows]}, orient="columns")


def vendor_cls(vendor):
    if vendor == "dominion":
        from shangrla.formats.Dominion import Dominion
        return Dominion
    from shangrla.formats.Hart import Hart
    return Hart


def size_of(x, row):
    """a batch size of the prepared frame as an int.  A size that is not written as an integer (a column that turned
    float on the way: 3.0 / '3.0') keeps its value and is flagged in the row (`size_repr`), which the model never has"""
    try:
        return int(x)
    except ValueError:
        v = float(x)
        if v != int(v):
            raise
        row["size_repr"] = str(x)
        return int(v)


def canon_frame(vendor, m):
    rows = []
    for t in m.to_dict("records"):
        if vendor == "dominion":
            r = {"tab": cell(t["Tabulator Number"]), "batch": cell(t["Batch Number"]),
                 "extra": [cell(t["VBMCart.Cart number"]), cell(t["Tray #"])]}
            r["size"] = size_of(t["Total Ballots"], r)
        else:
            r = {"tab": cell(t["Tabulator"]), "batch": cell(t["Batch Name"]), "extra": [cell(t["Container"])]}
            r["size"] = size_of(t["Number of Ballots"], r)
        rows.append(r)
    return rows


def do_prep(vendor, rows, max_cards, n_cvrs, index=None, dtype=None, cols=None):
    """-> (canonical prep result, prepared frame or None)"""
    V = vendor_cls(vendor)
    try:
        m, mc, ph = V.prep_manifest(frame(vendor, rows, index, dtype, cols), max_cards, n_cvrs)
    except Exception as e:  # noqa
        return {"st": "err", "err": err_kind(e)}, None
    return {"st": "ok", "rows": canon_frame(vendor, m), "cum": [int(x) for x in m["cum_cards"]],
            "manifest_cards": int(mc), "phantoms": int(ph)}, m


def canon_order(so):
    return [[k, int(v["selection_order"]), int(v["serial"])] for k, v in so.items()]


def canon_mcard(vendor, card):
    ne = 2 if vendor == "dominion" else 1
    out = [cell(x) for x in card[:ne]] + [cell(card[ne]), cell(card[ne + 1]), int(card[ne + 2]), str(card[ne + 3])]
    if vendor == "dominion":
        out.append(int(card[ne + 4]))
    return out


def phantom_ok(c):
    return bool(c.phantom) and c.votes == {}


def _cont(case, items):
    """the sample numbers as the documented list / numpy array, or as a tuple / one-shot iterator (a `map` shifting
    1-based numbers, a generator picking the newly drawn ones): every lookup makes one pass over them"""
    from ..core import container
    k = case.get("container")
    if k == "array":
        import numpy as np
        return np.array(list(items), dtype=int)
    return container(k, items)


def impl(case):
    from shangrla.core.Audit import CVR
    vendor = case["vendor"]
    V = vendor_cls(vendor)
    if case["kind"] == "prep":
        rows = mk_rows(vendor, case["sizes"])
        p, _ = do_prep(vendor, rows, case["max_cards"], case["n_cvrs"], case.get("index"), case.get("dtype"), case.get("cols"))
        if p["st"] == "ok":
            return {"st": "ok", "sizes": [r["size"] for r in p["rows"]], "manifest_cards": p["manifest_cards"],
                    "phantoms": p["phantoms"], "tabs": [r["tab"] for r in p["rows"]]}
        return p
    p, m = do_prep(vendor, case["rows"], case["max_cards"], case["n_cvrs"], case.get("index"), case.get("dtype"), case.get("cols"))
    if m is None:
        return {"st": "ok", "prep": p}

    def smp_arg():
        # `sample_np`: the sample as the numpy integer array the sampler returns ("sample: numpy array of ints")
        if case.get("sample_np"):
            import numpy as np
            return np.array(list(case["sample"]), dtype=case["sample_np"])
        return list(case["sample"])
    if case["kind"] == "manifest":
        look = []
        for s in case["all"]:
            try:
                cards, so, ph = V.sample_from_manifest(m, [s])
                c = canon_mcard(vendor, cards[0])
                ne = 2 if vendor == "dominion" else 1
                look.append({"st": "ok", "tab": c[ne], "batch": c[ne + 1], "pos": c[ne + 2], "id": c[ne + 3],
                             "_order": canon_order(so), "_phantoms": [x.id for x in ph],
                             "_phantoms_ok": all(phantom_ok(x) for x in ph)})
            except Exception as e:  # noqa
                look.append({"st": "err", "err": err_kind(e)})
        try:
            cards, so, ph = V.sample_from_manifest(m, (smp_arg() if case.get("sample_np") else _cont(case, case["sample"])))
            smp = {"st": "ok", "cards": [canon_mcard(vendor, c) for c in cards], "order": canon_order(so),
                   "phantoms": [x.id for x in ph], "_phantoms_ok": all(phantom_ok(x) for x in ph)}
        except Exception as e:  # noqa
            smp = {"st": "err", "err": err_kind(e)}
        return {"st": "ok", "prep": p, "lookup": look, "sample": smp}
    # kind == "cvrs"
    cvr_list = [CVR(id=c["id"], card_in_batch=c["cib"], phantom=c["phantom"]) for c in case["cvrs"]]
    try:
        cards, so, cs, ph = V.sample_from_cvrs(cvr_list, m, (smp_arg() if case.get("sample_np") else _cont(case, case["sample"])))
        pos = {id(c): i for i, c in enumerate(cvr_list)}
        smp = {"st": "ok", "cards": [[cell(x) if x is not None else "None" for x in c] for c in cards],
               "order": canon_order(so),
               "cvr_sample": [{"id": c.id, "cib": c.card_in_batch, "phantom": bool(c.phantom)} for c in cs],
               "_cvr_idx": [pos.get(id(c), -1) for c in cs],
               "phantoms": [x.id for x in ph], "_phantoms_ok": all(phantom_ok(x) for x in ph)}
    except Exception as e:  # noqa
        smp = {"st": "err", "err": err_kind(e)}
    out = {"st": "ok", "prep": p, "sample": smp}
    if vendor == "dominion" and smp["st"] == "ok" and not any(c["phantom"] for c in case["cvrs"]):
        # the same lookup through the manifest AS READ (not passed through prep_manifest: its tabulator / batch columns may
        # hold numbers, not strings; no cumulative column is needed for a CVR-driven lookup): same cards, same order
        try:
            cl2 = [CVR(id=c["id"], card_in_batch=c["cib"], phantom=c["phantom"]) for c in case["cvrs"]]
            cards2, so2, _cs2, _ph2 = V.sample_from_cvrs(cl2, frame(vendor, case["rows"], case.get("index"), case.get("dtype")),
                                                       list(case["sample"]))
            out["_raw"] = {"st": "ok", "cards": [[cell(x) if x is not None else "None" for x in c] for c in cards2],
                          "order": canon_order(so2)}
        except Exception as e:  # noqa
            out["_raw"] = {"st": "err", "err": err_kind(e), "msg": str(e)[:100]}
    return out


# ------------------------------------------------------------------------------------------- model

def model_rows(rows):
    return [{"tab": str(r["tab"]), "batch": str(r["batch"]), "size": r["size"], "extra": [str(x) for x in r["extra"]]}
            for r in rows]


def request(case):
    if case["kind"] == "prep":
        return ("manifest", "prep_sizes", {"sizes": case["sizes"], "max_cards": case["max_cards"], "n_cvrs": case["n_cvrs"]})
    a = {"vendor": case["vendor"], "rows": model_rows(case["rows"]), "max_cards": case["max_cards"],
         "n_cvrs": case["n_cvrs"], "sample": case["sample"]}
    if case["kind"] == "manifest":
        a["all"] = case["all"]
        return ("manifest", "manifest", a)
    a["cvrs"] = case["cvrs"]
    return ("manifest", "cvrs", a)


def strip(d):
    """drop the oracle-only fields (leading underscore)"""
    if isinstance(d, dict):
        return {k: strip(v) for k, v in d.items() if not k.startswith("_") and k != "msg"}
    if isinstance(d, list):
        return [strip(x) for x in d]
    return d


def first_diff(a, b, path=""):
    if type(a) is not type(b):
        return f"{path}: {a!r} vs {b!r}"
    if isinstance(a, dict):
        for k in sorted(set(a) | set(b)):
            if k not in a or k not in b:
                return f"{path}.{k}: present on one side only"
            d = first_diff(a[k], b[k], f"{path}.{k}")
            if d:
                return d
        return None
    if isinstance(a, list):
        if len(a) != len(b):
            return f"{path}: lengths {len(a)} vs {len(b)}"
        for i, (x, y) in enumerate(zip(a, b)):
            d = first_diff(x, y, f"{path}[{i}]")
            if d:
                return d
        return None
    return None if a == b else f"{path}: impl={a!r} model={b!r}"


def compare(case, ir, mr):
    a, b = strip(ir), strip(mr)
    if case["kind"] == "prep" and a.get("st") == "ok":
        a = {k: v for k, v in a.items() if k != "tabs"}
    return first_diff(a, b)


def signature(case, ir):
    v = case["vendor"][0]
    if "prep" not in ir and case["kind"] != "prep":
        return f"{case['kind']}/{v};harness-err:{ir.get('err')}"
    if case["kind"] == "prep":
        if ir.get("st") != "ok":
            return f"prep/{v};err:{ir.get('err')}"
        return f"prep/{v};" + ("phantom" if ir["phantoms"] else "exact")
    p = ir["prep"]
    sizes = [r["size"] for r in case["rows"]]
    if p["st"] != "ok":
        T = sum(sizes)
        why = "big" if T > case["max_cards"] else ("cvrs" if T < case["n_cvrs"] else "other")
        return f"{case['kind']}/{v};prep-err:{p['err']}:{why}"
    s = ir["sample"]
    tag = ("phantom" if p["phantoms"] else "exact") + (";idx" if case.get("index") is not None else "")
    z = "zeros" if 0 in sizes else "nozeros"
    if not case["sample"] and case["max_cards"] == 0:
        return "trivial:no-cards"
    if s["st"] != "ok":
        return f"{case['kind']}/{v};{tag};{z};sample-err:{s['err']}"
    return f"{case['kind']}/{v};{tag};{z};sample-ok;mvr-phantoms={'yes' if s['phantoms'] else 'no'}"


# ------------------------------------------------------------------------------------------- oracle
# the executable statement of C17 on the implementation's own output; never looks at the model

def check_prep(case, p, sizes):
    T, M, c = sum(sizes), case["max_cards"], case["n_cvrs"]
    must_refuse = T > M or T < c
    if p["st"] != "ok":
        if p["err"] != "AssertionError":
            return f"prep_manifest raised {p['err']} (sizes {sizes}, max_cards {M}, n_cvrs {c})"
        if not must_refuse:
            return f"prep_manifest refused a manifest of {T} cards with max_cards {M}, n_cvrs {c}"
        return None
    if must_refuse:
        return f"prep_manifest accepted a manifest of {T} cards with max_cards {M}, n_cvrs {c}"
    out = p["sizes"] if "sizes" in p else [r["size"] for r in p["rows"]]
    tabs = p["tabs"] if "tabs" in p else [r["tab"] for r in p["rows"]]
    if sum(out) != M:
        return f"prepared manifest accounts for {sum(out)} cards, upper bound is {M}"
    if p["manifest_cards"] != T or p["phantoms"] != M - T:
        return f"manifest_cards={p['manifest_cards']} phantoms={p['phantoms']}, expected {T} and {M - T}"
    if out[: len(sizes)] != sizes:
        return "prep_manifest changed the listed batches"
    if M - T > 0:
        if len(out) != len(sizes) + 1 or out[-1] != M - T or tabs[-1] != "phantom":
            return f"no phantom batch of size {M - T} appended"
    elif len(out) != len(sizes):
        return "a batch was appended although the manifest already accounts for every card"
    if "cum" in p:
        run, acc = [], 0
        for x in out:
            acc += x
            run.append(acc)
        if p["cum"] != run:
            return f"cum_cards {p['cum']} is not the running total {run}"
    return None


def oracle_c17(case, ir):
    if ir.get("st") != "ok" and case["kind"] != "prep":
        return {"what": f"harness-level exception {ir.get('err')}: {ir.get('msg')}"}
    vendor = case["vendor"]
    if case["kind"] == "prep":
        w = check_prep(case, ir, list(case["sizes"]))
        return {"what": w} if w else None
    sizes = [r["size"] for r in case["rows"]]
    p = ir["prep"]
    w = check_prep(case, p, sizes)
    if w:
        return {"what": w}
    if p["st"] != "ok":
        return None
    M = case["max_cards"]
    n_real = len(case["rows"])
    prows = p["rows"]
    if case["kind"] == "manifest":
        labels = [(r["tab"], r["batch"]) for r in prows]
        if len(set(labels)) != len(labels):
            return None            # the generator never does this; lookup by label would be ambiguous
        row_of = {l: i for i, l in enumerate(labels)}
        lo, hi = (1, M) if vendor == "dominion" else (0, M - 1)
        by_s = dict(zip(case["all"], ir["lookup"]))
        seen = {}
        for s in range(lo, hi + 1):
            L = by_s.get(s)
            if L is None:
                continue
            if L["st"] != "ok":
                return {"what": f"{vendor}: valid sample number {s} (range {lo}..{hi}) raised {L['err']}"}
            k = row_of.get((L["tab"], L["batch"]))
            if k is None:
                return {"what": f"{vendor}: sample number {s} mapped to a batch {L['tab']}-{L['batch']} not in the manifest"}
            size = prows[k]["size"]
            okpos = (1 <= L["pos"] <= size) if vendor == "dominion" else (0 <= L["pos"] < size)
            if not okpos:
                return {"what": f"{vendor}: sample number {s} mapped to position {L['pos']} of batch #{k} "
                                f"({L['tab']}-{L['batch']}) which holds {size} cards"}
            if (k, L["pos"]) in seen:
                return {"what": f"{vendor}: sample numbers {seen[(k, L['pos'])]} and {s} both map to card "
                                f"{L['pos']} of batch #{k}"}
            seen[(k, L["pos"])] = s
            in_ph = (k >= n_real)
            if bool(L["_phantoms"]) != in_ph or (in_ph and (L["_phantoms"] != [L["id"]] or not L["_phantoms_ok"])):
                return {"what": f"{vendor}: sample number {s} lies {'in' if in_ph else 'outside'} the phantom batch "
                                f"but phantom manual records returned = {L['_phantoms']}"}
            if [x[:2] for x in L["_order"]] != [[L["id"], 0]]:
                return {"what": f"sample_order for the single draw {s} is {L['_order']}"}
        if len(seen) != sum(r["size"] for r in prows) and len(by_s) >= hi - lo + 1:
            return {"what": f"{vendor}: {len(seen)} cards reached from the valid range, prepared manifest lists {sum(r['size'] for r in prows)}"}
        # the drawn sample
        smp, sample = ir["sample"], case["sample"]
        if all(lo <= s <= hi for s in sample):
            if smp["st"] != "ok":
                return {"what": f"{vendor}: sample {sample} of valid numbers raised {smp['err']}"}
            ids = [by_s[s]["id"] for s in sample]
            order = {k: (a, b) for k, a, b in smp["order"]}
            for i, (s, cid) in enumerate(zip(sample, ids)):
                if cid not in order:
                    return {"what": f"draw {i} (number {s}, card {cid}) missing from sample_order"}
                sel, serial = order[cid]
                draws = [j for j, t in enumerate(sample) if t == s]
                if sel not in draws:
                    return {"what": f"card {cid} drawn at position(s) {draws} as number {s} has "
                                    f"selection_order={sel}"}
            if len(order) != len(set(ids)):
                return {"what": "sample_order has entries for cards that were not drawn"}
            want_ph = [cid for s, cid in zip(sample, ids) if row_of[(by_s[s]["tab"], by_s[s]["batch"])] >= n_real]
            if smp["phantoms"] != want_ph or not smp["_phantoms_ok"]:
                return {"what": f"phantom manual records {smp['phantoms']}, cards drawn from the phantom batch {want_ph}"}
            ic = 3 if vendor == "hart" else 4
            if sorted(c[ic + 1] for c in smp["cards"]) != sorted(ids):
                return {"what": f"cards list names {[c[ic + 1] for c in smp['cards']]}, drawn {ids}"}
        return None
    # kind == "cvrs"
    smp, sample, cvrs = ir["sample"], case["sample"], case["cvrs"]
    if not case.get("wellformed") or any(s >= len(cvrs) for s in sample):
        return None
    if smp["st"] != "ok":
        return {"what": f"{vendor}: sample_from_cvrs on well-formed CVRs raised {smp['err']}"}
    if smp["_cvr_idx"] != list(sample):
        return {"what": f"cvr_sample holds CVRs #{smp['_cvr_idx']}, sample was {sample}"}
    raw = ir.get("_raw")
    if raw is not None and (raw["st"] != "ok" or raw["cards"] != smp["cards"] or raw["order"] != smp["order"]):
        return {"what": f"{vendor}: the CVR-driven lookup through the manifest as read (columns {[type(r['tab']).__name__ for r in case['rows']][:1]}) "
                        f"gives {raw.get('err') or raw.get('cards')}, through the prepared manifest {smp['cards']}"}
    order = {k: (a, b) for k, a, b in smp["order"]}
    idcol = 5 if vendor == "dominion" else None
    for i, s in enumerate(sample):
        cid = cvrs[s]["id"]
        if cid not in order:
            return {"what": f"draw {i}: CVR {cid} has no entry in sample_order (keys {list(order)})"}
        draws = [j for j, t in enumerate(sample) if t == s]
        if order[cid][0] not in draws:
            return {"what": f"CVR {cid} drawn at {draws}: selection_order={order[cid][0]}"}
    card_ids = sorted((c[idcol] if idcol is not None else c[-1]) for c in smp["cards"])
    if card_ids != sorted(cvrs[s]["id"] for s in sample):
        return {"what": f"card identifiers {card_ids} do not match the sampled CVR ids"}
    want_ph = [cvrs[s]["id"] for s in sample if cvrs[s]["phantom"]]
    if smp["phantoms"] != want_ph or not smp["_phantoms_ok"]:
        return {"what": f"phantom manual records {smp['phantoms']}, phantom CVRs drawn {want_ph}"}
    # where to find the card: the entry of a sampled CVR that is not a phantom must name the listed batch that holds it
    # (Hart: that batch's tabulator; Dominion: its tabulator, cart and tray) -- never the appended phantom batch, whose
    # cards are exactly the phantom CVRs
    real = case["rows"]
    by_id = {(c[idcol] if idcol is not None else c[-1]): c for c in smp["cards"]}
    for s in sample:
        if cvrs[s]["phantom"]:
            continue
        cid = cvrs[s]["id"]
        c = by_id[cid]
        if vendor == "hart":
            batch = cid.split("_")[0]
            holders = [r for r in real if str(r["batch"]) == batch]
            where, ok = c[:2], any([str(r["tab"]), str(r["batch"])] == c[:2] for r in holders)
        else:
            tab, batch = cid.split("-")[:2]
            holders = [r for r in real if (str(r["tab"]), str(r["batch"])) == (tab, batch)]
            where, ok = c[:4], any([str(r["extra"][0]), str(r["extra"][1]), str(r["tab"]), str(r["batch"])] == c[:4]
                                   for r in holders)
        if holders and not ok:
            return {"what": f"{vendor}: sampled CVR {cid} (not a phantom) is reported at {where}; the manifest lists its "
                            f"batch as {[(r['tab'], r['batch'], r['extra']) for r in holders]}"
                            + (" -- 'phantom' is the appended phantom batch" if "phantom" in where else "")}
    return None


def oracle_c08(case, ir):
    """the part of C08 that lives in the two format modules, on the implementation's own output: after the phantom
    batch is created the prepared manifest accounts for exactly the stratum's card bound (real cards first and
    unchanged, no more phantoms than the shortfall), and a phantom manual record -- flagged phantom, no votes,
    identifiers distinct -- is returned exactly for the cards of the phantom batch / the phantom CVRs drawn.
    Refusals (manifest above the bound or below the number of CVRs) and the card lookup itself are C17's."""
    if ir.get("st") != "ok" and case["kind"] != "prep":
        return {"what": f"harness-level exception {ir.get('err')}: {ir.get('msg')}"}
    vendor = case["vendor"]
    sizes = list(case["sizes"]) if case["kind"] == "prep" else [r["size"] for r in case["rows"]]
    p = ir if case["kind"] == "prep" else ir["prep"]
    T, M, c = sum(sizes), case["max_cards"], case["n_cvrs"]
    if T > M or T < c:
        return None                 # outside C08's quantifier (bounds >= the number of records)
    if p["st"] != "ok":
        return {"what": f"{vendor}: phantom creation in prep_manifest raised {p['err']} "
                        f"(batch sizes {sizes}, max_cards {M}, n_cvrs {c}, index {case.get('index')})"}
    out = p["sizes"] if "sizes" in p else [r["size"] for r in p["rows"]]
    if sum(out) != M or ("cum" in p and (p["cum"][-1] if p["cum"] else 0) != M):
        return {"what": f"{vendor}: after phantom creation the manifest accounts for {sum(out)} cards "
                        f"(cum_cards ends at {p['cum'][-1] if p.get('cum') else None}); the card bound is {M} "
                        f"(batch sizes {sizes}, n_cvrs {c})"}
    if p["phantoms"] != M - T or sum(out[len(sizes):]) != M - T:
        return {"what": f"{vendor}: {p['phantoms']} phantoms reported, phantom batch of {sum(out[len(sizes):])} cards; "
                        f"the shortfall is max_cards - cards listed = {M} - {T} = {M - T} (n_cvrs {c})"}
    if out[: len(sizes)] != sizes:
        return {"what": f"{vendor}: the listed batches do not come back unchanged and first: {out} from {sizes}"}
    if case["kind"] == "prep":
        return None
    n_real = len(case["rows"])
    if case["kind"] == "manifest":
        prows = p["rows"]
        labels = [(r["tab"], r["batch"]) for r in prows]
        if len(set(labels)) != len(labels):
            return None
        row_of = {l: i for i, l in enumerate(labels)}
        lo, hi = (1, M) if vendor == "dominion" else (0, M - 1)
        by_s = dict(zip(case["all"], ir["lookup"]))
        ph_ids = []
        for s_ in range(lo, hi + 1):
            L = by_s.get(s_)
            if L is None or L["st"] != "ok":
                continue            # the lookup is C17's
            k = row_of.get((L["tab"], L["batch"]))
            if k is None:
                continue
            in_ph = k >= n_real
            if bool(L["_phantoms"]) != in_ph or (in_ph and not L["_phantoms_ok"]):
                return {"what": f"{vendor}: card number {s_} lies {'in' if in_ph else 'outside'} the phantom batch but "
                                f"the phantom manual records returned for it are {L['_phantoms']}"
                                + ("" if L["_phantoms_ok"] else " (not flagged phantom / carrying votes)")}
            ph_ids += L["_phantoms"]
        if len(by_s) >= hi - lo + 1 and all(by_s[s_]["st"] == "ok" for s_ in range(lo, hi + 1)):
            if len(ph_ids) != M - T or len(set(ph_ids)) != len(ph_ids):
                return {"what": f"{vendor}: drawing every card {lo}..{hi} gives {len(ph_ids)} phantom manual records "
                                f"({len(set(ph_ids))} distinct ids); the shortfall is {M - T}"}
        smp, sample = ir["sample"], case["sample"]
        if smp["st"] == "ok" and all(lo <= s_ <= hi and by_s[s_]["st"] == "ok" for s_ in sample):
            want = [by_s[s_]["id"] for s_ in sample
                    if row_of.get((by_s[s_]["tab"], by_s[s_]["batch"]), -1) >= n_real]
            if smp["phantoms"] != want or not smp["_phantoms_ok"]:
                return {"what": f"{vendor}: phantom manual records {smp['phantoms']} for the sample {sample}; the cards "
                                f"drawn from the phantom batch are {want}"}
        return None
    smp, sample, cvrs = ir["sample"], case["sample"], case["cvrs"]
    if not case.get("wellformed") or any(s_ >= len(cvrs) for s_ in sample) or smp["st"] != "ok":
        return None
    want = [cvrs[s_]["id"] for s_ in sample if cvrs[s_]["phantom"]]
    if smp["phantoms"] != want or not smp["_phantoms_ok"]:
        return {"what": f"{vendor}: phantom manual records {smp['phantoms']}, phantom CVRs drawn {want}"}
    return None


ORACLES = {"C17": oracle_c17, "C08": oracle_c08}
