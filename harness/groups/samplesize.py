"""
Correspondence group `samplesize` (property C16): the sample-size estimators of SHANGRLA vs Shangrla.SS.* /
Shangrla.NM.sampleSize.

  op "nm"            NonnegMean.sample_size (deterministic; simulation with seeds, prefix, quantile)
  op "find"          Assertion.find_sample_size on a real Contest/Assertion/Assorter/NonnegMean
                     (POLLING from the tally, CARD_COMPARISON, ONEAUDIT, data given, error branches)
  op "interleave"    Assertion.interleave_values
  op "contest"       Contest.find_sample_size (assertions made by make_plurality_assertions)
  op "audit_contest" Audit.find_sample_size: con.sample_size = max over the unproved assertions
  op "audit"         Audit.find_sample_size on 2-4 contests in one call (dict orders, style / no style, polling,
                     comparison, ONEAudit with the error injection): every con.sample_size and the returned total;
                     with style information also every cvr.p (cards already sampled, phantoms, cards listing a subset
                     of the contests, contests with no cards left to draw) -- also for "audit_contest"
  op "raire"         shangrla/raire/sample_estimator.py: sample_size

Numbers in a case are exact "p/q" strings: the implementation receives float(p/q), the model p/q.
The random tails of the simulation branch are reproduced from the generator the code uses
(np.random.RandomState(seed), one `choice` of size ran_len per repetition, in the code's order) as index
streams (`prng.choice(x, n)` is `x[prng.choice(arange(len(x)), n)]`) and handed to the model, whose
theorems quantify over all tails.  The populations the code hands to NonnegMean.sample_size are
observed with a pass-through wrapper around that method.
"""
import math, types
from fractions import Fraction as F
import numpy as np

from ..core import fr, impl_call, case_key
from . import nm as NMG

NAME = "samplesize"
RULE = ("nm: test x estimator/bet configs of group nm with finite N <= 60 (quick) / 400 (thorough), pilot "
        "vectors non-constant (and a few constant), shorter than N (and a few = N), alpha on a grid, reps None or "
        "1..5 with random seed / prefix / quantile, prefixes that cross on their own; find: real Contest+Assertion "
        "objects (direct constructors, or Contest.from_dict + make_plurality_assertions + find_margins_from_tally) "
        "for POLLING (tally incl. zeros, inconsistent totals), CARD_COMPARISON, ONEAUDIT with rate_1/rate_2 on a "
        "grid incl. 0, None, 1, >1, negative; data given; IRV / missing tally / unknown audit type / margin <= 0 / "
        "margin None / N = inf / upper bound 0; interleave: triples of small counts incl. zeros, negatives, equal "
        "values; contest/audit_contest: 1-4 assertions, with and without MVR sample, proved flags; audit: the real "
        "Audit.find_sample_size on 2-4 contests in one call (tight and landslide contests in random dict order, "
        "use_style True/False, POLLING / CARD_COMPARISON / ONEAUDIT incl. the error injection, with and without MVRs, "
        "proved flags; every con.sample_size and the returned total of both branches are compared; style cases "
        "(audit and audit_contest): 0-24 cards of which some are already sampled, some phantoms, some list only a subset "
        "of the contests or none, con.cards at the time of the call equal to / one below / one above the number of the "
        "contest's cards already sampled (cards - old = 0: inf / nan, OverflowError / ValueError) or equal to the number of "
        "(non-phantom) cards listing it; every cvr.p after the call and the total are compared with the exact model values); raire: both "
        "branches. Excluded from the diff (counted as fragile, still seen by the oracle): a float comparison within "
        "1e-9 of its threshold (history entry vs risk limit, null mean vs 0 or u, total vs N t), int(1/rate) "
        "differing between float and exact arithmetic, alternative eta within ulps of u, a factor of the running product below 1e-6 (all only up to the model's first "
        "crossing); the exact sum of the cvr.p within 1e-9 of an integer with a summand that is not a binary fraction "
        "(math.ceil of the float sum may differ by one). non-trivial = not a "
        "constant pilot, not a single interleaved value; distinct = distinct canonical input")
EXHAUSTIVE = {"quick": False, "thorough": False}
RULE += "; option stream (n/10 more cases, own generator, OPTIONS_AUDIT.md): optional arguments of NonnegMean.sample_size / Assertion.find_sample_size / interleave_values / sample_estimator.sample_size that hold their documented defaults left out of the call, pilot sample as a Python list"

S = NMG.S
_CACHE = {}


def flt(v):
    return None if v is None else float(F(v))


# ---------------------------------------------------------------------------------------------
# observation of the population handed to NonnegMean.sample_size

class Spy:
    """pass-through wrapper around NonnegMean.sample_size that records its arguments"""

    def __enter__(self):
        from shangrla.core.NonnegMean import NonnegMean as NM
        self.NM, self.orig, self.calls = NM, NM.sample_size, []
        spy = self

        import inspect
        sig = inspect.signature(self.orig)

        def wrapper(nmself, *args, **kwargs):
            # the caller's arguments go through UNCHANGED (an argument the caller leaves out stays left out: the real
            # function's own defaults apply); what is recorded is what the real signature binds them to
            b = sig.bind(nmself, *args, **kwargs)
            b.apply_defaults()
            a = b.arguments
            spy.calls.append({"x": [float(v) for v in np.asarray(a["x"], dtype=float)], "N": nmself.N, "reps": a["reps"],
                              "prefix": bool(a["prefix"]), "seed": a["kwargs"].get("seed", 1234567890)})
            return spy.orig(nmself, *args, **kwargs)

        NM.sample_size = wrapper
        return self

    def __exit__(self, *a):
        self.NM.sample_size = self.orig
        return False


def tails_idx(call):
    """the index streams of the random tails of one recorded call (None when reps is None)"""
    if call["reps"] is None:
        return None
    L, N = len(call["x"]), call["N"]
    try:
        ran_len = (N - L) if call["prefix"] else N
        prng = np.random.RandomState(call["seed"])
        return [[int(i) for i in prng.choice(np.arange(L), size=ran_len, replace=True)] for _ in range(int(call["reps"]))]
    except Exception:
        return []


# ---------------------------------------------------------------------------------------------
# building the real objects

def build_contest(asn, glue_test=False, cid="c"):
    from shangrla.core.Audit import Contest
    from shangrla.core.NonnegMean import NonnegMean as NM
    d = {"id": cid, "name": cid, "risk_limit": flt(asn["risk_limit"]), "cards": asn["cards"],
         "choice_function": "IRV" if asn["irv"] else "PLURALITY", "n_winners": 1,
         "candidates": asn.get("candidates") or [asn["winner"], asn["loser"]], "winner": [asn["winner"]],
         "audit_type": asn["audit_type"], "use_style": asn.get("use_style", True),
         "tally": None if asn["tally"] is None else {k: v for k, v in asn["tally"]}, "sample_threshold": 10 ** 9}
    if glue_test:
        init = asn["init"]
        d["test"] = getattr(NM, init["test"]) if init.get("test") else None
        d["estim"] = getattr(NM, init["estim"]) if init.get("estim") else None
        d["bet"] = getattr(NM, init["bet"]) if init.get("bet") else None
        if init["kw"].get("g") is not None:
            d["g"] = flt(init["kw"]["g"])
    return Contest.from_dict(d)


def build_assertion(asn):
    """asn["glue"]: through Contest.from_dict + make_plurality_assertions + find_margins_from_tally,
    otherwise the constructors directly (arbitrary margin / upper bound / test)"""
    from shangrla.core.Audit import Assertion, Assorter, CVR
    if asn.get("glue"):
        con = build_contest(asn, glue_test=True)
        kw = {k: flt(v) for k, v in asn["init"]["kw"].items() if v is not None and k != "g"}
        con.assertions = Assertion.make_plurality_assertions(con, winner=[asn["winner"]], loser=[asn["loser"]],
                                                             test_kwargs=kw)
        con.find_margins_from_tally()
        a = con.assertions[asn["winner"] + " v " + asn["loser"]]
        if asn["init"].get("u_now") is not None:
            a.test.u = flt(asn["init"]["u_now"])
        return a
    con = build_contest(asn)
    w, l = asn["winner"], asn["loser"]
    assorter = Assorter(contest=con, upper_bound=flt(asn["upper_bound"]),
                        assort=lambda c: (CVR.as_vote(c.get_vote_for("c", w)) - CVR.as_vote(c.get_vote_for("c", l)) + 1) / 2)
    return Assertion(con, winner=w, loser=l, assorter=assorter, margin=flt(asn["margin"]), test=NMG.make_nm(asn["init"]))


def build_multi_c(c, proved=None, cid="c"):
    """contest `c` (id `cid`) with the assertions made by make_plurality_assertions"""
    from shangrla.core.Audit import Assertion
    asn0 = {"risk_limit": c["risk_limit"], "cards": c["cards"], "irv": c.get("irv", False), "winner": c["winners"][0],
            "loser": c["losers"][0], "candidates": c["candidates"], "audit_type": c["audit_type"],
            "tally": c["tally"], "init": c["init"], "use_style": c.get("use_style", True)}
    con = build_contest(asn0, glue_test=True, cid=cid)
    con.winner = list(c["winners"])
    kw = {k: flt(v) for k, v in c["init"]["kw"].items() if v is not None and k != "g"}
    con.assertions = Assertion.make_plurality_assertions(con, winner=c["winners"], loser=c["losers"], test_kwargs=kw)
    con.find_margins_from_tally()
    for i, (key, a) in enumerate(con.assertions.items()):
        if c["audit_type"] != "POLLING" and a.margin is not None and 2 - a.margin != 0:
            a.test.u = 2 / (2 - a.margin / a.assorter.upper_bound)   # as set_margin_from_cvrs does
        if proved and proved[i]:
            a.proved = True
    return con


def build_multi(case):
    """contest with several assertions made by make_plurality_assertions (contest / audit_contest)"""
    return build_multi_c(case["contest"], case.get("proved"))


def card_votes(card):
    """the contests of a card dict (keys starting with "_" are flags, not contests)"""
    return {cid: v for cid, v in card.items() if not cid.startswith("_")}


def build_cards(cards):
    """CVR objects from a list of {contest id: candidate | None (contest on the card, no vote)}; a card may list only
    some of the contests or none; the reserved keys "_sampled" / "_phantom" set the CVR's `sampled` / `phantom` flag"""
    from shangrla.core.Audit import CVR
    return CVR.from_dict([{"id": str(i), "votes": {cid: ({v: True} if v is not None else {}) for cid, v in card_votes(card).items()},
                           "sample_num": i, "sampled": bool(card.get("_sampled", False)),
                           "phantom": bool(card.get("_phantom", False))} for i, card in enumerate(cards)])


def obs_p(cvrs):
    """the `p` attribute of every CVR after the call (None where the code did not set it)"""
    return None if cvrs is None else [None if c.p is None else float(c.p) for c in cvrs]


def build_audit_multi(case):
    """(audit, {id: contest}) of an `audit` case, contests in the case's (dict) order"""
    from shangrla.core.Audit import Audit
    au = case["audit"]
    audit = Audit.from_dict({"quantile": flt(au["quantile"]), "error_rate_1": flt(au["rate_1"]),
                             "error_rate_2": flt(au["rate_2"]), "reps": au["reps"], "sim_seed": au["seed"],
                             "strata": {"s": {"max_cards": max(c["cards"] for c in case["contests"]),
                                              "use_style": case["use_style"], "replacement": False}}})
    contests = {c["id"]: build_multi_c(dict(c, use_style=case["use_style"]), c.get("proved"), cid=c["id"])
                for c in case["contests"]}
    for c in case["contests"]:
        if c.get("cards_now") is not None:
            # the contest's `cards` attribute at the time of the call (read only by the tail of Audit.find_sample_size:
            # `con.sample_size / (con.cards - old_sizes[c])`); tests, margins and tallies were made with c["cards"]
            contests[c["id"]].cards = c["cards_now"]
    return audit, contests


def run_audit(case, only=None, spy=None):
    """the real Audit.find_sample_size on the case's contests (or on the single contest `only`)"""
    audit, contests = build_audit_multi(case)
    if only is not None:
        contests = {only: contests[only]}
    cvrs = None if case["cvrs"] is None else build_cards(case["cvrs"])
    mvr = None if case["mvr"] is None else build_cards(case["mvr"])
    cvr = None if case.get("cvr") is None else build_cards(case["cvr"])
    if spy is not None and case.get("warm"):
        def earlier(r1, r2):
            a2, _ = build_audit_multi(case)
            a2.error_rate_1, a2.error_rate_2 = r1, r2
            a2.find_sample_size(contests, cvrs=None if case["cvrs"] is None else build_cards(case["cvrs"]),
                                mvr_sample=None, cvr_sample=None)
        _warm(case, spy, contests=contests, call=earlier)
    tot = audit.find_sample_size(contests, cvrs=cvrs, mvr_sample=mvr, cvr_sample=cvr)
    return {cid: int(con.sample_size) for cid, con in contests.items()}, float(tot), obs_p(cvrs)


def build_audit(case):
    from shangrla.core.Audit import Audit
    au = case["audit"]
    return Audit.from_dict({"quantile": flt(au["quantile"]), "error_rate_1": flt(au["rate_1"]),
                            "error_rate_2": flt(au["rate_2"]), "reps": au["reps"], "sim_seed": au["seed"],
                            "strata": {"s": {"max_cards": case["contest"]["cards"], "use_style": True,
                                             "replacement": False}}})


def build_cvrs(votes, sampled=False):
    """CVRs of a one-contest case (contest id "c"): an entry is a candidate, None (contest on the card, no vote), or
    {"v": candidate | None, "has": bool, "sampled": bool, "phantom": bool}"""
    from shangrla.core.Audit import CVR
    out = []
    for i, v in enumerate(votes):
        e = v if isinstance(v, dict) else {"v": v, "has": True, "sampled": sampled, "phantom": False}
        out.append({"id": str(i), "votes": ({"c": ({e["v"]: True} if e["v"] is not None else {})} if e.get("has", True) else {}),
                    "sample_num": i, "sampled": bool(e.get("sampled", sampled)), "phantom": bool(e.get("phantom", False))})
    return CVR.from_dict(out)


# ---------------------------------------------------------------------------------------------
# implementation

def _warm(case, spy, contests=None, assertion=None, audit=None, call=None):
    """`case["warm"]`: the objects are not fresh -- they carry the estimates of an earlier planning step.
    {"attr": k}: every Contest / Assertion has sample_size = k (as the constructors and from_dict accept it, e.g. when an
    audit is resumed from its log); {"call": {...}}: the same entry point was called before on the same objects with other
    assumed error rates (and no audited sample).  An estimate is a function of the current call's arguments, so neither may show in the result."""
    w = case.get("warm")
    if not w:
        return
    if w.get("attr") is not None:
        for con in (contests or {}).values():
            con.sample_size = w["attr"]
            for a in con.assertions.values():
                a.sample_size = w["attr"]
        if assertion is not None:
            assertion.sample_size = w["attr"]
            assertion.contest.sample_size = w["attr"]
    if w.get("call") is not None and call is not None:
        try:
            call(flt(w["call"]["rate_1"]), flt(w["call"]["rate_2"]))
        except Exception:  # noqa: the earlier step may fail; the observed call is what counts
            pass
    spy.calls.clear()


def _is_default(v, d):
    if v is None or d is None:
        return v is None and d is None
    if isinstance(v, np.ndarray):
        return False
    if isinstance(v, bool) or isinstance(d, bool):
        return isinstance(v, bool) and isinstance(d, bool) and v == d
    return v == d


def _drop_defaults(args, defaults):
    """the keyword arguments of a call without those whose value equals the documented default"""
    return {k: v for k, v in args.items() if not (k in defaults and _is_default(v, defaults[k]))}


def _flag(case, v):
    """a boolean flag as the caller may hold it: a Python bool, a numpy bool (np.any(...), a comparison) or 0/1"""
    ft = case.get("flag_type")
    return np.bool_(v) if ft == "np" else (int(v) if ft == "int" else v)


def observe(case):
    """run the real code under the spy; returns (result dict, recorded calls)"""
    op = case["op"]
    with Spy() as spy:
        try:
            # case["call"] == "defaults": every optional argument whose value in the case IS the documented default is
            # left out of the call (the case says alpha = 1/20, the call says nothing); same inputs, same model request
            dflt = case.get("call") == "defaults"
            if op == "nm":
                nm = NMG.make_nm(case["init"])
                x = [flt(v) for v in case["x"]]
                if case.get("x_form") != "list":        # "x: list or np.array"
                    x = np.array(x, dtype=float)
                kw = {} if case["reps"] is None and case.get("seed") is None else {"seed": case["seed"]}
                args = dict(alpha=flt(case["alpha"]), reps=case["reps"], prefix=_flag(case, case["prefix"]), quantile=flt(case["quantile"]), **kw)
                if dflt:
                    args = _drop_defaults(args, {"alpha": 0.05, "reps": None, "prefix": False, "quantile": 0.5, "seed": 1234567890})
                n = nm.sample_size(x, **args)
                res = {"st": "ok", "n": int(n)}
            elif op == "find":
                a = build_assertion(case["asn"])
                data = None if case["data"] is None else np.array([flt(v) for v in case["data"]], dtype=float)
                _warm(case, spy, assertion=a, call=lambda r1, r2: a.find_sample_size(
                    data=None, prefix=False, rate_1=r1, rate_2=r2, reps=None, quantile=0.5, seed=case["seed"]))
                args = dict(data=data, prefix=_flag(case, case["prefix"]), rate_1=flt(case["rate_1"]), rate_2=flt(case["rate_2"]),
                            reps=case["reps"], quantile=flt(case["quantile"]), seed=case["seed"])
                if dflt:
                    args = _drop_defaults(args, {"data": None, "prefix": False, "rate_1": None, "rate_2": None, "reps": None,
                                                 "quantile": 0.5, "seed": 1234567890})
                n = a.find_sample_size(**args)
                res = {"st": "ok", "n": int(n), "attr": int(a.sample_size)}
            elif op == "interleave":
                from shangrla.core.Audit import Assertion
                args = dict(small=flt(case["small"]), med=flt(case["med"]), big=flt(case["big"]))
                if dflt:
                    args = _drop_defaults(args, {"small": 0, "med": 0.5, "big": 1})
                x = Assertion.interleave_values(case["n_small"], case["n_med"], case["n_big"], **args)
                res = {"st": "ok", "x": [float(v) for v in x]}
            elif op == "contest":
                con = build_multi(case)
                audit = build_audit(case)
                mvr = None if case["mvr"] is None else build_cvrs(case["mvr"])
                cvr = None if case.get("cvr") is None else build_cvrs(case["cvr"])

                def earlier(r1, r2, con=con, case=case):
                    a2 = build_audit(case)
                    a2.error_rate_1, a2.error_rate_2 = r1, r2
                    con.find_sample_size(a2, mvr_sample=None,
                                         cvr_sample=cvr if case["contest"]["audit_type"] == "ONEAUDIT" else None)
                _warm(case, spy, contests={"c": con}, call=earlier)
                n = con.find_sample_size(audit, mvr_sample=mvr, cvr_sample=cvr)
                res = {"st": "ok", "n": int(n), "attr": int(con.sample_size)}
            elif op == "audit_contest":
                con = build_multi(case)
                audit = build_audit(case)
                mvr = None if case["mvr"] is None else build_cvrs(case["mvr"])
                cvr = None if case.get("cvr") is None else build_cvrs(case["cvr"])
                cvrs = build_cvrs(case["cvrs"])

                def earlier(r1, r2, con=con, case=case):
                    a2 = build_audit(case)
                    a2.error_rate_1, a2.error_rate_2 = r1, r2
                    a2.find_sample_size({"c": con}, cvrs=build_cvrs(case["cvrs"]), mvr_sample=None, cvr_sample=None)
                _warm(case, spy, contests={"c": con}, call=earlier)
                if case["contest"].get("cards_now") is not None:
                    con.cards = case["contest"]["cards_now"]
                tot = audit.find_sample_size({"c": con}, cvrs=cvrs, mvr_sample=mvr, cvr_sample=cvr)
                res = {"st": "ok", "n": int(con.sample_size), "total": float(tot), "p": obs_p(cvrs)}
            elif op == "audit":
                sizes, tot, ps = run_audit(case, spy=spy)
                res = {"st": "ok", "sizes": [sizes[c["id"]] for c in case["contests"]], "total": tot, "p": ps}
            elif op == "raire":
                from shangrla.raire.sample_estimator import sample_size
                args = types.SimpleNamespace(erate1=flt(case["erate1"]), erate2=flt(case["erate2"]),
                                             rlimit=flt(case["rlimit"]), reps=case["reps"], seed=case["seed"])
                opt = dict(upper_bound=flt(case["upper_bound"]), polling=case["polling"])
                if dflt:
                    opt = _drop_defaults(opt, {"upper_bound": 1, "polling": False})
                n = sample_size(flt(case["mean"]), case["tw"], case["tl"], case["to"], args, case["N"], **opt)
                res = {"st": "ok", "n": int(n)}
            else:
                raise ValueError(op)
        except Exception as e:  # noqa
            from ..core import err_kind
            res = {"st": "err", "err": err_kind(e), "msg": str(e)[:200]}
    calls = spy.calls
    if calls and op in ("find", "raire"):
        res["pop"] = calls[0]["x"]
    if op in ("contest", "audit_contest", "audit"):
        res["pops"] = [c["x"] for c in calls]
    return res, calls


def observed(case):
    k = case_key(case)
    if k not in _CACHE:
        import warnings
        with warnings.catch_warnings():
            warnings.simplefilter("ignore")
            with np.errstate(all="ignore"):
                _CACHE[k] = observe(case)
        if len(_CACHE) > 200000:
            _CACHE.clear()
    return _CACHE[k]


def impl(case):
    return dict(observed(case)[0])


# ---------------------------------------------------------------------------------------------
# model request

def asn_json(asn):
    return {"audit_type": asn["audit_type"], "irv": asn["irv"], "tally": asn["tally"], "winner": asn["winner"],
            "loser": asn["loser"], "upper_bound": asn["upper_bound"], "margin": asn["margin"],
            "risk_limit": asn["risk_limit"], "init": asn["init"]}


def items_of(c, op, has_mvr, reps, proved, calls, ci=0, base=None):
    """the model's view of the assertions of contest `c`, in the code's order; `calls[ci:]` are the recorded calls
    of NonnegMean.sample_size that belong to it; returns (items, next ci).  `base[i]`: raw ONEAudit data of
    assertion i (op "audit"), into which the model writes the assumed errors itself"""
    tl = {k: v for k, v in c["tally"]} if c["tally"] is not None else {}
    items = []
    pairs = [(w, l) for w in c["winners"] for l in c["losers"]]
    proved = proved or [False] * len(pairs)
    for i, (w, l) in enumerate(pairs):
        m = F(tl[w] - tl[l], c["cards"])
        init = dict(c["init"])
        if c["audit_type"] != "POLLING":
            # build_multi sets test.u = 2/(2 - margin/upper_bound) in floats (as set_margin_from_cvrs does); the MVR data
            # are floats too (an overstatement of -1 equals u exactly), so the model gets that float exactly
            mf = (tl[w] - tl[l]) / c["cards"]
            init["u_now"] = fr(2 / (2 - mf / 1)) if 2 - mf != 0 else None
        asn = {"audit_type": c["audit_type"], "irv": c.get("irv", False), "tally": c["tally"], "winner": w, "loser": l,
               "upper_bound": "1", "margin": S(m), "risk_limit": c["risk_limit"], "init": init}
        it = {"a": asn_json(asn), "proved": bool(proved[i]), "tails": None, "mvr_data": None, "cvr_data": None}
        skipped = op in ("audit_contest", "audit") and proved[i]
        if base is not None and base[i] is not None:
            it["cvr_data"] = [fr(v) for v in base[i]]
        if not skipped and ci < len(calls):
            call = calls[ci]
            ci += 1
            it["tails"] = tails_idx(call)
            if has_mvr:
                it["mvr_data"] = [fr(v) for v in call["x"]]
            elif c["audit_type"] == "ONEAUDIT" and base is None:
                it["cvr_data"] = [fr(v) for v in call["x"]]
        elif not skipped and reps is not None:
            it["tails"] = []
        items.append(it)
    return items, ci


def multi_items(case, calls):
    """`contest` / `audit_contest`: one contest"""
    return items_of(case["contest"], case["op"], case["mvr"] is not None, case["audit"]["reps"],
                    case.get("proved"), calls)[0]


def oneaudit_base(case):
    """{contest id: [raw asn.mvrs_to_data(cvrs, cvrs, use_all=True)[0] per assertion]} from the real code, for the
    ONEAudit contests of an `audit` case without MVRs"""
    out = {}
    if case["mvr"] is not None or case["cvrs"] is None:
        return out
    _, contests = build_audit_multi(case)
    for c in case["contests"]:
        if c["audit_type"] != "ONEAUDIT":
            continue
        rows = []
        for a in contests[c["id"]].assertions.values():
            cv = build_cards(case["cvrs"])
            r = impl_call(lambda a=a, cv=cv: a.mvrs_to_data(cv, cv, use_all=True)[0])
            rows.append(None if isinstance(r, dict) else [float(v) for v in r])
        out[c["id"]] = rows
    return out


def audit_request(case, calls):
    au = case["audit"]
    base = oneaudit_base(case)
    ci, cs = 0, []
    for c in case["contests"]:
        items, ci = items_of(c, "audit", case["mvr"] is not None, au["reps"], c.get("proved"), calls, ci, base.get(c["id"]))
        cs.append({"audit_type": c["audit_type"], "items": items})
    return {"has_mvr": case["mvr"] is not None, "contests": cs, "rate_1": au["rate_1"], "rate_2": au["rate_2"],
            "quantile": au["quantile"], "style": style_json(case)}


def tail_cards(case):
    """the cards of a style case as the tail of Audit.find_sample_size reads them:
    [{"contests": [ids on the card], "sampled": bool, "phantom": bool}]"""
    if case["op"] == "audit_contest":
        out = []
        for v in case["cvrs"]:
            e = v if isinstance(v, dict) else {"v": v, "has": True, "sampled": False, "phantom": False}
            out.append({"contests": ["c"] if e.get("has", True) else [], "sampled": bool(e.get("sampled", False)),
                        "phantom": bool(e.get("phantom", False))})
        return out
    return [{"contests": list(card_votes(card)), "sampled": bool(card.get("_sampled", False)),
             "phantom": bool(card.get("_phantom", False))} for card in case["cvrs"]]


def tail_contests(case):
    """[(id, con.cards at the time of the call)] in dict order"""
    if case["op"] == "audit_contest":
        c = case["contest"]
        return [("c", c["cards_now"] if c.get("cards_now") is not None else c["cards"])]
    return [(c["id"], c["cards_now"] if c.get("cards_now") is not None else c["cards"]) for c in case["contests"]]


def has_style(case):
    return (case["op"] == "audit_contest" or (case["op"] == "audit" and case["use_style"])) and case.get("cvrs") is not None


def style_json(case):
    if not has_style(case):
        return None
    cs = tail_contests(case)
    return {"ids": [i for i, _ in cs], "cards": [n for _, n in cs], "cvrs": tail_cards(case)}


def dyadic(v):
    d = F(v).denominator
    return d & (d - 1) == 0 and d < 2 ** 40


def exact_ok(case):
    """False when the float population the code builds is the result of inexact float operations (then
    equalities that hold for the exact values, like a null mean of exactly 0, need not hold in the code)"""
    op = case["op"]
    if op == "find":
        a = case["asn"]
        if case["data"] is not None or a["audit_type"] == "POLLING":
            return True
        return a["margin"] is not None and dyadic(a["margin"]) and a["upper_bound"] in ("1", "2")
    if op in ("contest", "audit_contest"):
        c = case["contest"]
        if c["audit_type"] == "POLLING" or case["mvr"] is not None:
            return True
        tl = dict(c["tally"])
        return all(dyadic(F(tl[w] - tl[l], c["cards"])) for w in c["winners"] for l in c["losers"])
    if op == "audit":
        if case["mvr"] is not None:
            return True
        for c in case["contests"]:
            if c["audit_type"] == "POLLING":
                continue
            tl = dict(c["tally"])
            if not all(dyadic(F(tl[w] - tl[l], c["cards"])) for w in c["winners"] for l in c["losers"]):
                return False
        return True
    if op == "raire":
        return case["polling"] or (dyadic(case["mean"]) and case["upper_bound"] in ("1", "2"))
    return True


def request(case):
    g, o, a = request0(case)
    if o != "interleave":
        a["exact_ok"] = exact_ok(case)
    return (g, o, a)


def request0(case):
    op = case["op"]
    res, calls = observed(case)
    if op == "nm":
        t = tails_idx(calls[0]) if calls else ([] if case["reps"] is not None else None)
        return (NAME, "nm", {"init": case["init"], "x": case["x"], "alpha": case["alpha"], "prefix": case["prefix"],
                             "quantile": case["quantile"], "tails": t})
    if op == "find":
        t = tails_idx(calls[0]) if calls else ([] if case["reps"] is not None else None)
        return (NAME, "find", {"assertion": asn_json(case["asn"]), "data": case["data"], "prefix": case["prefix"],
                               "rate_1": case["rate_1"], "rate_2": case["rate_2"], "quantile": case["quantile"],
                               "tails": t})
    if op == "interleave":
        return (NAME, "interleave", {k: case[k] for k in ("n_small", "n_med", "n_big", "small", "med", "big")})
    if op in ("contest", "audit_contest"):
        au = case["audit"]
        return (NAME, op, {"audit_type": case["contest"]["audit_type"], "has_mvr": case["mvr"] is not None,
                           "items": multi_items(case, calls), "rate_1": au["rate_1"], "rate_2": au["rate_2"],
                           "quantile": au["quantile"], "style": style_json(case) if op == "audit_contest" else None})
    if op == "audit":
        return (NAME, "audit", audit_request(case, calls))
    if op == "raire":
        t = tails_idx(calls[0]) if calls else ([] if case["reps"] is not None else None)
        return (NAME, "raire", {k: case[k] for k in ("mean", "tw", "tl", "to", "erate1", "erate2", "rlimit", "N",
                                                     "upper_bound", "polling")} | {"tails": t})
    raise ValueError(op)


def pops_close(a, b):
    return len(a) == len(b) and all(abs(x - float(F(y))) <= 1e-9 * max(1.0, abs(x)) for x, y in zip(a, b))


def xr_close(x, y):
    """float `x` (None: attribute not set) vs the model's exact value `y` ("p/q", "inf", "-inf", "nan")"""
    if x is None:
        return False
    if y in ("inf", "-inf"):
        return x == float(y)
    if y == "nan":
        return math.isnan(x)
    return math.isfinite(x) and abs(x - float(F(y))) <= 1e-9 * max(1.0, abs(x))


def compare_tail(case, ir, mr):
    """the style tail of Audit.find_sample_size: every cvr.p and the returned total"""
    if not has_style(case) or "p" not in mr:
        return None
    ps = ir.get("p") or []
    if len(ps) != len(mr["p"]):
        return f"number of cards with a sampling probability differs: impl {len(ps)} model {len(mr['p'])}"
    bad = [i for i, (x, y) in enumerate(zip(ps, mr["p"])) if not xr_close(x, y)]
    if bad:
        i = bad[0]
        return (f"cvr.p differs at cards {bad[:6]}: card {i} ({tail_cards(case)[i]}) impl {ps[i]!r} model {mr['p'][i]} "
                f"(contests (id, cards) {tail_contests(case)}, sample sizes {mr.get('sizes', [mr.get('n')])}, "
                f"already sampled per contest {mr.get('old')})")
    if float(ir["total"]) != float(mr["total"]):
        return (f"returned total (style) differs: impl {ir['total']} model {mr['total']} = ceil({mr['sum']}) "
                f"(sample sizes {mr.get('sizes', [mr.get('n')])}, cvr.p {mr['p'][:12]})")
    return None


def ceil_fragile(case, mr):
    """the exact sum of the cvr.p is within 1e-9 of an integer and some summand is not a binary fraction: the float sum
    may land on either side of that integer, and `math.ceil` differs by one"""
    if not has_style(case) or "sum" not in mr or mr["sum"] in ("inf", "-inf", "nan"):
        return False
    sm = F(mr["sum"])
    if abs(sm - round(sm)) > F(1, 10 ** 9):
        return False
    tc = tail_cards(case)
    return any(not dyadic(p) for p, cd in zip(mr["p"], tc) if not cd["phantom"] and p not in ("inf", "-inf", "nan"))


def compare(case, ir, mr):
    if ir.get("st") != mr.get("st"):
        return f"status differs: impl={ir.get('st')}/{ir.get('err')} ({ir.get('msg')}) model={mr.get('st')}/{mr.get('err')}"
    if ir["st"] == "err":
        return None if ir["err"] == mr["err"] else f"error kind differs: impl {ir['err']} model {mr['err']}"
    if case["op"] == "audit":
        if ir["sizes"] != mr["sizes"]:
            return f"per-contest sample sizes differ: impl {ir['sizes']} model {mr['sizes']} (contests {[c['id'] for c in case['contests']]})"
        if not case["use_style"] and mr["total_nostyle"] != int(ir["total"]):
            return f"returned total (no style) differs: impl {ir['total']} model {mr['total_nostyle']}"
        return compare_tail(case, ir, mr)
    if case["op"] == "audit_contest" and ir["n"] == mr["n"]:
        d = compare_tail(case, ir, mr)
        if d:
            return d
    if case["op"] == "interleave":
        return None if pops_close(ir["x"], mr["x"]) else f"interleaved values differ: impl {ir['x'][:12]} model {mr['x'][:12]}"
    if "pop" in ir and "pop" in mr and not pops_close(ir["pop"], mr["pop"]):
        bad = [i for i, (x, y) in enumerate(zip(ir["pop"], mr["pop"])) if abs(x - float(F(y))) > 1e-9]
        return (f"assumed population differs (len impl {len(ir['pop'])} model {len(mr['pop'])}) at {bad[:6]}: "
                f"impl {[ir['pop'][i] for i in bad[:3]]} model {[mr['pop'][i] for i in bad[:3]]}")
    if ir["n"] != mr["n"]:
        return f"sample size differs: impl {ir['n']} model {mr['n']}" + (f" (per assertion, model: {mr.get('each')})" if "each" in mr else "")
    if "attr" in ir and ir["attr"] != ir["n"]:
        return f"sample_size attribute {ir['attr']} != returned value {ir['n']}"
    return None


def rate_fragile(r):
    """float 1/r and exact 1/r truncate differently, or r is not a float-exact intent"""
    if r is None or F(r) == 0:
        return False
    q = F(r)
    try:
        return int(1 / float(q)) != math.trunc(1 / q)
    except (ZeroDivisionError, OverflowError):
        return True


def eta_at_u(init):
    """the alternative is within a few ulps of u (the default eta = u*(1 - eps) of an explicitly given estimator,
    or of wald_sprt): the factor (u - eta_j)/(u - mu_j) of an observation below u is then a catastrophic
    cancellation in floats (relative error up to 50%), and every later history entry inherits it"""
    test = init.get("test") or "alpha_mart"
    u = F(init["u_now"] if init.get("u_now") is not None else init["u"])
    eta = init["kw"].get("eta")
    if eta is not None:
        return abs(u - F(eta)) <= F(1, 10 ** 9) * abs(u)
    return (test == "alpha_mart" and init.get("estim") in ("shrink_trunc", "fixed_alternative_mean")) or test == "wald_sprt"


def inits_of(case):
    op = case["op"]
    if op == "nm":
        return [case["init"]]
    if op == "find":
        return [case["asn"]["init"]]
    if op in ("contest", "audit_contest"):
        return [case["contest"]["init"]]
    if op == "audit":
        return [c["init"] for c in case["contests"]]
    return []


def fragile(case, ir, mr):
    """a comparison of the float code sits within 1e-9 (relative) of its threshold: a history entry vs the
    risk limit, a null mean vs 0 or u, the sample total vs N t (computed by the driver on the exact
    values), int(1/rate) differs between float and exact arithmetic, or the alternative sits at u"""
    if mr.get("near"):
        return True
    if ceil_fragile(case, mr):
        return True
    if any(eta_at_u(i) for i in inits_of(case)):
        return True
    for k in ("rate_1", "rate_2", "erate1", "erate2"):
        if rate_fragile(case.get(k)):
            return True
    if "audit" in case and (rate_fragile(case["audit"]["rate_1"]) or rate_fragile(case["audit"]["rate_2"])):
        return True
    if case["op"] == "find" and case["data"] is None and case["rate_1"] is None and case["asn"]["margin"] is not None:
        # default rate_1 = (1 - margin)/2 is computed in floats: e.g. margin 1/3 gives 0.33333333333333337 and
        # int(1/rate_1) = 2, not 3
        m = F(case["asn"]["margin"])
        rf = (1 - float(m)) / 2
        if rf != 0 and (1 - m) / 2 != 0:
            try:
                if int(1 / rf) != math.trunc(1 / ((1 - m) / 2)):
                    return True
            except (ZeroDivisionError, OverflowError):
                return True
    return False


def tail_tag(case):
    """which part of the style tail a case exercises: `edge` some contest has cards <= the number of its cards already
    sampled (division by zero / negative), `flags` some card is already sampled, a phantom, or lists only some of the
    contests, `plain` otherwise"""
    if not has_style(case):
        return ""
    tc = tail_cards(case)
    for cid, n in tail_contests(case):
        old = sum(1 for cd in tc if cid in cd["contests"] and cd["sampled"])
        if n - old <= 0:
            return ":tail-edge"
    ids = [i for i, _ in tail_contests(case)]
    if any(cd["sampled"] or cd["phantom"] or any(i not in cd["contests"] for i in ids) for cd in tc):
        return ":tail-flags"
    return ":tail-plain"


def signature(case, ir):
    op = case["op"]
    if op == "nm":
        tag = f"nm:{case['init'].get('test') or 'alpha_mart'}:{'det' if case['reps'] is None else ('sim-pfx' if case['prefix'] else 'sim')}"
        N = case["init"]["N"]
    elif op == "find":
        a = case["asn"]
        kind = "data" if case["data"] is not None else a["audit_type"]
        tag = f"find:{kind}:{'glue' if a.get('glue') else 'direct'}:{'det' if case['reps'] is None else ('sim-pfx' if case['prefix'] else 'sim')}:{case.get('stream')}"
        N = a["init"]["N"]
    elif op == "interleave":
        tag = "interleave:" + "".join("0" if case[k] == 0 else ("-" if case[k] < 0 else "+") for k in ("n_small", "n_med", "n_big"))
        if ir.get("st") != "ok":
            return tag + ":err:" + str(ir.get("err"))
        return ("trivial:" if len(ir["x"]) < 2 else "") + tag
    elif op in ("contest", "audit_contest"):
        tag = f"{op}:{case['contest']['audit_type']}:{'mvr' if case['mvr'] is not None else 'nomvr'}:{'det' if case['audit']['reps'] is None else 'sim'}"
        if op == "audit_contest":
            tag += tail_tag(case)
        N = case["contest"]["cards"]
    elif op == "audit":
        types = "+".join(sorted({c["audit_type"][:4] for c in case["contests"]}))
        tag = (f"audit:{len(case['contests'])}:{types}:{'style' if case['use_style'] else 'nostyle'}:"
               f"{'mvr' if case['mvr'] is not None else 'nomvr'}:{'det' if case['audit']['reps'] is None else 'sim'}") + tail_tag(case)
        if ir.get("st") != "ok":
            return tag + ":err:" + str(ir.get("err"))
        sz = ir["sizes"]
        # "desc": some contest is preceded by one with a larger estimate (a running maximum would show)
        return tag + (":desc" if any(sz[i] > sz[j] for i in range(len(sz)) for j in range(i + 1, len(sz))) else ":nondesc")
    else:
        tag = f"raire:{'polling' if case['polling'] else 'comparison'}:{'det' if case['reps'] is None else 'sim'}"
        N = case["N"]
    if ir.get("st") != "ok":
        return tag + ":err:" + str(ir.get("err"))
    n = ir["n"]
    if op == "nm" and len(set(case["x"])) < 2:
        return "trivial:" + tag + ":constant"
    return tag + (":never" if n == N else (":cross" if n > 0 else ":zero"))


# ---------------------------------------------------------------------------------------------
# generation

ALPHAS = [F(1, 20), F(1, 20), F(1, 10), F(1, 100), F(1, 5), F(1, 4), F(1, 2)]
QUANTS = [F(1, 2), F(1, 2), F(0), F(1), F(9, 10), F(1, 4), F(4, 5), F(37, 100)]
RATES = [None, F(0), F(1, 100), F(1, 10), F(1, 4), F(1, 3), F(1, 2), F(1), F(1, 7), F(3, 10), F(1, 1000), F(2, 5), F(1, 16)]
BADRATES = [F(3, 2), F(2), F(-1, 4), F(-2)]


def gen_init(rng, N, comparison=False, u=None):
    """a NonnegMean constructor call with finite N (tests that work with a finite population)"""
    test = rng.choice(["alpha_mart"] * 4 + ["betting_mart"] * 2 + ["kaplan_kolmogorov", "kaplan_markov", "kaplan_wald", "wald_sprt"])
    estim = rng.choice(NMG.ESTIMS) if test == "alpha_mart" else None
    bet = rng.choice(NMG.BETS) if test == "betting_mart" else None
    if u is None:
        u = rng.choice([F(1), F(1), F(1), F(5, 4), F(17, 16), F(3, 2)])
    if estim == "optimal_comparison" and u == 1:
        u = F(17, 16)
    t = F(1, 2)
    kw = NMG.gen_kw(rng, test, estim, bet, u, t)
    if test == "alpha_mart" and estim in ("shrink_trunc", "fixed_alternative_mean") and "eta" not in kw and rng.chance(0.8):
        kw["eta"] = rng.choice([t + (u - t) * F(k, 8) for k in range(1, 8)])   # default eta = u(1-eps) is float-fragile
    init = {"test": test, "estim": estim, "bet": bet, "u": S(u), "N": N, "t": S(t), "ro": True,
            "kw": {k: S(v) for k, v in kw.items()}, "u_now": None}
    if rng.chance(0.1) and test in ("alpha_mart", "betting_mart", "kaplan_wald", "kaplan_markov"):
        init["ro"] = False
    if rng.chance(0.15):
        init["test"] = None if test == "alpha_mart" else test
    return init


def gen_pilot(rng, n, u, style=None):
    k = rng.random() if style is None else style
    if k < 0.08:
        return [rng.choice([u, u * F(3, 4), u / 2])] * n                 # constant (trivial)
    if k < 0.45:
        return [rng.choice([u, u, u, u * F(3, 4), u / 2, F(0)]) for _ in range(n)]
    if k < 0.7:
        big = u * rng.choice([F(9, 16), F(5, 8), F(3, 4)])
        return [rng.choice([big] * 6 + [big / 2, F(0)]) for _ in range(n)]
    if k < 0.85:
        return [NMG.grid_val(rng, u) for _ in range(n)]
    return [F(rng.randint(0, q), q) * u for q in [rng.randint(1, 32) for _ in range(n)]]


def gen_nm(rng, tier):
    nmax = 60 if tier == "quick" else rng.choice([60, 60, 120, 400])
    N = rng.choice([2, 3, 5, 8, 13, 20, 30, 45, nmax])
    init = gen_init(rng, N)
    u = F(init["u"])
    n = rng.choice([1, 2, 2, 3, 3, 4, 5, 7, 10])
    n = min(n, N - 1) if rng.chance(0.93) else N
    n = max(n, 1)
    x = gen_pilot(rng, n, u)
    reps = None if rng.chance(0.5) else rng.choice([1, 2, 3, 5])
    prefix = rng.chance(0.5) if reps is not None else rng.chance(0.2)
    if reps is not None and prefix and rng.chance(0.6):
        # a pilot that probably crosses on its own: long run of large values
        n = min(N, rng.choice([8, 12, 20, 30]))
        x = [u if rng.chance(0.9) else u / 2 for _ in range(n)]
        x[rng.randrange(max(1, n // 2), n)] = rng.choice([u / 2, F(0), u * F(3, 4)])   # non-constant
    case = {"op": "nm", "init": init, "x": [S(v) for v in x], "alpha": S(rng.choice(ALPHAS)), "reps": reps,
            "seed": rng.randint(0, 2 ** 32 - 1) if reps is not None or rng.chance(0.3) else None,
            "prefix": prefix, "quantile": S(rng.choice(QUANTS))}
    if rng.chance(0.04):
        m = rng.choice(["empty", "too-long", "negative"])
        if m == "empty" and reps is None:
            case["x"] = []
        elif m == "too-long" and reps is None:
            case["x"] = case["x"] + [S(u / 2)] * (N + 1)
        elif m == "negative":
            case["x"][0] = "-1/8"
    return case


# candidate identifiers contained in one another, falsy, numeric-looking (round 9: `in` on a string, `x or default`)
CAND_FAMILIES = [["Anna", "Ann", "An", "n"], ["10", "1", "0", "101"], ["Bo", "Bob", "o", "B"], ["0", "", " 0", "00"]]


def _cand_names(rng):
    return list(rng.choice(CAND_FAMILIES)) if rng.chance(0.15) else ["A", "B", "C", "D"]


def gen_tally(rng, N, stream):
    """(tally list, winner, loser): counts for 2-4 candidates within N cards"""
    cands = _cand_names(rng)[: rng.choice([2, 3, 3, 4])]
    while True:
        cut = sorted(rng.randint(0, N) for _ in range(len(cands)))
        counts = [cut[0]] + [cut[i] - cut[i - 1] for i in range(1, len(cands))]
        counts.sort(reverse=True)
        if stream == "zeros":
            z = rng.choice(["loser0", "other0", "all"])
            if z == "loser0":
                counts[1] = 0
            elif z == "other0":
                counts = counts[:2] + [0] * (len(cands) - 2)
                counts[0] = N - counts[1] if rng.chance(0.5) else counts[0]
            else:
                counts = [N] + [0] * (len(cands) - 1)
        if stream == "overfull":
            counts[0] += N
        if counts[0] > counts[1] or stream == "tie":
            break
    if stream == "tie":
        counts[1] = counts[0]
    return [[c, int(v)] for c, v in zip(cands, counts)], cands[0], cands[1]


def gen_find(rng, tier):
    nmax = 60 if tier == "quick" else rng.choice([60, 100, 200, 400])
    N = rng.choice([4, 6, 10, 16, 25, 40, nmax])
    r = rng.random()
    at = rng.choice(["POLLING", "POLLING", "CARD_COMPARISON", "CARD_COMPARISON", "ONEAUDIT"])
    stream = "regular"
    if r > 0.82:
        stream = rng.choice(["irv", "no-tally", "empty-tally", "other-type", "margin<=0", "margin-none", "missing-cand",
                             "zeros", "zeros", "overfull", "bad-rate", "N-inf", "ub0"])
    glue = rng.chance(0.35) and stream in ("regular", "zeros")
    tally, w, l = gen_tally(rng, N, stream if stream in ("zeros", "overfull") else "regular")
    tl = dict(tally)
    margin = F(tl[w] - tl[l], N)
    ub = F(1)
    if not glue and at != "POLLING" and rng.chance(0.6):
        margin = rng.choice([F(1, 20), F(1, 10), F(1, 5), F(3, 10), F(1, 2), F(1, 2), F(7, 10), F(7, 10), F(9, 10), F(1)])
    if not glue and rng.chance(0.15):
        ub = rng.choice([F(2), F(3, 2), F(1, 2) + F(1, 2)])
    u_test = ub if at == "POLLING" else (2 / (2 - margin / ub) if 2 - margin / ub != 0 else ub)
    if glue:
        init = gen_init(rng, N, u=F(1))
        init["ro"] = True
        init["u"] = "1"                                   # make_plurality_assertions constructs the test with u=1
        if init["test"] is None:
            init["test"] = "alpha_mart"
        init["kw"].setdefault("g", S(rng.choice([F(1, 10), F(0), F(1, 4)])))
        if init.get("estim") == "optimal_comparison" or at != "POLLING":
            init["u_now"] = S(u_test) if u_test > 1 else S(F(17, 16))
    else:
        init = gen_init(rng, N, u=u_test if u_test > 1 or at == "POLLING" else F(17, 16))
    asn = {"audit_type": at, "irv": False, "tally": tally, "winner": w, "loser": l, "cards": N,
           "candidates": [c for c, _ in tally], "upper_bound": S(ub), "margin": S(margin),
           "risk_limit": S(rng.choice(ALPHAS)), "init": init, "glue": glue}
    rate_1 = rng.choice(RATES)
    rate_2 = rng.choice(RATES + [None, F(0), F(0)])
    data = None
    if stream == "irv":
        asn["irv"] = True
    elif stream == "no-tally":
        asn["tally"] = None
    elif stream == "empty-tally":
        asn["tally"] = []
    elif stream == "other-type":
        asn["audit_type"] = rng.choice(["BATCH_COMPARISON", "STRATIFIED"])
    elif stream == "margin<=0":
        asn["margin"] = S(rng.choice([F(0), F(-1, 10)]))
    elif stream == "margin-none":
        asn["margin"] = None
    elif stream == "missing-cand":
        asn["tally"] = [p for p in tally if p[0] != rng.choice([w, l])]
    elif stream == "bad-rate":
        rate_1 = rng.choice(BADRATES)
        if rng.chance(0.5):
            rate_2 = rng.choice(BADRATES)
    elif stream == "N-inf":
        init["N"] = None
    elif stream == "ub0":
        asn["upper_bound"] = rng.choice(["0", S(margin / 2)])
    if stream == "regular" and rng.chance(0.2):
        n = rng.randint(1, max(1, min(10, N - 1)))
        data = [S(v) for v in gen_pilot(rng, n, F(init["u_now"] or init["u"]))]
    reps = None if rng.chance(0.55) else rng.choice([1, 2, 3])
    case = {"op": "find", "asn": asn, "data": data, "prefix": rng.chance(0.4),
            "rate_1": None if rate_1 is None else S(rate_1), "rate_2": None if rate_2 is None else S(rate_2),
            "reps": reps, "seed": rng.randint(0, 2 ** 32 - 1), "quantile": S(rng.choice(QUANTS)), "stream": stream}
    return case


def gen_interleave(rng, tier):
    r = rng.random()
    hi = 12 if tier == "quick" else 40
    if r < 0.75:
        ns = [rng.choice([0, 0, 1, 2, 3, rng.randint(0, hi)]) for _ in range(3)]
    elif r < 0.85:
        ns = [0, 0, 0]
        ns[rng.randrange(3)] = rng.randint(0, 5)
    elif r < 0.93:
        ns = [rng.randint(-3, 6) for _ in range(3)]
    else:
        ns = [rng.randint(0, 3 * hi) for _ in range(3)]
    vals = rng.choice([(F(0), F(1, 2), F(1)), (F(0), F(1, 2), F(1)), (F(1, 10), F(1), F(2)), (F(0), F(1, 2), F(3, 2)),
                       (F(1), F(1, 2), F(0)), (F(0), F(0), F(1)), (F(1, 3), F(1, 3), F(1, 3))])
    return {"op": "interleave", "n_small": ns[0], "n_med": ns[1], "n_big": ns[2],
            "small": S(vals[0]), "med": S(vals[1]), "big": S(vals[2])}


def gen_multi(rng, tier, op):
    N = rng.choice([6, 10, 16, 25, 40, 60])
    at = rng.choice(["POLLING", "POLLING", "CARD_COMPARISON", "CARD_COMPARISON", "ONEAUDIT"] if op == "contest"
                    else ["POLLING", "POLLING", "CARD_COMPARISON"])
    cands = _cand_names(rng)[: rng.choice([2, 3, 3, 4])]
    cut = sorted(rng.randint(0, N) for _ in range(len(cands)))
    counts = sorted([cut[0]] + [cut[i] - cut[i - 1] for i in range(1, len(cands))], reverse=True)
    if len(cands) > 1 and counts[0] == counts[1] and rng.chance(0.8):
        counts[0] += 1
        N = max(N, sum(counts))
    nw = 1 if len(cands) < 4 or rng.chance(0.6) else 2
    if nw == 2 and counts[1] == counts[2]:
        counts[1] += 1
        N = max(N, sum(counts))
    winners, losers = cands[:nw], cands[nw:]
    tally = [[c, int(v)] for c, v in zip(cands, counts)]
    init = gen_init(rng, N, u=F(1))
    init["ro"] = True
    init["u"] = "1"                                       # make_plurality_assertions constructs the test with u=1
    if init["test"] is None:
        init["test"] = "alpha_mart"
    if init.get("estim") == "optimal_comparison" and at == "POLLING":
        init["estim"] = "shrink_trunc"
        init["kw"].pop("rate_error_2", None)
    init["kw"].setdefault("g", S(rng.choice([F(1, 10), F(0), F(1, 4)])))
    reps = None if rng.chance(0.6) else rng.choice([1, 2, 3])
    audit = {"rate_1": S(rng.choice([r for r in RATES if r is not None])), "rate_2": S(rng.choice([F(0), F(0), F(1, 10), F(1, 100), F(1, 4)])),
             "reps": reps, "quantile": S(rng.choice(QUANTS)), "seed": rng.randint(0, 2 ** 32 - 1)}
    case = {"op": op, "contest": {"audit_type": at, "cards": N, "risk_limit": S(rng.choice(ALPHAS)), "candidates": cands,
                                  "winners": winners, "losers": losers, "tally": tally, "init": init,
                                  "use_style": op == "audit_contest" or rng.chance(0.5)},
            "audit": audit, "mvr": None, "cvr": None}
    if at != "ONEAUDIT" and rng.chance(0.4):
        n = rng.randint(1, max(1, min(12, N - 1)))
        pool = [c for c, v in tally for _ in range(v)] + [None] * (N - sum(v for _, v in tally))
        mv = [rng.choice(pool) if pool else None for _ in range(n)]
        case["mvr"] = mv
        if at != "POLLING":
            case["cvr"] = [v if rng.chance(0.85) else rng.choice(cands) for v in mv]
            case["contest"]["use_style"] = False if op == "contest" else True
            if op == "audit_contest":
                case["cvr"] = [v if v is not None else cands[0] for v in case["cvr"]]
    if at == "ONEAUDIT" and case["mvr"] is None:
        pool = [c for c, v in tally for _ in range(v)]
        case["cvr"] = [rng.choice(pool) if pool else cands[0] for _ in range(rng.randint(1, max(1, min(12, N - 1))))]
    if op == "audit_contest":
        k = len(winners) * len(losers)
        case["proved"] = [rng.chance(0.3) for _ in range(k)]
        case["cvrs"] = [rng.choice(cands) for _ in range(min(N, 8))]
        if rng.chance(0.7):
            # the style tail: cards already sampled, phantoms, cards without the contest; the contest's `cards` at, below
            # or just above the number of its cards already sampled
            m = rng.choice([min(N, 8), rng.randint(0, 6), rng.randint(5, 20)])
            ps, pp, ph = rng.choice([(0, 0, 1), (0.3, 0.15, 0.85), (0.6, 0.1, 1), (0.2, 0.4, 0.7), (1, 0, 1)])
            case["cvrs"] = [{"v": rng.choice(cands + [None]), "has": rng.chance(ph), "sampled": rng.chance(ps),
                             "phantom": rng.chance(pp)} for _ in range(m)]
            lst = [e for e in case["cvrs"] if e["has"]]
            old = sum(1 for e in lst if e["sampled"])
            r = rng.random()
            if r < 0.35:
                case["contest"]["cards_now"] = rng.choice([old, old, max(0, old - 1), old + 1, len(lst),
                                                           sum(1 for e in lst if not e["phantom"]), len(lst) + 3])
    return case


def gen_contest_spec(rng, cid, at, kind):
    """one contest of an `audit` case: `tight` (needs a large sample) or `landslide` (a small one)"""
    N = rng.choice([8, 16, 16, 32, 32, 64])      # powers of two: margins are binary fractions, float populations exact
    cands = [cid + x for x in ["A", "B", "C", "D"][: rng.choice([2, 3, 3, 4])]]
    k = len(cands)
    if kind == "tight":
        w = N // 2 - rng.randint(0, 2)
        l = max(0, w - rng.randint(1, 3))
    elif kind == "landslide":
        w = N - rng.randint(0, N // 5)
        l = rng.randint(0, max(0, (N - w) // 2))
    else:
        w = rng.randint(N // 3, N)
        l = rng.randint(0, min(w - 1, N - w)) if w > 0 else 0
    rest = N - w - l
    others = []
    for j in range(k - 2):
        v = rng.randint(0, min(rest, l)) if j < k - 3 else rng.randint(0, min(rest, l))
        others.append(v)
        rest -= v
    counts = [w, l] + others
    nw = 1
    winners, losers = cands[:nw], cands[nw:]
    tally = [[c, int(v)] for c, v in zip(cands, counts)]
    init = gen_init(rng, N, u=F(1))
    init["ro"] = True
    init["u"] = "1"
    if init["test"] is None:
        init["test"] = "alpha_mart"
    if init.get("estim") == "optimal_comparison" and at == "POLLING":
        init["estim"] = "shrink_trunc"
        init["kw"].pop("rate_error_2", None)
    init["kw"].setdefault("g", S(rng.choice([F(1, 10), F(0), F(1, 4)])))
    return {"id": cid, "audit_type": at, "cards": N, "risk_limit": S(rng.choice(ALPHAS)), "candidates": cands,
            "winners": winners, "losers": losers, "tally": tally, "init": init,
            "proved": [rng.chance(0.2) for _ in range(len(winners) * len(losers))]}


def decorate_cards(rng, contests, cards):
    """style cases: some cards are already sampled, some are phantoms, some list only a subset of the contests or none;
    more cards than the default; for some contests `cards` (at the time of the call) equals / is below / is just above
    the number of its cards that are already sampled (boundary cards - old = 0), or is exactly the number of cards
    (non-phantom cards) that list it"""
    extra = rng.choice([0, 0, 3, 8, 14])
    for _ in range(extra):
        cards.append({c["id"]: rng.choice(c["candidates"]) for c in contests})
    ps, pp, pk = rng.choice([(0.3, 0.15, 0.8), (0.6, 0.1, 1.0), (0.15, 0.35, 0.6), (0, 0, 1.0), (0.3, 0, 0.5), (1, 0, 1)])
    for i, card in enumerate(cards):
        keep = {cid: v for cid, v in card.items() if rng.chance(pk)}
        if rng.chance(0.1):
            for cid in keep:
                if rng.chance(0.3):
                    keep[cid] = None                          # contest on the card, no vote
        card.clear()
        card.update(keep)
        if rng.chance(ps):
            card["_sampled"] = True
        if rng.chance(pp):
            card["_phantom"] = True
    for c in contests:
        lst = [cd for cd in cards if c["id"] in cd]
        old = sum(1 for cd in lst if cd.get("_sampled"))
        if rng.chance(0.3):
            c["cards_now"] = rng.choice([old, old, max(0, old - 1), old + 1, len(lst),
                                         sum(1 for cd in lst if not cd.get("_phantom")), len(lst) + 2])


def gen_audit(rng, tier):
    """Audit.find_sample_size on 2-4 contests in one call"""
    n = rng.choice([2, 2, 3, 3, 4])
    with_mvr = rng.chance(0.35)
    types = ["POLLING", "CARD_COMPARISON", "CARD_COMPARISON"] + ([] if with_mvr else ["ONEAUDIT"])
    kinds = [rng.choice(["tight", "landslide", "any"]) for _ in range(n)]
    if rng.chance(0.5):
        kinds[0], kinds[-1] = "tight", "landslide"          # a large estimate first, a small one last
    ids = rng.sample(["k1", "k2", "k3", "k4", "zz", "aa"], n)   # dict order is not sorted order
    contests = [gen_contest_spec(rng, cid, rng.choice(types), kind) for cid, kind in zip(ids, kinds)]
    if rng.chance(0.3):
        for c in contests:
            c["proved"] = [False] * len(c["proved"])
    use_style = rng.chance(0.5)
    ncards = rng.randint(4, 10)
    cards = [{c["id"]: rng.choice(c["candidates"]) for c in contests} for _ in range(ncards)]
    reps = None if rng.chance(0.65) else rng.choice([1, 2, 3])
    audit = {"rate_1": S(rng.choice([r for r in RATES if r is not None])),
             "rate_2": S(rng.choice([F(0), F(0), F(1, 10), F(1, 100), F(1, 4)])),
             "reps": reps, "quantile": S(rng.choice(QUANTS)), "seed": rng.randint(0, 2 ** 32 - 1)}
    need_cvrs = use_style or any(c["audit_type"] == "ONEAUDIT" for c in contests)
    if use_style and rng.chance(0.8):
        decorate_cards(rng, contests, cards)
    case = {"op": "audit", "use_style": use_style, "contests": contests, "audit": audit,
            "cvrs": cards if need_cvrs or rng.chance(0.5) else None, "mvr": None, "cvr": None}
    if rng.chance(0.08):
        # malformed: the call must raise at the first contest (in dict order) that cannot be estimated
        if rng.chance(0.5):
            audit["rate_1"] = S(rng.choice(BADRATES))
        else:
            c = rng.choice(contests)
            c["tally"][1][1] = c["tally"][0][1]            # a tie: margin 0, AssertionError
            c["proved"] = [False] * len(c["proved"])
    if with_mvr:
        m = rng.randint(1, max(1, min(8, min(c["cards"] for c in contests) - 1)))
        mv = []
        for _ in range(m):
            card = {}
            for c in contests:
                pool = [x for x, v in c["tally"] for _ in range(v)] or c["candidates"]
                card[c["id"]] = rng.choice(pool) if c["audit_type"] != "POLLING" or rng.chance(0.9) else None
            mv.append(card)
        case["mvr"] = mv
        case["cvr"] = [{cid: (v if rng.chance(0.85) and v is not None else rng.choice([c for c in contests if c["id"] == cid][0]["candidates"]))
                        for cid, v in card.items()} for card in mv]
    return case


def gen_raire(rng, tier):
    N = rng.choice([10, 20, 40, 60, 100])
    tw = rng.randint(N // 3, N)
    tl = rng.randint(0, min(tw, N - tw))
    to = N - tw - tl
    polling = rng.chance(0.5)
    mean = F(tw + F(to, 2), N) if rng.chance(0.7) else rng.choice([F(11, 20), F(3, 5), F(3, 4), F(1, 2), F(9, 20)])
    if rng.chance(0.1):
        tw, tl, to = rng.choice([(0, 0, 0), (N, 0, 0), (0, 0, N), (0, N, 0)])
    reps = None if rng.chance(0.6) else rng.choice([1, 2, 3])
    e1, e2 = rng.choice(RATES), rng.choice(RATES + [F(0), F(0)])
    return {"op": "raire", "mean": S(mean), "tw": tw, "tl": tl, "to": to, "erate1": None if e1 is None else S(e1),
            "erate2": None if e2 is None else S(e2), "rlimit": S(rng.choice(ALPHAS)), "reps": reps,
            "seed": rng.randint(0, 2 ** 32 - 1), "N": N, "upper_bound": S(rng.choice([F(1), F(1), F(1), F(2)])),
            "polling": polling}


def corpus():
    def init(test="alpha_mart", estim=None, bet=None, u="1", N=20, t="1/2", ro=True, **kw):
        return {"test": test, "estim": estim, "bet": bet, "u": u, "N": N, "t": t, "ro": ro, "kw": dict(kw), "u_now": None}

    def nm(x, N, alpha="1/20", reps=None, seed=None, prefix=False, q="1/2", **k):
        return {"op": "nm", "init": init(N=N, **k), "x": x, "alpha": alpha, "reps": reps, "seed": seed,
                "prefix": prefix, "quantile": q}

    def asn(at, tally, N, margin, i, **k):
        d = {"audit_type": at, "irv": False, "tally": tally, "winner": "A", "loser": "B", "cards": N,
             "candidates": [c for c, _ in (tally or [["A", 0], ["B", 0]])], "upper_bound": "1", "margin": margin,
             "risk_limit": "1/20", "init": i, "glue": False}
        d.update(k)
        return d

    def find(a, data=None, prefix=False, r1=None, r2=None, reps=None, seed=1234567890, q="1/2", stream="corpus"):
        return {"op": "find", "asn": a, "data": data, "prefix": prefix, "rate_1": r1, "rate_2": r2, "reps": reps,
                "seed": seed, "quantile": q, "stream": stream}

    def audit2(order, use_style, types=("CARD_COMPARISON", "CARD_COMPARISON"), cards=None, proved=None, cards_now=None):
        # a tight contest (large estimate) and a landslide (small estimate) in one call, in the given dict order
        i0 = init(N=32, eta="3/4", g="1/10")
        i0["u"] = "1"
        cs = {"city": {"id": "city", "audit_type": types[0], "cards": 32, "risk_limit": "1/5", "candidates": ["A", "B", "C"],
                       "winners": ["A"], "losers": ["B", "C"], "tally": [["A", 18], ["B", 10], ["C", 2]], "init": i0,
                       "proved": [False, False]},
              "county": {"id": "county", "audit_type": types[1], "cards": 16, "risk_limit": "1/5", "candidates": ["D", "E"],
                         "winners": ["D"], "losers": ["E"], "tally": [["D", 14], ["E", 2]], "init": dict(i0, N=16),
                         "proved": [False]}}
        cards = cards or [{"city": "A", "county": "D"}, {"city": "B", "county": "D"}, {"city": "A", "county": "E"},
                          {"city": "C", "county": "D"}, {"city": "A", "county": "D"}]
        for k, v in (proved or {}).items():
            cs[k]["proved"] = v
        for k, v in (cards_now or {}).items():
            cs[k]["cards_now"] = v
        return {"op": "audit", "use_style": use_style, "contests": [cs[k] for k in order],
                "audit": {"rate_1": "1/10", "rate_2": "0", "reps": None, "quantile": "1/2", "seed": 1},
                "cvrs": cards, "mvr": None, "cvr": None}

    def il(a, b, c, s="0", m="1/2", g="1"):
        return {"op": "interleave", "n_small": a, "n_med": b, "n_big": c, "small": s, "med": m, "big": g}

    return [
        # F13: np.repeat instead of np.tile on a non-constant pilot (DESIGN.md: 7 instead of 40)
        nm(["1", "0"], 40, eta="3/4"), nm(["1", "1", "0"], 40, eta="3/4"),
        nm(["1", "1", "1", "1/2"], 30, test="kaplan_markov", g="1/10"),
        nm(["1", "1", "1", "1", "1", "1", "1", "1"], 30, reps=3, seed=7, prefix=True, eta="3/4"),
        nm(["1", "1", "1", "1", "1", "1", "1", "1"], 30, reps=5, seed=11, prefix=True, q="9/10", eta="3/4"),
        nm(["1", "0", "1"], 12, reps=3, seed=5, eta="3/4"),
        nm(["1/2", "1/2"], 10, eta="3/4"),
        # F12 / F14: polling from the tally; n_big = 0
        find(asn("POLLING", [["A", 12], ["B", 5], ["C", 3]], 20, "7/20", init(N=20, eta="3/4"))),
        find(asn("POLLING", [["A", 12], ["B", 0]], 20, "3/5", init(N=20, eta="3/4"))),
        find(asn("CARD_COMPARISON", [["A", 30], ["B", 10]], 40, "1/2", init(N=40, u="4/3", eta="5/4")), r1="1/10", r2="1/4"),
        find(asn("CARD_COMPARISON", [["A", 30], ["B", 10]], 40, "1/2", init(N=40, u="4/3", eta="5/4")), r1="1/3", r2="0"),
        find(asn("ONEAUDIT", [["A", 30], ["B", 10]], 40, "1/2", init(N=40, u="4/3", eta="5/4")), r1=None, r2=None),
        find(asn("CARD_COMPARISON", [["A", 30], ["B", 10]], 40, "1/2", init(N=40, u="4/3", eta="5/4")), r1="1/10",
             reps=3, prefix=True, seed=3),
        find(asn("CARD_COMPARISON", [["A", 30], ["B", 10]], 40, "1/2", init(N=40, u="4/3", eta="5/4")), r1="1/10",
             r2="1/7", reps=3, seed=3, q="9/10"),
        audit2(["city", "county"], True), audit2(["county", "city"], True), audit2(["city", "county"], False),
        audit2(["city", "county"], False, types=("POLLING", "POLLING")),
        audit2(["city", "county"], True, types=("ONEAUDIT", "CARD_COMPARISON")),
        # the style tail: a sampled card, a phantom, a card that lists one contest, a card that lists none
        audit2(["city", "county"], True, cards=[{"city": "A", "county": "D", "_sampled": True}, {"city": "B", "county": "D"},
                                                 {"city": "A"}, {"county": "D", "_phantom": True}, {}]),
        # one contest on every card, nothing sampled, cards = number of cards: the total is the contest's sample size
        # (Props/C16Total.lean style_single) -- up to the float rounding of the sum (DESIGN 15.7)
        audit2(["county"], True, cards=[{"county": "D"}] * 20, cards_now={"county": 20}),
        # dict order matters when a ratio is 0/0 (Props/C16Total.lean style_order_matters): `county` is confirmed
        # (sample_size 0) and all of its `cards` are in the sample, yet one more card lists it.  county first: the nan is
        # replaced by city's ratio and the call returns 2; city first: max(nan, r) is nan and math.ceil raises ValueError
        audit2(["county", "city"], True, cards=[{"city": "A", "county": "D", "_sampled": True}, {"city": "A", "county": "D"}],
               proved={"county": [True]}, cards_now={"county": 1}),
        audit2(["city", "county"], True, cards=[{"city": "A", "county": "D", "_sampled": True}, {"city": "A", "county": "D"}],
               proved={"county": [True]}, cards_now={"county": 1}),
        # cards - old = 0 with a positive sample size: inf, OverflowError
        audit2(["city", "county"], True, cards=[{"city": "A", "county": "D", "_sampled": True}, {"city": "A", "county": "D"}],
               cards_now={"county": 1}),
        il(5, 3, 6), il(0, 3, 6, "1/10", "1", "2"), il(3, 2, 0), il(0, 0, 4), il(0, 5, 0), il(7, 0, 0), il(0, 0, 0),
        il(1, 1, 1), il(2, 0, 5), il(1, 0, 0),
    ]


def with_warm(rng, case):
    """in a third of the cases the objects carry an earlier planning step (see `_warm`)"""
    if rng.chance(0.35):
        w = {}
        if rng.chance(0.6):
            w["attr"] = rng.choice([1, 3, 10 ** 6, rng.randint(1, 80)])
        if not w or rng.chance(0.5):
            w["call"] = {"rate_1": S(rng.choice([F(1, 20), F(1, 10), F(1, 4), F(1, 1000)])),
                         "rate_2": S(rng.choice([F(0), F(1, 100), F(1, 10)]))}
        case["warm"] = w
    return case


def with_flag(rng, case):
    if rng.chance(0.25):
        case["flag_type"] = rng.choice(["np", "np", "int"])
    return case


def gen_options(rng, tier):
    """call forms the main stream never uses (OPTIONS_AUDIT.md): optional arguments left at their documented defaults
    (alpha = 0.05, reps = None, prefix = False, quantile = 0.5, seed = 1234567890; rate_1 = rate_2 = None;
    small / med / big = 0 / 1/2 / 1; upper_bound = 1, polling = False) -- the case carries those very values and the
    call leaves them out --, and the pilot sample of NonnegMean.sample_size as a Python list"""
    r = rng.random()
    if r < 0.40:
        c = gen_nm(rng, tier)
        if rng.chance(0.7):
            c["alpha"] = "1/20"
        if rng.chance(0.6):
            c["quantile"] = "1/2"
        if c["reps"] is not None and rng.chance(0.6):
            c["seed"] = 1234567890
            if rng.chance(0.5):
                c["prefix"] = False
        if rng.chance(0.5):
            c["x_form"] = "list"
    elif r < 0.75:
        c = gen_find(rng, tier)
        if c["reps"] is not None and rng.chance(0.7):
            c["seed"] = 1234567890
        if rng.chance(0.6):
            c["quantile"] = "1/2"
        if rng.chance(0.5):
            c["prefix"] = False
        if rng.chance(0.4):
            c["rate_2"] = None
        if rng.chance(0.3):
            c["rate_1"] = None
    elif r < 0.9:
        c = gen_interleave(rng, tier)
        vals = rng.choice([("0", "1/2", "1"), ("0", "1/2", "1"), ("0", "1/2", "3/2"), ("1/10", "1/2", "1"), ("0", "1", "1")])
        c["small"], c["med"], c["big"] = vals
    else:
        c = gen_raire(rng, tier)
        if rng.chance(0.7):
            c["upper_bound"] = "1"
    c["call"] = "defaults"
    return c


def gen(rng, n, tier):
    import hashlib
    from ..core import Rng
    opt = Rng(int(hashlib.sha1(("options" + repr(rng.getstate())).encode()).hexdigest()[:15], 16))
    yield from gen_main(rng, n, tier)
    for _ in range(max(8, n // 10)):
        yield gen_options(opt, tier)


def gen_main(rng, n, tier):
    for _ in range(n):
        r = rng.random()
        if r < 0.30:
            yield with_flag(rng, gen_nm(rng, tier))
        elif r < 0.62:
            yield with_flag(rng, with_warm(rng, gen_find(rng, tier)))
        elif r < 0.72:
            yield gen_interleave(rng, tier)
        elif r < 0.82:
            yield with_warm(rng, gen_multi(rng, tier, "contest"))
        elif r < 0.88:
            yield with_warm(rng, gen_multi(rng, tier, "audit_contest"))
        elif r < 0.96:
            yield with_warm(rng, gen_audit(rng, tier))
        else:
            yield gen_raire(rng, tier)


# ---------------------------------------------------------------------------------------------
# oracle: the statement of C16 evaluated on the implementation (independent of the model)

def first_crossing(nm, pop, alpha, N):
    """first 1-based position where the implementation's own p-value history on `pop` is <= alpha, else N"""
    h = np.asarray(nm.test(np.asarray(pop, dtype=float))[1], dtype=float)
    idx = [i for i, v in enumerate(h) if v <= alpha]
    return (idx[0] + 1) if idx else N, h


def close_to_alpha(h, alpha):
    return any(v != alpha and abs(v - alpha) <= 1e-9 * abs(alpha) for v in h)


def expected_estimate(mk_nm, x, alpha, N, reps, prefix, quantile, seed):
    """the estimate the documentation describes, from the implementation's own test():
    deterministic: first crossing on the pilot tiled to length N;
    simulation: `quantile` of the first crossings over the populations prefix + random tail"""
    x = np.asarray(x, dtype=float)
    if reps is None:
        pop = np.tile(x, math.ceil(N / len(x)))[0:N]
        k, h = first_crossing(mk_nm(), pop, alpha, N)
        return None if close_to_alpha(h, alpha) else k
    prng = np.random.RandomState(seed)
    ran_len = (N - len(x)) if prefix else N
    sams = []
    for _ in range(reps):
        tail = x[prng.choice(np.arange(len(x)), size=ran_len, replace=True)] if ran_len > 0 or len(x) else np.array([])
        pop = np.concatenate([x if prefix else np.array([]), tail])
        k, h = first_crossing(mk_nm(), pop, alpha, N)
        if close_to_alpha(h, alpha):
            return None
        sams.append(k)
    return int(np.quantile(np.array(sams, dtype=float), quantile))


def documented_comparison_pop(N, small, big, r1, r2):
    out = []
    s1 = math.floor(1 / r1) if r1 else None
    s2 = math.floor(1 / r2) if r2 else None
    for i in range(N):
        if s2 and i % s2 == 0:
            out.append(0.0)
        elif s1 and i % s1 == 0:
            out.append(small)
        else:
            out.append(big)
    return out


def oracle_find_pop(asn, ir, r1, r2, N):
    """is the population handed to the test the documented one?"""
    pop = ir.get("pop")
    if pop is None:
        return {"what": "no population reached NonnegMean.sample_size although the estimate succeeded"}
    ub, m = float(F(asn["upper_bound"])), float(F(asn["margin"]))
    if asn["audit_type"] == "POLLING":
        tl = dict(asn["tally"] or [])
        if asn["loser"] not in tl or asn["winner"] not in tl:
            return None
        n0, nb = tl[asn["loser"]], tl[asn["winner"]]
        nh = N - n0 - nb
        if min(n0, nb, nh) < 0:
            return None
        if len(pop) != N:
            return {"what": f"polling population has {len(pop)} values for N = {N} cards"}
        want = {0.0: 0, 0.5: 0, ub: 0}
        for v, k in ((0.0, n0), (0.5, nh), (ub, nb)):
            want[v] = want.get(v, 0) + k
        for v, k in want.items():
            got = sum(1 for p in pop if p == v)
            if got != k:
                return {"what": f"polling population contains {got} values equal to {v} but the reported tally implies {k} "
                                f"(loser {n0}, other {nh}, winner {nb})"}
        return None
    big = (1 - 0 / ub) / (2 - m / ub)
    small = (1 - 0.5 / ub) / (2 - m / ub)
    r1 = (1 - m) / 2 if r1 is None else r1
    if (r1 and not (0 < r1 <= 1)) or (r2 and not (0 < r2 <= 1)):
        return None
    if rate_fragile(fr(r1)) or (r2 and rate_fragile(fr(r2))):
        return None
    doc = documented_comparison_pop(N, small, big, r1, r2)
    if len(pop) != len(doc):
        return {"what": f"comparison population has {len(pop)} values for N = {N}"}
    for i, (a, b) in enumerate(zip(pop, doc)):
        if abs(a - b) > 1e-9:
            return {"what": f"comparison population entry {i} is {a!r}; documented: {b!r} (0 at multiples of "
                            f"floor(1/rate_2), one-vote overstatement {small!r} at multiples of floor(1/rate_1), else {big!r}; "
                            f"rate_1={r1}, rate_2={r2})"}
    return None


def oracle_tail(case, ir, sizes):
    """the documented style tail of Audit.find_sample_size, recomputed with exact fractions from the OBSERVED
    con.sample_size values (independent of the model): a card already in the sample has p = 1; any other card has
    p = the largest of sample_size_c / (cards_c - number of c's cards already sampled) over the audited contests c it
    lists, 0 if it lists none; the returned total is the sum of p over the cards that are not phantoms, rounded up.
    Cards that list a contest with no cards left to draw (cards_c <= already sampled) are outside the definition."""
    if not has_style(case) or ir.get("p") is None or "total" not in ir:
        return None
    tc, cs = tail_cards(case), tail_contests(case)
    if len(ir["p"]) != len(tc) or len(sizes) != len(cs):
        return {"what": f"{len(ir['p'])} sampling probabilities for {len(tc)} cards"}
    old = {cid: sum(1 for cd in tc if cid in cd["contests"] and cd["sampled"]) for cid, _ in cs}
    size = {cid: k for (cid, _), k in zip(cs, sizes)}
    doc = []
    for cd in tc:
        if cd["sampled"]:
            doc.append(F(1))
            continue
        mine = [(cid, n) for cid, n in cs if cid in cd["contests"]]
        doc.append(None if any(n - old[cid] <= 0 for cid, n in mine)
                   else max([F(size[cid], n - old[cid]) for cid, n in mine] + [F(0)]))
    ctx = (f"contests (id, cards) {cs}, sample sizes {sizes}, already sampled per contest {old}")
    for i, (x, d) in enumerate(zip(ir["p"], doc)):
        if d is None:
            continue
        if x is None or not math.isfinite(x) or abs(x - float(d)) > 1e-9 * max(1.0, abs(x)):
            return {"what": f"card {i} {tc[i]}: cvr.p = {x!r} after Audit.find_sample_size, but "
                            + ("a card already in the sample must have p = 1" if tc[i]["sampled"] else
                               f"the largest of sample_size/(cards - already sampled) over the contests it lists is {d} = {float(d)!r}")
                            + f" ({ctx})"}
    summed = [d for d, cd in zip(doc, tc) if not cd["phantom"]]
    if any(d is None for d in summed):
        return None
    sm = sum(summed, F(0))
    lo, hi = math.ceil(sm - F(1, 10 ** 9)), math.ceil(sm + F(1, 10 ** 9))
    if not (lo <= ir["total"] <= hi):
        return {"what": f"returned total {ir['total']} but the sum of the sampling probabilities of the {len(summed)} cards that are "
                        f"not phantoms is {sm} = {float(sm)!r}, rounded up {math.ceil(sm)} ({ctx}; "
                        f"{sum(1 for cd in tc if cd['sampled'] and not cd['phantom'])} of them already sampled, "
                        f"{sum(1 for cd in tc if cd['phantom'])} phantoms)"}
    return None


def oracle_c16(case, ir):
    v = oracle_c16_estimates(case, ir)
    if v:
        return v
    if ir.get("st") == "ok" and has_style(case):
        return oracle_tail(case, ir, ir["sizes"] if case["op"] == "audit" else [ir["n"]])
    return None


def oracle_c16_estimates(case, ir):
    op = case["op"]
    if ir.get("st") != "ok":
        if op == "interleave" and min(case["n_small"], case["n_med"], case["n_big"]) >= 0 and \
                (case["n_small"] + case["n_med"] + case["n_big"]) > 0:
            return {"what": f"interleave_values raised {ir.get('err')}: {ir.get('msg')} on non-negative counts, not all zero"}
        if op == "find" and case.get("stream") in ("regular", "zeros") and case["data"] is None \
                and case["asn"]["audit_type"] == "POLLING" and ir.get("err") in ("NameError", "ZeroDivisionError"):
            return {"what": f"polling estimate from a consistent tally raised {ir.get('err')}: {ir.get('msg')}"}
        if op == "nm":
            # inside C16's quantifier (non-constant pilot shorter than N, values in [0,u], repetitions >= 1) the estimate
            # IS the first crossing on the documented population; if that exists, raising instead is not equal to it
            from .. import scope
            init, N = case["init"], case["init"]["N"]
            try:
                xv = [F(v) for v in case["x"]]
                u = F(init["u_now"] if init.get("u_now") is not None else init["u"])
                inside = (not scope._ss_out(case) and isinstance(N, int) and len(xv) < N and all(0 <= v <= u for v in xv)
                          and 0 <= F(case["quantile"]) <= 1 and 0 < F(case["alpha"]) < 1)
            except Exception:
                inside = False
            if inside:
                want = impl_call(lambda: expected_estimate(lambda: NMG.make_nm(init), [flt(v) for v in case["x"]], flt(case["alpha"]),
                                                           N, case["reps"], case["prefix"], flt(case["quantile"]),
                                                           case["seed"] if case["seed"] is not None else 1234567890))
                if isinstance(want, int):
                    return {"what": f"NonnegMean.sample_size raised {ir.get('err')}: {ir.get('msg')} -- the first crossing of the test's own "
                                    f"history on the documented population exists and is {want}"
                                    + (" (pilot sample handed over as a list)" if case.get("x_form") == "list" else "")}
        return None
    if op == "interleave":
        ns = {"small": case["n_small"], "med": case["n_med"], "big": case["n_big"]}
        if min(ns.values()) < 0:
            return None
        x = ir["x"]
        if len(x) != sum(ns.values()):
            return {"what": f"interleave_values returned {len(x)} values, requested {sum(ns.values())}"}
        want = {}
        for k, n in ns.items():
            v = float(F(case[k]))
            want[v] = want.get(v, 0) + n
        for v, n in want.items():
            got = sum(1 for p in x if p == v)
            if got != n:
                return {"what": f"interleave_values returned {got} entries equal to {v}, requested {n} (counts {ns})"}
        return None
    if op == "nm":
        init = case["init"]
        N = init["N"]
        x = [flt(v) for v in case["x"]]
        alpha, q = flt(case["alpha"]), flt(case["quantile"])
        want = impl_call(lambda: expected_estimate(lambda: NMG.make_nm(init), x, alpha, N, case["reps"], case["prefix"], q,
                                                   case["seed"] if case["seed"] is not None else 1234567890))
        if isinstance(want, dict) or want is None:
            return None
        if ir["n"] != want:
            return {"what": f"estimate {ir['n']} but the first crossing of the test's own history on the documented "
                            f"population ({'pilot tiled to N' if case['reps'] is None else 'quantile over simulated populations'}) is {want}"}
        if case["reps"] is not None and case["prefix"] and len(x) <= N:
            # prefix-crossing: the history of the prefix, continued by any tail, crosses at k <= len(x)
            tail = np.tile(np.array(x), math.ceil(N / len(x)))[: N - len(x)]
            r = impl_call(lambda: first_crossing(NMG.make_nm(init), np.concatenate([np.array(x), tail]), alpha, N))
            if isinstance(r, dict):
                return None
            k, h = r
            if k <= len(x) and any(v <= alpha for v in h[: len(x)]) and not close_to_alpha(h, alpha):
                key = sum(int(F(v) * 64) for v in case["x"]) + N
                for j in range(3):
                    seed2, reps2, q2 = (key * 7919 + j * 104729) % (2 ** 32), 1 + (key + j) % 4, [0.0, 0.3, 1.0][j]
                    n2 = impl_call(lambda: NMG.make_nm(init).sample_size(np.array(x), alpha=alpha, reps=reps2, prefix=True,
                                                                       quantile=q2, seed=seed2))
                    if isinstance(n2, dict):
                        return {"what": f"prefix crosses at {k} but the estimate with seed={seed2}, reps={reps2}, quantile={q2} raised {n2.get('err')}"}
                    if int(n2) != k:
                        return {"what": f"the supplied prefix crosses the risk limit at position {k} but the simulation "
                                        f"estimate with seed={seed2}, reps={reps2}, quantile={q2} is {int(n2)}"}
                if ir["n"] != k:
                    return {"what": f"the supplied prefix crosses at {k} but the estimate is {ir['n']}"}
        return None
    if op == "find":
        asn = case["asn"]
        N = asn["init"]["N"]
        alpha, q = flt(asn["risk_limit"]), flt(case["quantile"])
        if case["data"] is None:
            if asn["audit_type"] not in ("POLLING", "CARD_COMPARISON", "ONEAUDIT"):
                return None
            v = oracle_find_pop(asn, ir, flt(case["rate_1"]), flt(case["rate_2"]), N)
            if v:
                return v
        pop = ir.get("pop")
        if pop is None or len(pop) == 0:
            return None
        want = impl_call(lambda: expected_estimate(lambda: build_assertion(asn).test, pop, alpha, N, case["reps"],
                                                   case["prefix"], q, case["seed"]))
        if isinstance(want, dict) or want is None:
            return None
        if ir["n"] != want:
            return {"what": f"estimate {ir['n']} but the first crossing of the test's own history on the documented population is {want}"}
        return None
    if op in ("contest", "audit_contest"):
        # the contest's estimate is the largest among its (unproved) assertions, each computed on its own
        con = build_multi(case)
        audit = build_audit(case)
        mvr = None if case["mvr"] is None else build_cvrs(case["mvr"])
        cvr = None if case.get("cvr") is None else build_cvrs(case["cvr"])
        each = []
        for i, a in enumerate(con.assertions.values()):
            if op == "audit_contest" and a.proved:
                continue
            def one(a=a):
                if mvr is not None:
                    data, _ = a.mvrs_to_data(mvr, cvr)
                    if op == "audit_contest":
                        return a.find_sample_size(data=data, prefix=True, reps=audit.reps, quantile=audit.quantile, seed=audit.sim_seed)
                    return a.find_sample_size(data=data, rate_1=audit.error_rate_1, rate_2=audit.error_rate_2, reps=audit.reps,
                                              quantile=audit.quantile, seed=audit.sim_seed)
                if con.audit_type == "ONEAUDIT":
                    return None
                return a.find_sample_size(data=None, rate_1=audit.error_rate_1, rate_2=audit.error_rate_2, reps=audit.reps,
                                          quantile=audit.quantile, seed=audit.sim_seed)
            r = impl_call(one)
            if isinstance(r, dict) or r is None:
                return None
            each.append(int(r))
        want = max(each) if each else 0
        if ir["n"] != want:
            return {"what": f"contest estimate {ir['n']} but the largest of its assertions' estimates {each} is {want}"}
        return None
    if op == "audit":
        # each contest's estimate is the largest among ITS OWN (unproved) assertions' estimates: it does not depend
        # on which other contests are estimated in the same call, nor on their order
        audit, contests = build_audit_multi(case)
        mvr = None if case["mvr"] is None else build_cards(case["mvr"])
        cvr = None if case.get("cvr") is None else build_cards(case["cvr"])
        for c, got in zip(case["contests"], ir["sizes"]):
            cid = c["id"]
            alone = impl_call(lambda: run_audit(case, only=cid))
            if not isinstance(alone, dict) or "st" not in alone:
                if alone[0][cid] != got:
                    return {"what": f"contest {cid}: sample_size {got} when estimated together with "
                                    f"{[x['id'] for x in case['contests'] if x['id'] != cid]} (dict order "
                                    f"{[x['id'] for x in case['contests']]}), but {alone[0][cid]} when estimated alone"}
            con = contests[cid]
            if con.audit_type == "ONEAUDIT" and mvr is None:
                # ONEAudit before any audit data: the documented population of an assertion is the error-free
                # values of the CVRs against themselves, with a one-vote overstatement at every floor(1/rate_1)-th
                # position and a two-vote overstatement at every floor(1/rate_2)-th (the two-vote one where both fall)
                r1, r2 = audit.error_rate_1, audit.error_rate_2
                if not (0 <= r1 <= 1 and 0 <= r2 <= 1) or rate_fragile(case["audit"]["rate_1"]) \
                        or rate_fragile(case["audit"]["rate_2"]) or case["cvrs"] is None:
                    continue
                each, docs, ok = [], [], True
                # the populations that reached NonnegMean.sample_size, in call order: one per unconfirmed assertion, contests
                # in dict order (only when every call was made)
                slot, k = {}, 0
                for c2 in case["contests"]:
                    for nm2, a2 in contests[c2["id"]].assertions.items():
                        if not a2.proved:
                            slot[(c2["id"], nm2)] = k
                            k += 1
                pops = ir.get("pops") or []
                for aname, a in con.assertions.items():
                    if a.proved:
                        continue
                    def one1(a=a):
                        cv = build_cards(case["cvrs"])
                        doc = np.array(a.mvrs_to_data(cv, cv, use_all=True)[0], dtype=float)
                        ub, m = a.assorter.upper_bound, a.margin
                        if r1:
                            doc[::math.floor(1 / r1)] = (1 - 0.5 / ub) / (2 - m / ub)
                        if r2:
                            doc[::math.floor(1 / r2)] = (1 - 1 / ub) / (2 - m / ub)
                        return a.find_sample_size(data=doc, rate_1=r1, rate_2=r2, reps=audit.reps,
                                                  quantile=audit.quantile, seed=audit.sim_seed), [float(v) for v in doc]
                    r = impl_call(one1)
                    if isinstance(r, dict):
                        ok = False
                        break
                    each.append(int(r[0]))
                    docs.append(r[1])
                    if len(pops) == k:
                        pop = pops[slot[(cid, aname)]]
                        bad = [i for i, (x, y) in enumerate(zip(pop, r[1])) if abs(x - y) > 1e-9]
                        if len(pop) != len(r[1]) or bad:
                            return {"what": f"ONEAudit contest {cid} assertion {aname} (no audit data yet, error_rate_1={r1}, "
                                            f"error_rate_2={r2}): the population handed to the test is {pop[:12]}.., the documented "
                                            f"one (CVR values, one-vote overstatement every {math.floor(1 / r1) if r1 else '-'} cards, "
                                            f"two-vote overstatement every {math.floor(1 / r2) if r2 else '-'} cards, the two-vote one "
                                            f"where both fall) is {r[1][:12]}..; they differ at positions {bad[:8]}"}
                if ok:
                    want = max(each) if each else 0
                    if got != want:
                        return {"what": f"ONEAudit contest {cid} (no audit data yet, error_rate_1={r1}, error_rate_2={r2}): "
                                        f"sample_size {got}, but the estimates of its unconfirmed assertions on the documented "
                                        f"populations (CVR values with a one-vote overstatement every {math.floor(1 / r1) if r1 else '-'} "
                                        f"cards and a two-vote overstatement every {math.floor(1 / r2) if r2 else '-'} cards) are "
                                        f"{each}, largest {want}; first documented population: {docs[0][:12] if docs else []}"}
                continue
            each = []
            ok = True
            for a in con.assertions.values():
                if a.proved:
                    continue
                def one(a=a):
                    if mvr is not None:
                        data, _ = a.mvrs_to_data(mvr, cvr)
                        return a.find_sample_size(data=data, prefix=True, reps=audit.reps, quantile=audit.quantile, seed=audit.sim_seed)
                    return a.find_sample_size(data=None, rate_1=audit.error_rate_1, rate_2=audit.error_rate_2, reps=audit.reps,
                                              quantile=audit.quantile, seed=audit.sim_seed)
                r = impl_call(one)
                if isinstance(r, dict):
                    ok = False
                    break
                each.append(int(r))
            if ok:
                want = max(each) if each else 0
                if got != want:
                    return {"what": f"contest {cid}: sample_size {got} but the largest of its own assertions' estimates {each} is {want} "
                                    f"(dict order {[x['id'] for x in case['contests']]}, all sizes {ir['sizes']})"}
        if not case["use_style"] and int(ir["total"]) != max(ir["sizes"]):
            return {"what": f"returned total {ir['total']} is not the largest contest estimate of {ir['sizes']}"}
        return None
    if op == "raire":
        pop = ir.get("pop")
        if pop is None or len(pop) == 0:
            return None
        from shangrla.core.NonnegMean import NonnegMean as NM
        mean, ub = flt(case["mean"]), flt(case["upper_bound"])
        margin = 2 * mean - 1
        u = 2 / (2 - margin / ub)
        N = case["N"]
        if case["polling"]:
            cnt = {0.0: case["tl"], 0.5: case["to"], 1.0: case["tw"]}
            for v, k in cnt.items():
                if sum(1 for p in pop if p == v) != k:
                    return {"what": f"polling population has {sum(1 for p in pop if p == v)} values {v}, tally says {k}"}
        else:
            r1, r2 = flt(case["erate1"]), flt(case["erate2"])
            if not ((r1 and not (0 < r1 <= 1)) or (r2 and not (0 < r2 <= 1)) or rate_fragile(case["erate1"]) or rate_fragile(case["erate2"])):
                doc = documented_comparison_pop(N, 0.5 / (2 - margin / ub), 1 / (2 - margin / ub), r1, r2)
                if len(doc) != len(pop) or any(abs(a - b) > 1e-9 for a, b in zip(pop, doc)):
                    return {"what": "comparison population is not the documented one (0 at multiples of floor(1/erate2), "
                                    "small at multiples of floor(1/erate1), else big)"}
        mk = lambda: NM(test=NM.alpha_mart, estim=NM.shrink_trunc if case["polling"] else NM.optimal_comparison, N=N, u=u, eta=mean)
        want = impl_call(lambda: expected_estimate(mk, pop, flt(case["rlimit"]), N, case["reps"], False, 0.5, case["seed"]))
        if isinstance(want, dict) or want is None:
            return None
        if ir["n"] != want:
            return {"what": f"estimate {ir['n']} but the first crossing on the documented population is {want}"}
        return None
    return None


ORACLES = {"C16": oracle_c16}
