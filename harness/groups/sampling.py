"""
Correspondence group `sampling` (properties C07, C10):
  CVR.consistent_sampling / assign_sample_nums / prep_comparison_sample, Assertion.mvrs_to_data (filter),
  Assertion.set_p_values (proved flag)   vs.   Shangrla.Sampling.* (lean/Shangrla/Model/Sampling.lean).

Case kinds
  rounds  a history of 1-4 rounds on REAL CVR / Contest / Assertion objects: set sample sizes, call
          consistent_sampling (scratch: sampled_cvr_indices=None, continue: the list returned before), build
          cvr_sample / mvr_sample in shuffled order, prep_comparison_sample, mvrs_to_data per contest.
          Which cards became data is read off the returned overstatement values: the MVR of card i carries the
          tag i+1, its CVR is worth (n+1)(i+1) (read off its id, so that its vote dicts stay arbitrary, empty ones
          included), and the assorter maps a record to that number / K, so a value decodes to the card of its CVR and
          to the card of its MVR (they must be the same card).  The manual records are, per case, either
          all complete (every audited contest listed) or varied per card ("mvr": phantom -- the card was not found --,
          or a found card whose manual record lacks some of the contests its CVR lists): what the manual records say
          must not change WHICH cards are a contest's data.  A pair whose CVR is a phantom (scored 1/2) and whose
          manual record scores 0 carries no tag; such pairs are interchangeable (label -1).
  cs      one call with an arbitrary carried-over list (duplicates, out of range, not produced by the sampler)
          and arbitrary initial thresholds
  assign  assign_sample_nums with a scripted stub generator, and with the real cryptorandom SHA256
  renumber  an operation sequence on ONE list of real CVR objects (built with the constructor or loaded with
          CVR.from_dict, optionally carrying 'sampled': True and stale sample numbers): number(seed or scripted
          hashes) -> consistent_sampling (sets .sampled) -> number(another seed) -> ... ; after EVERY numbering the
          k-th card must hold the k-th output of a fresh generator with that seed (the model's assignSampleNums is a
          function of the stream and the position only), and every selection must be the union of the per-contest
          prefixes under the numbers a fresh list would have got
  prep    prep_comparison_sample on id lists (missing ids, unequal lengths, mismatches)
  data    mvrs_to_data's filter alone: audit type, use_style, use_all, threshold None
  proved  Assertion.set_p_values over several calls with a scripted (non-monotone) test
Vote contents are drawn from a case-local seed and never sent to the model (the model has no vote argument);
every `rounds` case is run twice with different vote contents and must give identical results.
"""
import itertools, random
from fractions import Fraction
from ..core import impl_call, err_kind, fr

NAME = "sampling"
RULE = ("rounds: 1-40 cards, 1-5 contests, random styles (cards listing nothing, phantoms), distinct random sample "
        "numbers (256-bit or small), 1-4 rounds of non-decreasing size vectors incl. 0 and the maximum, scratch/continue "
        "per round; manual records complete, or (4 in 10 histories) per card a phantom record / a found card whose record "
        "lacks contests its CVR lists; malformed streams: equal sample numbers, sizes beyond the maximum (IndexError), decreasing sizes; "
        "renumber: number(seed) -> consistent_sampling -> number(other seed) on one list (constructor or from_dict with sampled flags), every numbering compared with a fresh generator; exhaustive part: every style sequence of <=4 (quick) / <=5 (thorough) cards x 2 contests x every feasible "
        "size vector; cs/assign/prep/data/proved as described in the module docstring; non-trivial = at least two "
        "contests with different positive sizes sharing a card, or an error branch; distinct = distinct canonical input")
EXHAUSTIVE = {"quick": False, "thorough": False}
RULE += "; option stream (n/40 more cases, own generator, OPTIONS_AUDIT.md): prep_polling_sample, consistent_sampling by keyword, sample numbers that are floats k/2^j with a fractional part (cs and rounds)"

CIDS = ["A", "B", "C", "D", "E"]


# contest identifiers that are falsy, numeric-looking, differ only in case / blanks, or contain one another (round 9)
CID_FAMILIES = [["0", "", "a", "A", "aa"], ["1", "01", "10", " 1", "1.0"]]


def _cids(rng, ncon):
    fam = CIDS if not rng.chance(0.15) else rng.choice(CID_FAMILIES)
    return list(fam[:ncon])


# ------------------------------------------------------------------------------------------------
# building real objects

def _votes(rng, styles):
    """random vote contents for the listed contests (never the key "tag")"""
    out = {}
    for c in styles:
        k = rng.randint(0, 3)
        out[c] = {rng.choice(["x", "y", "z", "w"]): rng.choice([0, 1, 2, True, False, "1"]) for _ in range(k)}
    return out


def _K(n):
    """scale of the tags: CVR tags (n+1)(i+1) <= n(n+1) stay below K/4, MVR tags i+1 <= n below K/(4(n+1))"""
    return 4 * (n + 1) ** 2


# `num_scale` = [D, kind] of the current case: the sample numbers handed to the code are k/D (D a power of two, k < 2**50:
# exact) as floats or Fractions -- `sample_num` and `sample_threshold` are documented as floats (SHA256.random() gives
# values in [0,1)) and are only ever compared; the model and the oracles work with the integers k
_SCALE = [1, "int"]


# kind "shift" (round 9): the numbers are the integers k + D -- D = 2**63 - 3 (64-bit hashes straddling the int64 range:
# numpy would promote a mixed list to float64), D = 2**200 (256-bit hashes, beyond float precision: neighbours are equal
# as floats) or D < 0 (signed hashes: every number negative).  Sample numbers are sort keys; only their order counts.
def _num(k):
    D, kind = _SCALE
    if kind == "shift":
        return k + D if (isinstance(k, int) and not isinstance(k, bool)) else k
    if D == 1 or not isinstance(k, int) or isinstance(k, bool):
        return k
    return Fraction(k, D) if kind == "fraction" else k / D


def _unnum(t):
    if _SCALE[1] == "shift":
        return int(t) - _SCALE[0]
    return int(Fraction(t) * _SCALE[0])


def _mk_cvrs(cards, vseed):
    from shangrla.core.Audit import CVR
    rng = random.Random(vseed)
    return [CVR(id=f"c{i}", votes=_votes(rng, cd["styles"]), phantom=bool(cd["phantom"]), sample_num=_num(int(cd["num"])))
            for i, cd in enumerate(cards)]


def _mk_contests(contests, use_style=True, audit_type=None):
    from shangrla.core.Audit import Contest, Audit
    d = {}
    for con in contests:
        d[con["id"]] = {"id": con["id"], "sample_size": con.get("size", 0),
                        "sample_threshold": (None if con.get("thr") is None else
                                             (_num(con["thr"]) if isinstance(con["thr"], int) else con["thr"])),
                        "use_style": use_style, "risk_limit": 0.05,
                        "audit_type": audit_type or Audit.AUDIT_TYPE.CARD_COMPARISON}
    return Contest.from_dict_of_dicts(d)


MARGIN = 0.5


def _mk_assertion(con, K, n, test=None):
    """the assorter of the tagging scheme: a manual record (made by `_mk_mvrs`) is worth the tag it carries for the
    contest, (i+1)/K; a CVR -- whatever its vote dicts hold, empty ones included -- is worth (n+1)(i+1)/K if it lists
    the contest (i from its id "c<i>"), else 0"""
    from shangrla.core.Audit import Assertion, Assorter
    from shangrla.core.NonnegMean import NonnegMean
    cid = con.id

    def assort(c, cid=cid):
        if getattr(c, "_manual_record", False):
            return c.votes.get(cid, {}).get("tag", 0) / K
        return (n + 1) * (int(c.id[1:]) + 1) / K if cid in c.votes else 0
    a = Assorter(contest=con, assort=assort, upper_bound=1)
    return Assertion(contest=con, assorter=a, margin=MARGIN, test=test or NonnegMean())


def _decode(d, K, n):
    """overstatement-assorter values -> card indices (see module docstring): overstatement = (CVR side) - (MVR side),
    CVR side = (n+1)(i+1)/K for a record listing the contest, 0 for one that does not, 1/2 for a phantom; MVR side =
    (j+1)/K, or 0 for a phantom / a record lacking the contest.  i and j must name the same card (else -2); -1 if the
    value carries neither"""
    out = []
    for x in d:
        over = 1 - float(x) * (2 - MARGIN)
        ci = mj = None
        if over > 0.25 + 1e-9:                      # phantom CVR
            t = int(round((0.5 - over) * K))
            mj = t - 1 if t >= 1 else None
        else:
            V = int(round(over * K))
            if V <= 0:                              # the CVR does not list the contest (no style information)
                mj = -V - 1 if V < 0 else None
            else:
                q, r = divmod(V, n + 1)
                if r == 0:
                    ci = q - 1
                else:
                    ci, mj = q, n - r
        if ci is not None and mj is not None:
            out.append(ci if ci == mj else -2)
        else:
            out.append(ci if ci is not None else mj if mj is not None else -1)
    return out


def _mvr_scores_zero(cd, cid):
    m = cd.get("mvr") or {}
    return bool(m.get("phantom")) or cid in (m.get("lacks") or [])


def _label(cards, i, cid):
    """what `_decode` yields for card i in the data of contest `cid` when CVR i is paired with MVR i"""
    cd = cards[i]
    cvr_tag = (not cd["phantom"]) and cid in cd["styles"]
    return i if (cvr_tag or not _mvr_scores_zero(cd, cid)) else -1


def _mk_mvrs(n, cids, vseed, cards=None):
    from shangrla.core.Audit import CVR
    rng = random.Random(vseed + 7919)
    mv = []
    for i in range(n):
        votes = _votes(rng, cids)
        for c in cids:
            votes[c]["tag"] = i + 1
        m = (cards[i].get("mvr") if cards is not None else None) or {}
        for c in (m.get("lacks") or []):
            votes.pop(c, None)                       # a found card whose manual record does not show the contest
        if m.get("phantom") and m.get("empty", True):
            votes = {}                               # the record the library makes for a card that is not found
        mv.append(CVR(id=f"c{i}", votes=votes, phantom=bool(m.get("phantom"))))
        mv[-1]._manual_record = True
    return mv


def _thr(con):
    t = con.sample_threshold
    return None if t is None else str(_unnum(t))


def _run_history(case, vseed):
    from shangrla.core.Audit import CVR
    cards, n = case["cards"], len(case["cards"])
    cids = [c["id"] for c in case["contests"]]
    K = _K(n)
    cvrs = _mk_cvrs(cards, vseed)
    mvrs = _mk_mvrs(n, cids, vseed, cards)
    contests = _mk_contests(case["contests"], use_style=case["use_style"])
    asns = {c: _mk_assertion(con, K, n) for c, con in contests.items()}
    rng = random.Random(vseed + 13)
    prev, out = None, []
    for r in case["rounds"]:
        for c, nsz in zip(cids, r["sizes"]):
            contests[c].sample_size = nsz
        # the other variant on copies (same state), for the "continue selects what a redraw selects" check
        alt = None
        if prev is not None:
            alt_contests = _mk_contests([{"id": c, "size": contests[c].sample_size, "thr": None} for c in cids],
                                        use_style=case["use_style"])
            for c in cids:
                alt_contests[c].sample_threshold = contests[c].sample_threshold
            alt_cvrs = _mk_cvrs(cards, vseed + 1)
            try:
                a_sel = CVR.consistent_sampling(alt_cvrs, alt_contests, None if r["cont"] else list(prev))
                alt = {"sel": [int(i) for i in a_sel], "thr": [_thr(alt_contests[c]) for c in cids]}
            except Exception as e:  # noqa
                alt = {"err": err_kind(e)}
        try:
            # the cards already in the sample may be handed back in any order (as returned, by card index -- e.g.
            # rebuilt from the `sampled` flags --, reversed): the documented argument is a set of indices
            parg = None
            if r["cont"] and prev is not None:
                # (with tied sample numbers -- outside C07's quantifier -- the stable sort keeps the order handed in)
                po = r.get("prev_order", "returned") if _valid_cards(case) else "returned"
                parg = list(prev) if po == "returned" else (sorted(prev) if po == "index" else list(prev)[::-1])
            if r.get("failed_first") and all(nsz >= 1 for nsz in r["sizes"]):
                # an impossible request first (one contest asked for more cards than list it: IndexError), then the
                # documented recovery: catch, put the sizes right, call again on the same objects
                c0 = cids[len(r["sizes"]) % len(cids)]
                contests[c0].sample_size = sum(1 for cd in cards if c0 in cd["styles"]) + 1
                try:
                    CVR.consistent_sampling(cvrs, contests, None if parg is None else list(parg))
                except Exception:  # noqa
                    pass
                for c, nsz in zip(cids, r["sizes"]):
                    contests[c].sample_size = nsz
            sel = CVR.consistent_sampling(cvrs, contests, parg)
        except Exception as e:  # noqa
            out.append({"st": "err", "err": err_kind(e), "alt": alt})
            break
        prev = sel
        sel_l = [int(i) for i in sel]
        rec = {"st": "ok", "sel": sel_l, "thr": [_thr(contests[c]) for c in cids],
               "flags": [bool(c.sampled) for c in cvrs], "alt": alt}
        # retrieve the cards in some other order, let prep_comparison_sample restore the selection order
        cs = [cvrs[i] for i in sel_l]; ms = [mvrs[i] for i in sel_l]
        rng.shuffle(cs); rng.shuffle(ms)
        order = {cvrs[i].id: {"selection_order": k, "serial": i} for k, i in enumerate(sel_l)}
        CVR.prep_comparison_sample(ms, cs, order)
        rec["prep_ok"] = [c.id for c in cs] == [f"c{i}" for i in sel_l] and [m.id for m in ms] == [f"c{i}" for i in sel_l]
        data = []
        for c in cids:
            try:
                d, u = asns[c].mvrs_to_data(ms, cs)
                data.append({"st": "ok", "v": _decode(d, K, n)})
            except Exception as e:  # noqa
                data.append({"st": "err", "err": err_kind(e)})
        rec["cards"] = data
        out.append(rec)
    return out


# ------------------------------------------------------------------------------------------------
# impl per kind

def impl(case):
    _SCALE[:] = case.get("num_scale") or [1, "int"]
    try:
        return _impl(case)
    finally:
        _SCALE[:] = [1, "int"]


def _cont(case, items):
    from ..core import container
    return container(case.get("container"), items)


def _impl(case):
    k = case["kind"]
    if k == "rounds":
        a = _run_history(case, case["vseed"])
        b = _run_history(case, case["vseed"] + 104729)
        return {"st": "ok", "rounds": a, "meta_same": a == b}
    if k == "cs":
        from shangrla.core.Audit import CVR
        cvrs = _mk_cvrs(case["cards"], case["vseed"])
        contests = _mk_contests(case["contests"])
        prev = None if case["prev"] is None else list(case["prev"])
        if case.get("call") == "kw":          # the documented keywords; `sampled_cvr_indices` left out when there is none
            kw = {} if prev is None else {"sampled_cvr_indices": prev}
            sel = CVR.consistent_sampling(contests=contests, cvr_list=cvrs, **kw)
        else:
            sel = CVR.consistent_sampling(cvrs, contests, prev)
        return {"st": "ok", "sel": [int(i) for i in sel], "thr": [_thr(contests[c["id"]]) for c in case["contests"]],
                "flags": [bool(c.sampled) for c in cvrs], "same_object": (prev is None) or (sel is prev)}
    if k == "assign":
        from shangrla.core.Audit import CVR
        n = case["n"]
        rng = random.Random(case["vseed"])
        cvrs = [CVR(id=f"c{i}", votes=_votes(rng, rng.sample(CIDS, rng.randint(0, 3))), phantom=rng.random() < 0.2)
                for i in range(n)]
        if case.get("seed") is None:
            from cryptorandom.cryptorandom import int_from_hash

            class Stub:  # scripted generator: the i-th call returns the i-th scripted 32-byte hash
                def __init__(self, hs):
                    self.hs, self.i = hs, 0

                def nextRandom(self):
                    h = self.hs[self.i]; self.i += 1
                    return h
            hs = [bytes.fromhex(h) for h in case["hashes"]]
            CVR.assign_sample_nums(_cont(case, cvrs), Stub(hs))
            script = [str(int_from_hash(h)) for h in hs]
            return {"st": "ok", "nums": [str(int(c.sample_num)) for c in cvrs], "script": script, "det": True}
        from cryptorandom.cryptorandom import SHA256, int_from_hash
        CVR.assign_sample_nums(_cont(case, cvrs), SHA256(case["seed"]))
        # same seed, different records -> same numbers
        rng2 = random.Random(case["vseed"] + 1)
        cvrs2 = [CVR(id=f"d{i}", votes=_votes(rng2, rng2.sample(CIDS, rng2.randint(0, 3))), phantom=False) for i in range(n)]
        CVR.assign_sample_nums(_cont(case, cvrs2), SHA256(case["seed"]))
        g = SHA256(case["seed"])
        script = [str(int_from_hash(g.nextRandom())) for _ in range(n)]
        return {"st": "ok", "nums": [str(int(c.sample_num)) for c in cvrs], "script": script,
                "det": [int(c.sample_num) for c in cvrs] == [int(c.sample_num) for c in cvrs2]}
    if k == "renumber":
        return _impl_renumber(case)
    if k == "prep":
        from shangrla.core.Audit import CVR
        ms = [CVR(id=i, votes={}) for i in case["mvr"]]
        cs = [CVR(id=i, votes={}) for i in case["cvr"]]
        order = {i: {"selection_order": k_, "serial": 0} for i, k_ in case["order"]}
        if case.get("polling"):
            # ballot-polling audits have no CVR sample: prep_polling_sample puts the manual records alone back into
            # selection order (the model is asked about the same list on both sides)
            CVR.prep_polling_sample(ms, order)
            return {"st": "ok", "mvr": [m.id for m in ms], "cvr": [m.id for m in ms]}
        CVR.prep_comparison_sample(ms, cs, order)
        return {"st": "ok", "mvr": [m.id for m in ms], "cvr": [c.id for c in cs]}
    if k == "data":
        from shangrla.core.Audit import Audit
        ty = {"comparison": Audit.AUDIT_TYPE.CARD_COMPARISON, "oneaudit": Audit.AUDIT_TYPE.ONEAUDIT,
              "polling": Audit.AUDIT_TYPE.POLLING, "other": "SOMETHING_ELSE"}[case["ty"]]
        con = _mk_contests([case["contest"]], use_style=case["use_style"], audit_type=ty)[case["contest"]["id"]]
        n = len(case["sample"])
        K = _K(n)
        asn = _mk_assertion(con, K, n)
        cs = _mk_cvrs(case["sample"], case["vseed"])
        ms = _mk_mvrs(n, [con.id], case["vseed"])
        d, u = asn.mvrs_to_data(ms, cs, use_all=case["use_all"])
        if case["ty"] == "polling":   # assorter values tag/K
            return {"st": "ok", "pos": [int(round(float(x) * K)) - 1 for x in d]}
        return {"st": "ok", "pos": _decode(d, K, n)}
    if k == "proved":
        from shangrla.core.Audit import Assertion, CVR
        from shangrla.core.NonnegMean import NonnegMean
        ps = [float(eval_frac(p)) for p in case["ps"]]
        calls = {"i": 0}

        def scripted(self, x, **kw):   # a "test" whose p-value is scripted per call
            p = ps[calls["i"]]; calls["i"] += 1
            return p, [p]
        con = _mk_contests([{"id": "A", "size": 1, "thr": 10}])["A"]
        con.risk_limit = float(eval_frac(case["limit"]))
        asn = _mk_assertion(con, _K(1), 1, test=NonnegMean(test=scripted))
        asn.proved = bool(case["init"])
        con.assertions = {"a": asn}
        cs = _mk_cvrs([{"styles": ["A"], "num": 1, "phantom": False}], 1)
        ms = _mk_mvrs(1, ["A"], 1)
        out = []
        for _ in ps:
            Assertion.set_p_values({"A": con}, ms, cs)
            out.append(bool(asn.proved))
        return {"st": "ok", "proved": out, "contest_proved": bool(con.proved["a"])}
    raise ValueError(k)


class _Stub:  # scripted generator: the i-th call returns the i-th scripted 32-byte hash
    def __init__(self, hs):
        self.hs, self.i = hs, 0

    def nextRandom(self):
        h = self.hs[self.i]; self.i += 1
        return h


def _script(op, n):
    """the first n outputs of a fresh generator for the numbering `op` (independent of the list being numbered)"""
    from cryptorandom.cryptorandom import SHA256, int_from_hash
    if op.get("hashes") is not None:
        return [str(int_from_hash(bytes.fromhex(h))) for h in op["hashes"][:n]]
    g = SHA256(op["seed"])
    return [str(int_from_hash(g.nextRandom())) for _ in range(n)]


def _impl_renumber(case):
    from shangrla.core.Audit import CVR
    from cryptorandom.cryptorandom import SHA256
    rng = random.Random(case["vseed"])
    cards = case["cards"]
    if case["via"] == "from_dict":
        ds = []
        for i, cd in enumerate(cards):
            d = {"id": f"c{i}", "votes": _votes(rng, cd["styles"]), "phantom": bool(cd["phantom"])}
            if cd.get("sampled") is not None:
                d["sampled"] = cd["sampled"]
            if cd.get("num") is not None:
                d["sample_num"] = int(cd["num"])
            ds.append(d)
        cvrs = CVR.from_dict(ds)
    else:
        cvrs = [CVR(id=f"c{i}", votes=_votes(rng, cd["styles"]), phantom=bool(cd["phantom"]),
                    **({} if cd.get("sampled") is None else {"sampled": cd["sampled"]}),
                    **({} if cd.get("num") is None else {"sample_num": int(cd["num"])}))
                for i, cd in enumerate(cards)]
    steps, last = [], None
    for op in case["ops"]:
        if op["op"] == "number":
            prng = _Stub([bytes.fromhex(h) for h in op["hashes"]]) if op.get("hashes") is not None else SHA256(op["seed"])
            CVR.assign_sample_nums(_cont(case, cvrs), prng)
            last = [str(int(c.sample_num)) for c in cvrs]
            steps.append({"nums": last})
        else:
            contests = _mk_contests([{"id": c, "size": nsz, "thr": None} for c, nsz in zip(case["contests"], op["sizes"])])
            sel = CVR.consistent_sampling(cvrs, contests)
            steps.append({"sel": [int(i) for i in sel], "thr": [_thr(contests[c]) for c in case["contests"]],
                          "flags": [bool(c.sampled) for c in cvrs]})
    return {"st": "ok", "steps": steps, "nums": last}


def eval_frac(s):
    from fractions import Fraction
    return Fraction(s)


# ------------------------------------------------------------------------------------------------
# model requests / comparison

def _jcards(cards):
    return [{"styles": cd["styles"], "num": str(cd["num"]), "phantom": bool(cd["phantom"])} for cd in cards]


def _jcons(cons):
    return [{"id": c["id"], "size": c.get("size", 0), "thr": (None if c.get("thr") is None else str(c["thr"]))} for c in cons]


def request(case):
    k = case["kind"]
    if k == "rounds":
        return ("sampling", "rounds", {"use_style": case["use_style"], "cards": _jcards(case["cards"]),
                                       "contests": _jcons(case["contests"]), "rounds": case["rounds"]})
    if k == "cs":
        return ("sampling", "cs", {"cards": _jcards(case["cards"]), "contests": _jcons(case["contests"]), "prev": case["prev"]})
    if k == "assign":
        if case.get("seed") is None:
            from cryptorandom.cryptorandom import int_from_hash
            script = [str(int_from_hash(bytes.fromhex(h))) for h in case["hashes"]]
        else:
            # the generator is a parameter of the model: script = the first n outputs of an independent instance
            from cryptorandom.cryptorandom import SHA256, int_from_hash
            g = SHA256(case["seed"])
            script = [str(int_from_hash(g.nextRandom())) for _ in range(case["n"])]
        return ("sampling", "assign", {"n": case["n"], "nums": script})
    if k == "renumber":
        # the model numbers a list from the stream and the position only: ask it about the LAST numbering
        last = [op for op in case["ops"] if op["op"] == "number"][-1]
        return ("sampling", "assign", {"n": len(case["cards"]), "nums": _script(last, len(case["cards"]))})
    if k == "prep":
        return ("sampling", "prep", {"mvr": case["mvr"], "cvr": case["mvr"] if case.get("polling") else case["cvr"],
                                     "order": case["order"]})
    if k == "data":
        ty = "comparison" if case["ty"] in ("comparison", "oneaudit") else case["ty"]
        return ("sampling", "data", {"ty": ty, "use_style": case["use_style"], "use_all": case["use_all"],
                                     "contest": _jcons([case["contest"]])[0], "sample": _jcards(case["sample"])})
    if k == "proved":
        return ("sampling", "proved", {"limit": case["limit"], "ps": case["ps"], "init": case["init"]})
    raise ValueError(k)


def _st(ir, mr):
    if ir.get("st") != mr.get("st"):
        return f"status differs: impl={ir.get('st')}/{ir.get('err')} model={mr.get('st')}/{mr.get('err')}"
    if ir["st"] == "err" and ir["err"] != mr["err"]:
        return f"error kind differs: {ir['err']} vs {mr['err']}"
    return None


def compare(case, ir, mr):
    k = case["kind"]
    s = _st(ir, mr)
    if s or ir["st"] == "err":
        return s
    if k == "rounds":
        a, b = ir["rounds"], mr["rounds"]
        if len(a) != len(b):
            return f"number of executed rounds differs: {len(a)} vs {len(b)}"
        for r, (x, y) in enumerate(zip(a, b)):
            s = _st(x, y)
            if s:
                return f"round {r}: {s}"
            if x["st"] == "err":
                continue
            if x["sel"] != y["sel"]:
                return f"round {r}: selected {x['sel']} vs model {y['sel']}"
            if x["thr"] != y["thr"]:
                return f"round {r}: thresholds {x['thr']} vs model {y['thr']}"
            for ci, (dx, dy, py) in enumerate(zip(x["cards"], y["cards"], y["data"])):
                s = _st(dx, dy)
                if s:
                    return f"round {r} contest {ci} data: {s}"
                if dx["st"] == "ok":
                    cid = case["contests"][ci]["id"]
                    want = [_label(case["cards"], i, cid) for i in dy["v"]]     # (= dy["v"] when every card carries a tag)
                    if dx["v"] != want:
                        return f"round {r} contest {ci}: data cards {dx['v']} vs model {dy['v']}" + (
                            "" if want == dy["v"] else f" (as labels: {want})")
                    if [(x["sel"].index(i) if i in x["sel"] else -1) if i >= 0 else py["v"][k]
                            for k, i in enumerate(dx["v"])] != py["v"]:
                        return f"round {r} contest {ci}: data positions differ"
        # accumulated `sampled` flags: compare the last successful round with the union of the model's selections
        oks = [x for x in a if x["st"] == "ok"]
        if oks:
            want = set()
            for y in b:
                if y["st"] == "ok":
                    want |= set(y["sel"])
            if [i for i, f in enumerate(oks[-1]["flags"]) if f] != sorted(want):
                return "sampled flags differ"
        return None
    if k == "cs":
        for f in ("sel", "thr", "flags"):
            if ir[f] != mr[f]:
                return f"{f}: {ir[f]} vs model {mr[f]}"
        return None
    if k == "assign":
        return None if ir["nums"] == mr["nums"] else "sample numbers differ"
    if k == "renumber":
        return None if ir["nums"] == mr["nums"] else ("sample numbers after the last numbering of the sequence differ "
                                                       "from the model's (a function of stream and position only)")
    if k == "prep":
        return None if (ir["mvr"], ir["cvr"]) == (mr["mvr"], mr["cvr"]) else "sorted id lists differ"
    if k == "data":
        return None if ir["pos"] == mr["pos"] else f"positions {ir['pos']} vs model {mr['pos']}"
    if k == "proved":
        return None if ir["proved"] == mr["proved"] else f"proved flags {ir['proved']} vs model {mr['proved']}"
    return "unknown kind"


def signature(case, ir):
    k = case["kind"]
    if ir.get("st") != "ok":
        return f"{k};err:{ir.get('err')}"
    if k == "rounds":
        rs = ir["rounds"]
        errs = [r["err"] for r in rs if r["st"] == "err"]
        derr = any(d["st"] == "err" for r in rs if r["st"] == "ok" for d in r["cards"])
        tag = f"rounds={len(case['rounds'])};" + ("cont" if any(r["cont"] for r in case["rounds"][1:]) else "scratch")
        if errs:
            return f"rounds;err:{errs[0]};{tag}"
        if derr:
            return f"rounds;data-err;{tag}"
        last = [r for r in rs if r["st"] == "ok"][-1]
        pos = [len(d["v"]) for d in last["cards"] if d["st"] == "ok" and d["v"]]
        shared = len(last["sel"]) < sum(pos)
        if len(set(pos)) >= 2 and shared:
            return f"rounds;shared;{tag}"
        return f"trivial:rounds;{tag}"
    if k == "cs":
        return "cs;" + ("scratch" if case["prev"] is None else "prev")
    if k == "renumber":
        ops = case["ops"]
        flagged = any(cd.get("sampled") for cd in case["cards"])
        drawn = any(o["op"] == "sample" and any(o["sizes"]) for o in ops[:-1]) and any(
            o["op"] == "number" for i, o in enumerate(ops) if any(p["op"] == "sample" and any(p["sizes"]) for p in ops[:i]))
        if not case["cards"] or not (flagged or drawn):
            return "trivial:renumber"
        return f"renumber;{case['via']};" + ("flagged" if flagged else "") + ("+drawn" if drawn else "")
    if k == "proved":
        p = ir["proved"]
        return "proved;" + ("flip" if (True in p and False in p) else "const")
    if k == "data":
        return f"data;{case['ty']};style={case['use_style']};all={case['use_all']};thr={'none' if case['contest'].get('thr') is None else 'num'}"
    return k


# ------------------------------------------------------------------------------------------------
# generators

def _nums(rng, n, mode):
    if mode == "pos":
        return list(range(n))
    if mode == "small":
        return rng.sample(range(0, 3 * n + 3), n)
    if mode == "big":
        return [rng.getrandbits(256) for _ in range(n)]
    if mode == "ties":
        return [rng.randint(0, max(1, n // 2)) for _ in range(n)]
    if mode == "close":
        # distinct numbers of SHA-256 size that agree in their leading bits (they differ far below the 53 bits a double
        # keeps): one or two clusters `base + small offset`; the exact integer order is the only order there is
        offs = rng.sample(range(0, 3 * n + 3), n)
        bases = [rng.choice([1 << 255, (1 << 255) + rng.getrandbits(200), rng.getrandbits(256) | (1 << 250),
                             1 << rng.randint(54, 120)])]
        if rng.chance(0.4):
            bases.append(bases[0] + (1 << rng.randint(8, 40)))
        return [rng.choice(bases) + o for o in offs]
    raise ValueError(mode)


def _cards(rng, n, cids, mode=None):
    mode = mode or rng.choice(["small", "small", "big", "pos", "close"])
    nums = _nums(rng, n, mode)
    if mode == "big" and len(set(nums)) < n:
        nums = _nums(rng, n, "small")
    dens = rng.choice([0.2, 0.5, 0.8])
    cards = []
    for i in range(n):
        st = [c for c in cids if rng.chance(dens)]
        if rng.chance(0.3):
            rng.shuffle(st)
        if rng.chance(0.1):
            st = st + ["ZZ"]          # a contest that is not under audit
        cards.append({"styles": st, "num": nums[i], "phantom": rng.chance(0.15)})
    return cards


def _avail(cards, c):
    return sum(1 for cd in cards if c in cd["styles"])


def _size_path(rng, avail, nr):
    """non-decreasing sizes 0 <= n_1 <= ... <= n_nr <= avail; mostly positive, hitting 0 and avail regularly"""
    top = rng.choice([avail, avail, rng.randint(0, avail)])
    lo = 0 if (top == 0 or rng.chance(0.12)) else 1
    return sorted(rng.choice([top, rng.randint(lo, top), rng.randint(lo, top)]) for _ in range(nr))


def gen_rounds(rng, n=None, ncon=None, nr=None, malformed=None):
    n = n or rng.choice([1, 2, 3, 4, 5, 6, 8, 10, 15, 25, 40])
    ncon = ncon or rng.randint(1, 5)
    cids = _cids(rng, ncon)
    if rng.chance(0.3):
        cids = list(cids); rng.shuffle(cids)
    nr = nr or rng.randint(1, 4)
    cards = _cards(rng, n, cids, "ties" if malformed == "ties" else None)
    paths = {c: _size_path(rng, _avail(cards, c), nr) for c in cids}
    rounds = [{"sizes": [paths[c][r] for c in cids], "cont": bool(r > 0 and rng.chance(0.5)),
               "prev_order": rng.choice(["returned", "returned", "index", "rev"]),
               "failed_first": rng.chance(0.12)} for r in range(nr)]
    if malformed == "beyond":
        r = rng.randrange(nr); ci = rng.randrange(ncon)
        for rr in range(r, nr):
            rounds[rr]["sizes"][ci] = _avail(cards, cids[ci]) + rng.randint(1, 2)
    if malformed == "decrease" and nr >= 2:
        r = rng.randrange(1, nr)
        rounds[r]["sizes"] = [rng.randint(0, max(0, s)) for s in rounds[r - 1]["sizes"]]
    if rng.chance(0.4):
        _vary_mvrs(rng, cards, cids)
    case = {"kind": "rounds", "use_style": (malformed != "nostyle"), "cards": cards,
            "contests": [{"id": c, "size": 0, "thr": None} for c in cids], "rounds": rounds,
            "vseed": rng.randint(0, 10 ** 6)}
    return _with_scale(rng, case)


def _with_scale(rng, case):
    """fractional sample numbers k/D (floats or Fractions) in 1 case in 5 whose numbers are small"""
    if all(isinstance(cd["num"], int) and 0 <= cd["num"] < 2 ** 50 for cd in case["cards"]) and rng.chance(0.2):
        case["num_scale"] = [rng.choice([2, 4, 64, 1024, 2 ** 20]), rng.choice(["float", "float", "fraction"])]
    elif all(isinstance(cd["num"], int) and 0 <= cd["num"] < 2 ** 50 for cd in case["cards"]) and rng.chance(0.2):
        top = max([cd["num"] for cd in case["cards"]] + [1])
        case["num_scale"] = [rng.choice([2 ** 63 - 1 - top // 2, 2 ** 63 - 3, 2 ** 200, -(top // 2) - 1, -top - 7, -10 ** 9]), "shift"]
    return case


def _vary_mvrs(rng, cards, cids):
    """what the audit board reports for each card: nothing special (the record lists every audited contest), the card
    was not found (phantom record: mostly for phantom CVRs, now and then for a real one), or a found card whose record lacks some of
    the contests -- among them, usually, contests its CVR lists"""
    p_lack = rng.choice([0.15, 0.3, 0.6])
    for cd in cards:
        u = rng.random()
        if cd["phantom"]:
            if u < 0.75:
                cd["mvr"] = {"phantom": True, "lacks": [], "empty": rng.chance(0.8)}
            elif u < 0.9:
                cd["mvr"] = {"phantom": False, "lacks": [c for c in cids if rng.chance(0.5)]}
            continue
        if u < 0.08:
            cd["mvr"] = {"phantom": True, "lacks": [], "empty": rng.chance(0.8)}
        elif u < 0.08 + p_lack:
            listed = [c for c in cids if c in cd["styles"]]
            lacks = [c for c in listed if rng.chance(0.6)] + [c for c in cids if c not in listed and rng.chance(0.5)]
            if listed and not lacks:
                lacks = [rng.choice(listed)]
            cd["mvr"] = {"phantom": False, "lacks": lacks}


def gen_exhaustive(rng, maxn):
    """every style sequence of <= maxn cards over 2 contests x every feasible size vector; sample numbers a random
    permutation; then a second round with a random feasible increase in a random variant"""
    sty = [[], ["A"], ["B"], ["A", "B"]]
    for n in range(1, maxn + 1):
        for seq in itertools.product(range(4), repeat=n):
            perm = list(range(n)); rng.shuffle(perm)
            cards = [{"styles": sty[s], "num": perm[i], "phantom": False} for i, s in enumerate(seq)]
            aA, aB = _avail(cards, "A"), _avail(cards, "B")
            for nA in range(aA + 1):
                for nB in range(aB + 1):
                    rounds = [{"sizes": [nA, nB], "cont": False}]
                    if rng.chance(0.5):
                        rounds.append({"sizes": [rng.randint(nA, aA), rng.randint(nB, aB)], "cont": rng.chance(0.5),
                                       "prev_order": rng.choice(["returned", "index", "rev"])})
                    cc = cards
                    if rng.chance(0.25):
                        cc = [dict(cd) for cd in cards]
                        _vary_mvrs(rng, cc, ["A", "B"])
                    yield {"kind": "rounds", "use_style": True, "cards": cc,
                           "contests": [{"id": "A", "size": 0, "thr": None}, {"id": "B", "size": 0, "thr": None}],
                           "rounds": rounds, "vseed": rng.randint(0, 10 ** 6)}


def gen_cs(rng):
    n = rng.choice([1, 2, 3, 5, 8, 12])
    ncon = rng.randint(1, 4)
    cids = _cids(rng, ncon)
    cards = _cards(rng, n, cids, rng.choice(["small", "pos", "ties", "close"]))
    cons = []
    for c in cids:
        a = _avail(cards, c)
        cons.append({"id": c, "size": rng.choice([0, a, rng.randint(0, a), a + (1 if rng.chance(0.1) else 0)]),
                     "thr": rng.choice([None, None, rng.randint(0, 3 * n)])})
    mode = rng.choice(["none", "subset", "subset", "dups", "range"])
    if mode == "none":
        prev = None
    else:
        prev = rng.sample(range(n), rng.randint(0, n))
        if mode == "dups" and prev:
            prev.append(rng.choice(prev))
        if mode == "range":
            prev.append(n + rng.randint(0, 2))
    return _with_scale(rng, {"kind": "cs", "cards": cards, "contests": cons, "prev": prev, "vseed": rng.randint(0, 10 ** 6)})


def gen_assign(rng):
    from ..core import CONTAINER_KINDS
    n = rng.randint(0, 12)
    if rng.chance(0.5):
        return {"kind": "assign", "n": n, "seed": None, "hashes": [("%064x" % rng.getrandbits(256)) for _ in range(n)],
                "vseed": rng.randint(0, 10 ** 6), "container": rng.choice(CONTAINER_KINDS)}
    return {"kind": "assign", "n": n, "seed": rng.choice([1234567890, rng.randint(0, 10 ** 9)]), "hashes": None,
            "vseed": rng.randint(0, 10 ** 6), "container": rng.choice(CONTAINER_KINDS)}


def gen_renumber(rng):
    """number -> draw -> number again (other seed / same seed / scripted stream) on one list; cards may arrive with
    'sampled': True (a reloaded list) and stale numbers"""
    n = rng.choice([1, 2, 3, 4, 5, 6, 8, 12, 20])
    ncon = rng.randint(1, 3)
    cids = _cids(rng, ncon)
    cards = _cards(rng, n, cids, "small")
    via = rng.choice(["ctor", "from_dict", "from_dict"])
    preset = rng.choice(["none", "none", "some", "all"])
    for cd in cards:
        stale = cd.pop("num")
        cd["num"] = stale if rng.chance(0.4) else None
        cd["sampled"] = {"none": None if via == "from_dict" else False, "some": rng.chance(0.4), "all": True}[preset]
        if preset == "none" and rng.chance(0.3):
            cd["sampled"] = False

    def number():
        if rng.chance(0.35):
            return {"op": "number", "seed": None, "hashes": [("%064x" % rng.getrandbits(256)) for _ in range(n)]}
        return {"op": "number", "seed": rng.choice([1234567890, 987654321, rng.randint(0, 10 ** 9), rng.getrandbits(80)])}

    def sample():
        sizes = []
        for c in cids:
            a = _avail(cards, c)
            sizes.append(rng.choice([a, rng.randint(0, a), rng.randint(min(1, a), a)]))
        return {"op": "sample", "sizes": sizes}
    ops = [number()]
    for _ in range(rng.choice([1, 1, 2, 3])):
        if rng.chance(0.85):
            ops.append(sample())
        nxt = number()
        if rng.chance(0.15):
            nxt = dict(ops[0])                   # the same seed again
        ops.append(nxt)
    if rng.chance(0.6):
        ops.append(sample())
    return {"kind": "renumber", "cards": cards, "via": via, "contests": cids, "ops": ops, "vseed": rng.randint(0, 10 ** 6)}


def gen_prep(rng):
    n = rng.randint(0, 8)
    ids = [f"c{i}" for i in range(n)]
    order = list(range(n)); rng.shuffle(order)
    m = list(ids); c = list(ids)
    rng.shuffle(m); rng.shuffle(c)
    mode = rng.choice(["ok", "ok", "ok", "missing", "len", "mismatch", "tie"])
    pairs = [[i, k] for i, k in zip(ids, order)]
    if mode == "missing" and n:
        pairs.pop(rng.randrange(n))
    if mode == "len" and n:
        (m if rng.chance(0.5) else c).pop()
    if mode == "mismatch" and n:
        x = rng.randrange(n)
        m[x] = "zz"; pairs.append(["zz", rng.randint(0, n)])
    if mode == "tie" and n >= 2:
        pairs[0][1] = pairs[1][1]
    rng.shuffle(pairs)
    return {"kind": "prep", "mvr": m, "cvr": c, "order": pairs}


def gen_data(rng):
    n = rng.randint(0, 8)
    sample = _cards(rng, n, ["A", "B"], rng.choice(["small", "ties"]))
    return {"kind": "data", "ty": rng.choice(["comparison", "comparison", "comparison", "oneaudit", "polling", "other"]),
            "use_style": rng.chance(0.7), "use_all": rng.chance(0.3),
            "contest": {"id": "A", "size": 0, "thr": rng.choice([None, rng.randint(0, 3 * n + 1), rng.randint(0, 3 * n + 1)])},
            "sample": sample, "vseed": rng.randint(0, 10 ** 6)}


def gen_proved(rng):
    k = rng.randint(1, 5)
    limit = rng.choice(["1/20", "1/10", "1/2"])
    ps = [rng.choice(["1/100", "1/20", "1/10", "3/10", "1/2", "1", "0", "1/21"]) for _ in range(k)]
    return {"kind": "proved", "limit": limit, "ps": ps, "init": rng.chance(0.15)}


def corpus():
    three = [{"styles": ["A"], "num": 0, "phantom": False}, {"styles": ["A"], "num": 1, "phantom": False},
             {"styles": ["A", "B"], "num": 2, "phantom": False}]
    ab = [{"id": "A", "size": 0, "thr": None}, {"id": "B", "size": 0, "thr": None}]
    f10 = [{"styles": [s_ for s_ in s], "num": i, "phantom": False} for i, s in enumerate(["A", "B", "A", "A", "B"])]
    test6 = [{"styles": s, "num": i, "phantom": False} for i, s in enumerate(
        [["city_council", "measure_1"]] * 3 + [["city_council"]] * 2 + [["measure_1"]])]
    return [
        # F24: three rounds, continue twice; a card selected for B enters A's data later
        {"kind": "rounds", "use_style": True, "cards": three, "contests": ab, "vseed": 1,
         "rounds": [{"sizes": [1, 1], "cont": False}, {"sizes": [2, 1], "cont": True}, {"sizes": [3, 1], "cont": True}]},
        {"kind": "rounds", "use_style": True, "cards": three, "contests": ab, "vseed": 2,
         "rounds": [{"sizes": [1, 1], "cont": False}, {"sizes": [3, 1], "cont": True}, {"sizes": [3, 1], "cont": False}]},
        # F10: continue after n_A = 2 with one more card for each contest
        {"kind": "rounds", "use_style": True, "cards": f10, "contests": ab, "vseed": 3,
         "rounds": [{"sizes": [2, 0], "cont": False}, {"sizes": [3, 1], "cont": True}]},
        # test_consistent_sampling of the repo's suite
        {"kind": "rounds", "use_style": True, "cards": test6, "vseed": 4,
         "contests": [{"id": "city_council", "size": 0, "thr": None}, {"id": "measure_1", "size": 0, "thr": None}],
         "rounds": [{"sizes": [3, 4], "cont": False}]},
        # F20: a contest with n_c = 0 and no threshold, a sampled card lists it
        {"kind": "rounds", "use_style": True, "cards": three, "contests": ab, "vseed": 5,
         "rounds": [{"sizes": [0, 1], "cont": False}]},
        {"kind": "rounds", "use_style": True, "cards": three, "contests": ab, "vseed": 6,
         "rounds": [{"sizes": [4, 1], "cont": False}]},
        {"kind": "cs", "cards": three, "contests": [{"id": "A", "size": 0, "thr": 7}, {"id": "B", "size": 1, "thr": None}],
         "prev": [1, 1, 0], "vseed": 7},
        {"kind": "assign", "n": 6, "seed": 1234567890, "hashes": None, "vseed": 8},
        # number, draw, number again with another seed; and a list reloaded with 'sampled': True
        {"kind": "renumber", "via": "ctor", "contests": ["A", "B"], "vseed": 9,
         "cards": [{"styles": s_, "phantom": False, "num": None, "sampled": False} for s_ in
                   (["A", "B"], ["A"], ["A"], ["B"], ["A", "B"], ["A"], ["B"], ["A", "B"])],
         "ops": [{"op": "number", "seed": 1234567890}, {"op": "sample", "sizes": [2, 1]},
                 {"op": "number", "seed": 987654321}, {"op": "sample", "sizes": [2, 1]}]},
        {"kind": "renumber", "via": "from_dict", "contests": ["A"], "vseed": 10,
         "cards": [{"styles": ["A"], "phantom": False, "num": 5 - i, "sampled": bool(i % 2)} for i in range(5)],
         "ops": [{"op": "number", "seed": 1234567890}, {"op": "sample", "sizes": [3]}]},
        {"kind": "proved", "limit": "1/20", "ps": ["1/2", "1/100", "1/2"], "init": False},
    ]


def gen_options(rng):
    """call forms and value types the other streams never use (OPTIONS_AUDIT.md):
      * prep_polling_sample (ballot-polling audits: the manual records alone are put back into selection order);
      * consistent_sampling called with its documented keywords, `sampled_cvr_indices` left out when there is none;
      * (`num_scale`, as in the main stream since round 7, here mostly with a scale that brings EVERY number into [0, 1))
        sample numbers that are floats / Fractions with a fractional part"""
    u = rng.random()
    if u < 0.35:
        c = gen_prep(rng)
        for _ in range(6):
            if c["mvr"] and sorted(c["mvr"]) == sorted(c["cvr"]) or not c["mvr"]:
                break
            c = gen_prep(rng)
        c["cvr"] = list(c["mvr"])
        c["polling"] = True
        return c
    if u < 0.70:
        c = gen_cs(rng)
        c["call"] = rng.choice(["kw", "kw", "pos"])
        if rng.chance(0.6) and all(0 <= int(cd["num"]) < 2 ** 40 for cd in c["cards"]) and \
                all(k.get("thr") is None or 0 <= int(k["thr"]) < 2 ** 40 for k in c["contests"]):
            c["num_scale"] = [_scale_for(rng, c["cards"]), rng.choice(["float", "float", "fraction"])]
        return c
    c = gen_rounds(rng, n=rng.choice([2, 3, 4, 6, 8, 12, 20]))
    if all(0 <= int(cd["num"]) < 2 ** 40 for cd in c["cards"]):
        c["num_scale"] = [_scale_for(rng, c["cards"]), rng.choice(["float", "float", "fraction"])]
    return c


def _scale_for(rng, cards):
    """a power of two D: mostly one that brings every sample number into [0, 1) (numbers drawn uniformly from the unit
    interval), else a small one (halves, quarters: some numbers integral, most not)"""
    top = max([int(cd["num"]) for cd in cards] + [1])
    big = 1 << (top.bit_length() + rng.choice([0, 0, 1, 3]))
    return rng.choice([big, big, 2, 4, 8])


def gen(rng, n, tier):
    import hashlib
    from ..core import Rng
    opt = Rng(int(hashlib.sha1(("options" + repr(rng.getstate())).encode()).hexdigest()[:15], 16))
    yield from gen_main(rng, n, tier)
    for _ in range(max(8, n // 40)):
        yield gen_options(opt)


def gen_main(rng, n, tier):
    count = 0
    ex = list(gen_exhaustive(rng, 4 if tier == "quick" else 5))
    if len(ex) > n // 2:
        # never truncate silently in the thorough tier: budgets are chosen so that everything fits
        rng.shuffle(ex)
        ex = ex[: n // 2]
    for c in ex:
        yield c; count += 1
    while count < n:
        u = rng.random()
        if u < 0.50:
            yield gen_rounds(rng)
        elif u < 0.58:
            yield gen_rounds(rng, malformed=rng.choice(["ties", "beyond", "decrease", "nostyle"]))
        elif u < 0.63:
            yield gen_rounds(rng, n=rng.randint(2, 6), ncon=rng.randint(2, 3), nr=rng.randint(3, 4))
        elif u < 0.75:
            yield gen_cs(rng)
        elif u < 0.78:
            yield gen_assign(rng)
        elif u < 0.82:
            yield gen_renumber(rng)
        elif u < 0.87:
            yield gen_prep(rng)
        elif u < 0.95:
            yield gen_data(rng)
        else:
            yield gen_proved(rng)
        count += 1


# ------------------------------------------------------------------------------------------------
# oracles (the properties evaluated on the implementation's results; nothing here uses the model)

def _order(cards):
    return sorted(range(len(cards)), key=lambda i: int(cards[i]["num"]))


def _valid_cards(case):
    nums = [int(cd["num"]) for cd in case["cards"]]
    return len(set(nums)) == len(nums)


def _prefixes(case, sizes):
    """per contest: its first n_c cards in sample-number order (independent recomputation)"""
    cards = case["cards"]
    order = _order(cards)
    out = []
    for con, nc in zip(case["contests"], sizes):
        mine = [i for i in order if con["id"] in cards[i]["styles"]]
        out.append((mine, mine[:nc]))
    return out


def oracle_c07(case, ir):
    k = case["kind"]
    if k == "prep":
        # "ordering of MVR/CVR samples by selection order": when every sampled id has its own selection order, the
        # manual records (and, in a comparison audit, the CVRs) come back in that order
        order = {i: k_ for i, k_ in case["order"]}
        ids = case["mvr"]
        wellformed = (len(order) == len(case["order"]) and len(set(order.values())) == len(order)
                      and all(i in order for i in ids) and len(set(ids)) == len(ids)
                      and (case.get("polling") or sorted(case["cvr"]) == sorted(ids)))
        if not wellformed:
            return None
        if ir.get("st") != "ok":
            return {"what": f"{'prep_polling_sample' if case.get('polling') else 'prep_comparison_sample'} raised {ir.get('err')} on a "
                            f"sample in which every card has its own selection order"}
        want = sorted(ids, key=lambda i: order[i])
        if ir["mvr"] != want or ir["cvr"] != want:
            return {"what": f"{'prep_polling_sample' if case.get('polling') else 'prep_comparison_sample'} left the manual records "
                            f"in the order {ir['mvr']}" + ("" if case.get("polling") else f" and the CVRs in {ir['cvr']}")
                            + f"; selection order is {want}"}
        return None
    if k == "assign":
        if ir.get("st") != "ok":
            return {"what": f"assign_sample_nums raised {ir.get('err')}"}
        if ir["nums"] != ir["script"]:
            return {"what": "the k-th card did not get the k-th output of the generator", "nums": ir["nums"][:3]}
        if not ir["det"]:
            return {"what": "same seed gave different sample numbers for different records"}
        return None
    if k == "renumber":
        if ir.get("st") != "ok":
            return {"what": f"numbering / sampling sequence raised {ir.get('err')}: {ir.get('msg')}"}
        n = len(case["cards"])
        want = None
        for j, (op, res) in enumerate(zip(case["ops"], ir["steps"])):
            if op["op"] == "number":
                want = _script(op, n)
                if res["nums"] != want:
                    bad = [i for i in range(n) if res["nums"][i] != want[i]]
                    return {"what": f"operation {j} (numbering with {'scripted stream' if op.get('hashes') is not None else 'seed ' + str(op['seed'])}"
                                    f", after {[o['op'] for o in case['ops'][:j]]}): cards {bad} do not hold the output "
                                    f"of a fresh generator for their position -- sample numbers depend on history",
                            "cards_sampled_flag_on_entry": [cd.get("sampled") for cd in case["cards"]]}
            elif want is not None and len(set(want)) == n:
                fresh = {"cards": [{"styles": cd["styles"], "num": w} for cd, w in zip(case["cards"], want)],
                         "contests": [{"id": c} for c in case["contests"]]}
                pf = _prefixes(fresh, op["sizes"])
                union = set()
                for _, first in pf:
                    union |= set(first)
                sel = [i for i in _order(fresh["cards"]) if i in union]
                if res["sel"] != sel:
                    return {"what": f"operation {j}: selected {res['sel']}; the union of the per-contest prefixes under the "
                                    f"numbers a fresh list gets from the same stream is {sel}", "sizes": op["sizes"]}
                for ci, ((mine, first), nc) in enumerate(zip(pf, op["sizes"])):
                    if nc >= 1 and res["thr"][ci] != want[first[-1]]:
                        return {"what": f"operation {j} contest {case['contests'][ci]}: threshold {res['thr'][ci]} is not "
                                        f"the sample number of its {nc}-th card under a fresh numbering"}
        return None
    if k == "cs":
        # one call on Contest objects that may carry a threshold from an earlier draw (`thr`), no carried-over sample
        if case["prev"] is not None or not _valid_cards(case) or ir.get("st") != "ok":
            return None
        sizes = [int(c["size"]) for c in case["contests"]]
        pf = _prefixes(case, sizes)
        if any(nc < 0 or nc > len(mine) for (mine, _), nc in zip(pf, sizes)):
            return None                      # outside the quantifier (IndexError expected)
        union = set()
        for _, first in pf:
            union |= set(first)
        want = [i for i in _order(case["cards"]) if i in union]
        if ir["sel"] != want:
            return {"what": f"selected {ir['sel']}, union of per-contest prefixes in sample order is {want}", "sizes": sizes}
        for ci, ((mine, first), nc) in enumerate(zip(pf, sizes)):
            if nc >= 1:
                t = str(int(case["cards"][first[-1]]["num"]))
                if ir["thr"][ci] != t:
                    return {"what": f"contest {case['contests'][ci]['id']} (threshold {case['contests'][ci].get('thr')} left by "
                                    f"an earlier draw): threshold after this draw is {ir['thr'][ci]}, the sample number "
                                    f"of its {nc}-th card is {t}"}
        return None
    if k != "rounds" or not case["use_style"] or not _valid_cards(case):
        return None
    if ir.get("st") != "ok":
        return {"what": f"history raised {ir.get('err')}: {ir.get('msg')}"}
    if not ir["meta_same"]:
        return {"what": "changing vote contents changed the selection, thresholds or data"}
    cards = case["cards"]
    prev_sizes = None
    for r, (rd, res) in enumerate(zip(case["rounds"], ir["rounds"])):
        sizes = rd["sizes"]
        pf = _prefixes(case, sizes)
        if any(nc > len(mine) for (mine, _), nc in zip(pf, sizes)):
            return None                      # outside the quantifier from here on (IndexError expected)
        if prev_sizes is not None and any(a > b for a, b in zip(prev_sizes, sizes)):
            return None                      # decreasing sizes: the union with the carried-over cards, not C07's claim
        prev_sizes = sizes
        if res["st"] != "ok":
            return {"what": f"round {r}: consistent_sampling raised {res['err']} although every n_c <= #cards listing c",
                    "sizes": sizes}
        union = set()
        for _, first in pf:
            union |= set(first)
        want = [i for i in _order(cards) if i in union]
        if res["sel"] != want:
            return {"what": f"round {r}: selected {res['sel']}, union of per-contest prefixes in sample order is {want}",
                    "sizes": sizes}
        if not res.get("prep_ok", True):
            return {"what": f"round {r}: prep_comparison_sample did not restore the selection order"}
        flagged = [i for i, f in enumerate(res.get("flags", [])) if f]
        if "flags" in res and flagged != sorted(want):
            return {"what": f"round {r}: the cards recorded as sampled (`sampled` flags, read by find_sample_size) are "
                            f"{flagged}; the union of the per-contest prefixes is {sorted(want)}"
                            + (" -- after a request that raised IndexError and was then corrected" if rd.get("failed_first") else ""),
                    "sizes": sizes}
        for ci, ((mine, first), nc) in enumerate(zip(pf, sizes)):
            if nc >= 1:
                t = str(int(cards[first[-1]]["num"]))
                if res["thr"][ci] != t:
                    return {"what": f"round {r} contest {case['contests'][ci]['id']}: threshold {res['thr'][ci]}, "
                                    f"sample number of its {nc}-th card is {t}"}
                d = res["cards"][ci]
                cid = case["contests"][ci]["id"]
                lab = [_label(cards, i, cid) for i in first]
                if d["st"] != "ok" or d["v"] != lab:
                    return {"what": f"round {r} contest {cid}: data cards "
                                    f"{d.get('v', d.get('err'))}, its first {nc} cards are {first}"
                                    + ("" if lab == first else f" (as labels: {lab}; -1 = phantom CVR with a manual record that scores 0)")
                                    + (f"; manual records: { {i: cards[i]['mvr'] for i in first if cards[i].get('mvr')} }"
                                       if any(cards[i].get("mvr") for i in first) else "")}
    return None


def oracle_c10(case, ir):
    k = case["kind"]
    if k == "proved":
        if ir.get("st") != "ok":
            return {"what": f"set_p_values raised {ir.get('err')}"}
        seen = bool(case["init"])
        from fractions import Fraction
        for j, (p, b) in enumerate(zip(case["ps"], ir["proved"])):
            seen = seen or (Fraction(p) <= Fraction(case["limit"]))
            if b != seen:
                return {"what": f"after call {j}: proved={b}, but the assertion was "
                                f"{'confirmed earlier' if seen else 'never confirmed'}"}
        return None
    if k == "cs" and case.get("prev") is not None and ir.get("st") == "ok" and _valid_cards(case) and \
            len(set(case["prev"])) == len(case["prev"]):
        # a continued draw on records that do not carry the earlier round's `sampled` flags (a list re-created between
        # sessions): the cards handed back stay in the sample, each card is listed once -- otherwise every assertion's
        # data repeat observations and are no longer the earlier data with new observations appended
        sel = ir["sel"]
        if len(set(sel)) != len(sel):
            dup = sorted({i for i in sel if sel.count(i) > 1})
            return {"what": f"continued draw (cards {case['prev']} handed back): the returned sample {sel} lists cards {dup} "
                            f"more than once", "flags_on_entry": "unset (records re-created between rounds)"}
        if not set(case["prev"]) <= set(sel):
            return {"what": f"continued draw: the returned sample {sel} does not contain the cards handed back {case['prev']}"}
        flagged = [i for i, f in enumerate(ir.get("flags", [])) if f]
        if "flags" in ir and flagged != sorted(set(sel)):
            return {"what": f"continued draw: the cards recorded as sampled afterwards are {flagged}, the sample is {sorted(set(sel))} "
                            f"(the next round's sample sizes are computed from these flags)"}
        return None
    if k != "rounds" or not case["use_style"] or not _valid_cards(case):
        return None
    if ir.get("st") != "ok":
        return {"what": f"history raised {ir.get('err')}: {ir.get('msg')}"}
    rs = case["rounds"]
    for r in range(len(rs)):
        pf = _prefixes(case, rs[r]["sizes"])
        if any(nc > len(mine) for (mine, _), nc in zip(pf, rs[r]["sizes"])):
            return None
        if r > 0 and any(a > b for a, b in zip(rs[r - 1]["sizes"], rs[r]["sizes"])):
            return None
        if r >= len(ir["rounds"]) or ir["rounds"][r]["st"] != "ok":
            return {"what": f"round {r}: consistent_sampling raised although every n_c <= #cards listing c"}
        cur = ir["rounds"][r]
        if cur["alt"] is not None:
            if "err" in cur["alt"]:
                return {"what": f"round {r}: the {'scratch' if rs[r]['cont'] else 'continue'} variant raised {cur['alt']['err']}"}
            if set(cur["alt"]["sel"]) != set(cur["sel"]):
                return {"what": f"round {r}: continue and scratch select different sets: {cur['sel']} vs {cur['alt']['sel']}"}
            if cur["alt"]["thr"] != cur["thr"]:
                return {"what": f"round {r}: continue and scratch give different thresholds"}
        if r == 0:
            continue
        old = ir["rounds"][r - 1]
        if not set(old["sel"]) <= set(cur["sel"]):
            return {"what": f"round {r}: selected {cur['sel']} does not contain the previous round's {old['sel']}"}
        for ci, (d0, d1) in enumerate(zip(old["cards"], cur["cards"])):
            if rs[r - 1]["sizes"][ci] == 0:
                continue   # n_c = 0: the contest has no threshold yet, so no data (mvrs_to_data returns [] or raises
                           # TypeError when a sampled card lists it, DESIGN F20): nothing to extend
            if d0["st"] != "ok":
                return {"what": f"round {r - 1} contest {case['contests'][ci]['id']}: data raised {d0['err']} with n_c >= 1"}
            if d1["st"] != "ok":
                return {"what": f"round {r} contest {case['contests'][ci]['id']}: data raised {d1['err']} after a round with data"}
            if d1["v"][: len(d0["v"])] != d0["v"]:
                return {"what": f"round {r} contest {case['contests'][ci]['id']}: data {d1['v']} is not the previous "
                                f"round's {d0['v']} with observations appended"}
    return None


ORACLES = {"C07": oracle_c07, "C10": oracle_c10}
