"""
Correspondence group `status`: Assertion.set_p_values / Assertion.reset_p_values / Audit.summarize_status /
Audit.check_audit_parameters on REAL Contest and Assertion objects  vs.  Shangrla.Status.*  (property C09).

A case is an audit (1-4 contests, different risk limits / audit types / social choice functions, 0-6 assertions
each, built by Contest.from_dict_of_dicts + Assertion.make_all_assertions + set_all_margins_from_cvrs) plus an
operation history (set / reset / summarize / check).  Two streams:
  * "stub": every asn.test is replaced by a stub whose .test(d) returns scripted (p, history) pairs
            (0, 1, exactly the risk limit, one ulp above/below it, another contest's limit, NaN, inf ...),
            so that every p-value configuration is reachable; the stub records the data and `u` it was called with;
  * "real": real NonnegMean tests on real polling / card-comparison data.
The model takes the test as a parameter: the request carries, for every `set`, the table of what each assertion's
test returns on that assertion's data (computed on fresh objects, without set_p_values).

"That assertion's data" is stated by the oracle side independently of the code path set_p_values uses
(`reference_data`): polling = the assorter values of the manual records; card comparison / ONEAudit = the
overstatement-assorter values (1 - (reported - seen)/u)/(2 - v/u) of the sampled pairs (under style information: whose
CVR lists the contest and whose sample number is within the contest's threshold), reported = the pool mean for a pooled
CVR once the assorter has pool means, else 1/2 for a phantom CVR, else the assorter of the CVR; seen = 0 for a card that
was not found (phantom manual record) or, under style information, whose manual record lacks the contest, else the
assorter of the manual record.  One case in four has ONEAudit ingredients: tally pools with pooled cards, pool means
set (Assorter.set_tally_pool_means), phantom CVRs inside and outside the pooled batches, cards that were not found.
"""
import contextlib, copy, io, math
from fractions import Fraction

import numpy as np

from ..core import fr, err_kind

NAME = "status"
RULE = ("1-4 real Contest objects (PLURALITY/APPROVAL/SUPERMAJORITY/IRV x POLLING/CARD_COMPARISON/ONEAUDIT, distinct "
        "risk limits, 0-6 assertions each in a shuffled insertion order, random initial confirmed flags) and an op "
        "history set/reset/summarize/check; stub stream scripts p-values (0, 1, limit, limit+-1ulp, other contest's "
        "limit, NaN, inf, negatives; modes all-pass / one-fail / random) through asn.test, real stream runs real "
        "NonnegMean tests on polling and comparison samples of growing/shrinking size; one case in four with ONEAudit "
        "ingredients (2-3 tally pools, pooled batches with pool means set, 1-3 phantom CVRs inside / outside the pooled "
        "batches anywhere in the sample, cards not found); every comparison assertion's data are re-stated from the "
        "definitions, independently of the code's data path; malformed stream: parameters "
        "check_audit_parameters must reject, unequal sample lengths; non-trivial = at least one set op and at least "
        "two assertions in the audit; distinct = distinct canonical case")
EXHAUSTIVE = {"quick": False, "thorough": False}
RULE += "; option stream (n/15 more cases, own generator, OPTIONS_AUDIT.md): Audit / Stratum / Contest made by their constructors (error rates at the constructor defaults left out), the four operations called by keyword, set_p_values without cvr_sample for polling audits"

SCF = ("APPROVAL", "PLURALITY", "SUPERMAJORITY", "IRV")


# ------------------------------------------------------------------------------------------------
# numbers

def dec(tok, lim=None):
    """p-value / limit token -> float"""
    if tok == "nan":
        return float("nan")
    if tok == "inf":
        return float("inf")
    if tok == "lim":
        return float(lim)
    if tok == "lim+":
        return float(np.nextafter(lim, 2.0))
    if tok == "lim-":
        return float(np.nextafter(lim, -1.0))
    return float(Fraction(tok))


def isnan(x):
    try:
        return math.isnan(float(x))
    except Exception:
        return False


# ------------------------------------------------------------------------------------------------
# building the real objects

class StubTest:
    """stands in for a NonnegMean instance: .test(d) returns the scripted pair of the current set-op"""

    def __init__(self, script, kind):
        self.script = script      # {set-op index: (p, hist)}
        self.kind = kind
        self.k = None
        self.u = None
        self.calls = []

    def test(self, d):
        self.calls.append((np.array(d, dtype=float, copy=True), self.u))
        p, h = self.script[self.k]
        if self.kind == "np":
            return np.float64(p), np.array(h, dtype=float)
        return float(p), [float(x) for x in h]


def _nm():
    from shangrla.core.NonnegMean import NonnegMean
    return NonnegMean


def _test_fn(name):
    NM = _nm()
    return getattr(NM, name) if name else None


def build(case):
    """fresh objects for a case: (audit, contests, cvrs, mvrs).  Only glue of /repo is used."""
    from shangrla.core.Audit import Audit, Assertion, Contest, CVR
    a = case["audit"]
    ctor = case.get("via") == "ctor"
    if ctor:
        # the objects made by their constructors (Audit(...), Stratum(...), Contest(...)) instead of the from_dict
        # class methods; an error rate that is the constructor's default (0.001 / 0) is left out of the call
        from shangrla.core.Audit import Stratum
        kw = {}
        if Fraction(a["error_rate_1"]) != Fraction(1, 1000):
            kw["error_rate_1"] = float(Fraction(a["error_rate_1"]))
        if Fraction(a["error_rate_2"]) != 0:
            kw["error_rate_2"] = float(Fraction(a["error_rate_2"]))
        audit = Audit(quantile=0.8, reps=10, max_cards=len(case["cvrs"]),
                      strata={"stratum_1": Stratum(id="stratum_1", max_cards=len(case["cvrs"]), use_style=a["use_style"],
                                                   replacement=False)}, **kw)
    else:
        audit = Audit.from_dict({
            "quantile": 0.8, "error_rate_1": float(Fraction(a["error_rate_1"])),
            "error_rate_2": float(Fraction(a["error_rate_2"])), "reps": 10,
            "strata": {"stratum_1": {"max_cards": len(case["cvrs"]), "use_style": a["use_style"],
                                     "replacement": False}}})
    dd = {}
    for c in case["contests"]:
        d = {"name": c["id"], "risk_limit": dec(c["risk_limit"]), "cards": c.get("cards", len(case["cvrs"])),
             "choice_function": c["choice_function"], "n_winners": c["n_winners"],
             "candidates": list(c["candidates"]), "winner": list(c["winner"]),
             "audit_type": c["audit_type"], "use_style": a["use_style"],
             "assertion_file": c.get("assertion_file"), "sample_threshold": c.get("sample_threshold"),
             "test": _test_fn(c.get("test")), "estim": _test_fn(c.get("estim")), "bet": _test_fn(c.get("bet")),
             "test_kwargs": dict(c.get("test_kwargs") or {})}
        if c.get("share_to_win"):
            d["share_to_win"] = float(Fraction(c["share_to_win"]))
        if c["choice_function"] == "IRV":
            d["assertion_json"] = copy.deepcopy(c["assertion_json"])
        dd[c["id"]] = d
    if ctor:
        contests = {}
        for cid, d in dd.items():
            aj = d.pop("assertion_json", None)
            contests[cid] = Contest(id=cid, **d)
            if aj is not None:
                contests[cid].assertion_json = aj        # (not a constructor argument: set the way the notebooks do)
    else:
        contests = Contest.from_dict_of_dicts(dd)
    # APPROVAL is audited with plurality assertions; make_all_assertions has no branch for it
    appr = {k: v for k, v in contests.items() if v.choice_function == "APPROVAL"}
    rest = {k: v for k, v in contests.items() if v.choice_function != "APPROVAL"}
    Assertion.make_all_assertions(rest)
    for k, con in appr.items():
        losers = [x for x in con.candidates if x not in con.winner]
        con.assertions = Assertion.make_plurality_assertions(contest=con, winner=con.winner, loser=losers,
                                                            test=con.test, test_kwargs=con.test_kwargs,
                                                            estim=con.estim, bet=con.bet)
    cvrs = CVR.from_dict(copy.deepcopy(case["cvrs"]))
    mvrs = CVR.from_dict(copy.deepcopy(case["mvrs"]))
    for i, (cv, mv) in enumerate(zip(cvrs, mvrs)):
        cv.sample_num = i
        mv.sample_num = i
    if case.get("pool_means"):
        # ONEAudit: the reported assorter mean of every pooled batch (after the assertions exist: the Assertion
        # constructor clears them)
        for con in contests.values():
            if con.audit_type == Audit.AUDIT_TYPE.ONEAUDIT:
                for asn in con.assertions.values():
                    asn.assorter.set_tally_pool_means(cvr_list=cvrs, use_style=a["use_style"])
    Assertion.set_all_margins_from_cvrs(audit, contests, cvrs)
    for ci, c in enumerate(case["contests"]):
        con = contests[c["id"]]
        # deterministic insertion order (make_all_assertions iterates a set of candidate names)
        names = sorted(con.assertions.keys())
        order = [names[j] for j in c["order"]] if len(c["order"]) == len(names) else names
        con.assertions = {k: con.assertions[k] for k in order}
        for j, (k, asn) in enumerate(con.assertions.items()):
            if j < len(c["init_proved"]) and c["init_proved"][j]:
                asn.proved = True
            if case["stream"] == "stub":
                script = {}
                for oi, op in enumerate(case["ops"]):
                    if op["op"] == "set":
                        ptok, htoks = op["script"][ci][j]
                        lim = con.risk_limit
                        script[oi] = (dec(ptok, lim), [dec(t, lim) for t in htoks])
                asn.test = StubTest(script, case.get("ret_kind", "np"))
    # attribute overrides (malformed parameters) after the assertions exist
    for c in case["contests"]:
        for k, v in (c.get("post") or {}).items():
            setattr(contests[c["id"]], k, dec(v) if k == "risk_limit" else v)
    return audit, contests, cvrs, mvrs


def samples(case, op, cvrs, mvrs):
    n = op["n"]
    mv = mvrs[:n]
    if op["cvr"] == "none":
        cv = None
    elif op["cvr"] == "short":
        cv = cvrs[:max(0, n - 1)]
    else:
        cv = cvrs[:n]
    return mv, cv


def num(x):
    return fr(x)


def reference_data(asn, con, mv, cv):
    """(d, u): the data of a card-comparison / ONEAudit assertion on the sample, from the definitions (module
    docstring); uses the raw assorter, its bound, the stored margin and pool means and the records' flags -- not
    Assertion.mvrs_to_data, Assertion.overstatement_assorter or Assorter.overstatement.  None if it cannot be stated"""
    try:
        A, ub, v = asn.assorter.assort, asn.assorter.upper_bound, asn.margin
        means = asn.assorter.tally_pool_means
        cid, style = con.id, con.use_style
        out = []
        for m, c in zip(mv, cv):
            if style and not (cid in c.votes and c.sample_num <= con.sample_threshold):
                continue
            if c.pool and means is not None:
                reported = means[c.tally_pool]
            elif c.phantom:
                reported = 1 / 2
            else:
                reported = A(c)
            seen = 0 if (m.phantom or (style and cid not in m.votes)) else A(m)
            out.append((1 - (reported - seen) / ub) / (2 - v / ub))
        return np.array(out, dtype=float), 2 / (2 - v / ub)
    except Exception:  # noqa
        return None


def snapshot(contests):
    out = []
    for key, con in contests.items():
        pv = getattr(con, "p_values", None)
        pr = getattr(con, "proved", None)
        mp = getattr(con, "max_p", None)
        out.append({
            "id": key,
            "max_p": None if mp is None else num(mp),
            "p_values": None if pv is None else [[k, num(v)] for k, v in pv.items()],
            "proved": None if pr is None else [[k, bool(v)] for k, v in pr.items()],
            "assertions": [{"name": k, "p_value": num(a.p_value), "p_history": [num(x) for x in a.p_history],
                            "proved": bool(a.proved)} for k, a in con.assertions.items()]})
    return out


def params(audit, contests):
    return {"error_rate_1": fr(audit.error_rate_1), "error_rate_2": fr(audit.error_rate_2),
            "contests": [{"id": key, "risk_limit": fr(con.risk_limit), "choice_function": con.choice_function,
                          "n_winners": con.n_winners,
                          "candidates": None if con.candidates is None else list(con.candidates),
                          "winner": None if con.winner is None else list(con.winner),
                          "assertion_file": con.assertion_file} for key, con in contests.items()]}


# ------------------------------------------------------------------------------------------------
# implementation side

def impl(case):
    from shangrla.core.Audit import Assertion, Audit
    audit, contests, cvrs, mvrs = build(case)
    res = {"st": "ok", "params": params(audit, contests), "init": snapshot(contests), "steps": []}
    for oi, op in enumerate(case["ops"]):
        step = {"op": op["op"]}
        try:
            if op["op"] == "set":
                mv, cv = samples(case, op, cvrs, mvrs)
                for con in contests.values():
                    for asn in con.assertions.values():
                        if isinstance(asn.test, StubTest):
                            asn.test.k = oi
                            asn.test.calls = []
                if case.get("call") == "kw":
                    # documented keywords; no `cvr_sample` at all for a polling audit (its default is None)
                    ret = (Assertion.set_p_values(contests=contests, mvr_sample=mv) if cv is None
                           else Assertion.set_p_values(contests=contests, mvr_sample=mv, cvr_sample=cv))
                else:
                    ret = Assertion.set_p_values(contests, mv, cv)
                step["ret"] = num(ret)
                # "called again on the same data": what the configured test returns on the assertion's data
                retest, called_ok = [], True
                for con in contests.values():
                    row = []
                    for asn_name, asn in con.assertions.items():
                        d, u = asn.mvrs_to_data(mv, cv)
                        if con.audit_type == Audit.AUDIT_TYPE.POLLING:
                            # a polling assertion's data are the assorter values of the manual records, whether or
                            # not CVRs were handed in as well (computed here without mvrs_to_data)
                            d = np.array([asn.assorter.assort(m) for m in mv], dtype=float)
                            u = asn.assorter.upper_bound
                        elif cv is not None:
                            # comparison data stated from the definitions; rounding apart, they are what the code's own
                            # data path yields -- if not, the test is re-run on the stated data
                            ref = reference_data(asn, con, mv, cv)
                            if ref is not None:
                                dl = np.array(d, dtype=float)
                                same = (len(ref[0]) == len(dl)
                                        and np.allclose(ref[0], dl, rtol=1e-12, atol=1e-12, equal_nan=True)
                                        and np.isclose(ref[1], u, rtol=1e-12, atol=0))
                                if not same:
                                    if "data_note" not in step:
                                        step["data_note"] = (
                                            f"contest {con.id} ({con.audit_type}) assertion {asn_name}: the data of the "
                                            f"sampled pairs are {[float(x) for x in ref[0]]} with u={float(ref[1])} "
                                            f"(cards {[c.id for c in cv]}, pool means {asn.assorter.tally_pool_means}), "
                                            f"the code's data path gives {[float(x) for x in dl]} with u={float(u)}")
                                    d, u = ref
                        if isinstance(asn.test, StubTest):
                            calls = asn.test.calls
                            if not (len(calls) == 1 and len(calls[0][0]) == len(d)
                                    and np.array_equal(calls[0][0], np.array(d, dtype=float), equal_nan=True)
                                    and calls[0][1] == u):
                                called_ok = False
                        else:
                            if asn.test.u != u:
                                called_ok = False
                            asn.test.u = u
                        p, h = asn.test.test(d)
                        row.append([num(p), [num(x) for x in h]])
                    retest.append(row)
                step["retest"] = retest
                step["called_on_data"] = called_ok
            elif op["op"] == "reset":
                step["ret"] = bool(Assertion.reset_p_values(contests=contests) if case.get("call") == "kw"
                                   else Assertion.reset_p_values(contests))
            elif op["op"] == "summarize":
                with contextlib.redirect_stdout(io.StringIO()):
                    step["ret"] = bool(audit.summarize_status(contests=contests) if case.get("call") == "kw"
                                       else audit.summarize_status(contests))
                # the same evidence judged at OTHER risk limits: shallow clones of the contests (copy.copy: they share
                # the Assertion objects, whose `.contest` still points at the original) with the limits rotated
                # among the contests / halved; a contest is judged by the limit of the Contest object in the dict
                try:
                    ids = list(contests)
                    lims = [float(contests[c].risk_limit) for c in ids]
                    alt = (lims[1:] + lims[:1]) if len(set(lims)) > 1 else [l / 2 for l in lims]
                    clones = {}
                    for c, l in zip(ids, alt):
                        clones[c] = copy.copy(contests[c])
                        clones[c].risk_limit = l
                    with contextlib.redirect_stdout(io.StringIO()):
                        step["_clone"] = {"limits": alt, "ret": bool(audit.summarize_status(clones))}
                except Exception as e:  # noqa
                    step["_clone"] = {"err": err_kind(e)}
            elif op["op"] == "check":
                step["ret"] = (audit.check_audit_parameters(contests=contests) if case.get("call") == "kw"
                               else audit.check_audit_parameters(contests))
            step["st"] = "ok"
        except Exception as e:  # noqa
            step["st"] = "err"
            step["err"] = err_kind(e)
            step["msg"] = str(e)[:200]
        step["state"] = snapshot(contests)
        res["steps"].append(step)
    return res


# ------------------------------------------------------------------------------------------------
# model side

def request(case):
    audit, contests, cvrs, mvrs = build(case)
    prm = params(audit, contests)
    init = snapshot(contests)
    cons = []
    for p, s in zip(prm["contests"], init):
        d = dict(p)
        d.update({"max_p": s["max_p"], "p_values": s["p_values"], "proved": s["proved"],
                  "assertions": s["assertions"]})
        cons.append(d)
    ops = []
    for oi, op in enumerate(case["ops"]):
        if op["op"] != "set":
            ops.append({"op": op["op"]})
            continue
        mv, cv = samples(case, op, cvrs, mvrs)
        table = []
        if cv is None or len(cv) == len(mv):
            for key, con in contests.items():
                for name, asn in con.assertions.items():
                    if isinstance(asn.test, StubTest):
                        asn.test.k = oi
                    d, u = asn.mvrs_to_data(mv, cv)
                    asn.test.u = u
                    p, h = asn.test.test(d)
                    table.append({"contest": key, "assertion": name, "p": num(p), "hist": [num(x) for x in h]})
        ops.append({"op": "set", "mvr_len": len(mv), "cvr_len": None if cv is None else len(cv), "results": table})
    return ("status", "run", {"error_rate_1": prm["error_rate_1"], "error_rate_2": prm["error_rate_2"],
                              "contests": cons, "ops": ops})


TAGS = [("1-vote errors", "error_rate_1"), ("2-vote errors", "error_rate_2"), ("negative in contest", "risk_limit_negative"),
        ("exceeds 1/2", "risk_limit_exceeds_half"), ("unsupported choice function", "choice_function"),
        ("more winners than candidates", "more_winners_than_candidates"),
        ("number of reported winners", "number_of_winners"), ("is not a candidate", "winner_not_candidate"),
        ("can have only 1 winner", "irv_one_winner"), ("requires an assertion file", "irv_assertion_file"),
        ("unequal numbers", "unequal_samples")]


def msg_tag(msg):
    for sub, tag in TAGS:
        if sub in msg:
            return tag
    return "?"


def compare(case, ir, mr):
    if ir.get("st") != mr.get("st"):
        return f"status differs: impl={ir.get('st')}/{ir.get('err')}/{ir.get('msg')} model={mr.get('st')}/{mr.get('err')}"
    if ir["st"] == "err":
        return None if ir["err"] == mr["err"] else f"error kind differs: {ir['err']} vs {mr['err']}"
    if len(ir["steps"]) != len(mr["steps"]):
        return "number of steps differs"
    for i, (a, b) in enumerate(zip(ir["steps"], mr["steps"])):
        w = f"step {i} ({a['op']})"
        if a["st"] != b["st"]:
            return f"{w}: status impl={a['st']}/{a.get('err')}/{a.get('msg')} model={b['st']}/{b.get('err')}/{b.get('tag')}"
        if a["st"] == "err":
            if a["err"] != b["err"]:
                return f"{w}: error kind impl={a['err']} model={b['err']}"
            if a["err"] == "AssertionError":
                if msg_tag(a.get("msg", "")) != b.get("tag"):
                    return f"{w}: failing assert impl='{a.get('msg')}' model={b.get('tag')}"
                if b.get("contest") and f"contest {b['contest']}" not in a.get("msg", ""):
                    return f"{w}: failing contest impl='{a.get('msg')}' model={b.get('contest')}"
        else:
            if a["ret"] != b["ret"]:
                return f"{w}: returned impl={a['ret']} model={b['ret']}"
        if a["state"] != b["state"]:
            for ca, cb in zip(a["state"], b["state"]):
                if ca != cb:
                    return f"{w}: state of contest {ca['id']} differs: impl={ca} model={cb}"
            return f"{w}: states differ"
    return None


def signature(case, ir):
    if ir.get("st") != "ok":
        return "err:" + str(ir.get("err"))
    nset = sum(1 for s in ir["steps"] if s["op"] == "set" and s["st"] == "ok")
    nasn = sum(len(c["assertions"]) for c in ir["init"])
    flags = set()
    prev = ir["init"]
    lim = {c["id"]: Fraction(c["risk_limit"]) for c in ir["params"]["contests"]}
    for s in ir["steps"]:
        if s["st"] == "err":
            flags.add(f"{s['op']}-err:{msg_tag(s.get('msg', '')) if s['err'] == 'AssertionError' else s['err']}")
        elif s["op"] == "summarize":
            flags.add("complete" if s["ret"] else "incomplete")
        elif s["op"] == "check":
            flags.add("check-ok")
        elif s["op"] == "reset":
            flags.add("reset")
        elif s["op"] == "set":
            for c, pc in zip(s["state"], prev):
                for a, pa in zip(c["assertions"], pc["assertions"]):
                    if a["p_value"] == "nan":
                        flags.add("nan")
                    elif a["p_value"] not in ("inf", "-inf"):
                        if Fraction(a["p_value"]) == lim[c["id"]]:
                            flags.add("at-limit")
                        if pa["proved"] and a["proved"] and Fraction(a["p_value"]) > lim[c["id"]]:
                            flags.add("sticky")
        prev = s["state"]
    outcome = ("C" if "complete" in flags else "") + ("I" if "incomplete" in flags else "") or "-"
    special = "plain"
    for f in sorted(flags):
        if f.startswith("set-err") or f.startswith("check-err"):
            special = f
            break
    else:
        for f in ("nan", "sticky", "at-limit"):
            if f in flags:
                special = f
                break
    tag = f"{case['stream']};done={outcome};{special}"
    if nset == 0 or nasn < 2:
        return "trivial:" + tag
    return tag


# ------------------------------------------------------------------------------------------------
# oracle: the property, evaluated on the objects' attributes after every step (independent of the model)

def _f(s):
    """number string -> float (nan/inf aware)"""
    if s in ("nan", "inf", "-inf"):
        return float(s)
    fq = Fraction(s)
    return fq.numerator / fq.denominator


def _max0(ps):
    """the largest of 0 and ps; NaN if any is NaN"""
    if any(math.isnan(p) for p in ps):
        return float("nan")
    return max([0.0] + list(ps))


def _same(a, b):
    return (math.isnan(a) and math.isnan(b)) or a == b


def oracle_c09(case, ir):
    if ir.get("st") != "ok":
        return {"what": f"building the audit raised {ir.get('err')}: {ir.get('msg')}"}
    prm = ir["params"]
    lim = {c["id"]: _f(c["risk_limit"]) for c in prm["contests"]}
    # "that contest's own risk limit" is the one the audit was configured with: whatever entry point built the objects
    # (from_dict class methods or the constructors), they hold the configured limits and error rates
    for c, pc in zip(case["contests"], prm["contests"]):
        if "risk_limit" not in (c.get("post") or {}) and not _same(_f(pc["risk_limit"]), dec(c["risk_limit"])):
            return {"what": f"contest {c['id']} was configured with risk limit {c['risk_limit']} but the Contest object "
                            f"({'constructor' if case.get('via') == 'ctor' else 'from_dict_of_dicts'}) holds {pc['risk_limit']}"}
    for k in ("error_rate_1", "error_rate_2"):
        if not _same(_f(prm[k]), float(Fraction(case["audit"][k]))):
            return {"what": f"the audit was configured with {k} = {case['audit'][k]} but the Audit object "
                            f"({'constructor' if case.get('via') == 'ctor' else 'from_dict'}) holds {prm[k]}"}
    prev = ir["init"]
    for i, s in enumerate(ir["steps"]):
        w = f"step {i} ({s['op']})"
        st = s["state"]
        # no operation may add, drop or reorder contests or assertions
        if [(c["id"], [a["name"] for a in c["assertions"]]) for c in st] != \
           [(c["id"], [a["name"] for a in c["assertions"]]) for c in prev]:
            return {"what": f"{w}: contests / assertions changed"}
        if s["st"] == "err":
            if st != prev:
                return {"what": f"{w}: raised {s['err']} after changing the state"}
            if s["op"] == "set":
                op = case["ops"][i]
                if op["cvr"] != "short":
                    return {"what": f"{w}: set_p_values raised {s['err']}: {s.get('msg')}"}
            if s["op"] in ("reset", "summarize"):
                return {"what": f"{w}: raised {s['err']}: {s.get('msg')}"}
            if s["op"] == "check" and params_ok(prm) is True:
                return {"what": f"{w}: valid parameters rejected: {s.get('msg')}"}
        elif s["op"] == "set":
            if case["ops"][i]["cvr"] == "short":
                return {"what": f"{w}: unequal numbers of cvrs and mvrs accepted"}
            if not s["called_on_data"]:
                return {"what": f"{w}: a test was not called exactly once on its assertion's data with its upper bound"
                                + (": " + s["data_note"] if s.get("data_note") else "")}
            cmaxes = []
            for ci, (c, pc) in enumerate(zip(st, prev)):
                L = lim[c["id"]]
                ps = []
                for ai, (a, pa) in enumerate(zip(c["assertions"], pc["assertions"])):
                    rp, rh = s["retest"][ci][ai]
                    if a["p_value"] != rp or a["p_history"] != rh:
                        return {"what": f"{w}: contest {c['id']} assertion {a['name']}: recorded (p, history)="
                                        f"({a['p_value']}, {a['p_history'][:5]}..) but its test returns ({rp}, {rh[:5]}..)"
                                        + (" on the assertion's data: " + s["data_note"] if s.get("data_note") else "")}
                    p = _f(a["p_value"])
                    ps.append(p)
                    want = (p <= L) or pa["proved"]
                    if a["proved"] != want:
                        return {"what": f"{w}: contest {c['id']} assertion {a['name']}: proved={a['proved']} but p={p}, "
                                        f"limit={L}, proved before={pa['proved']}"}
                m = _max0(ps)
                cmaxes.append(m)
                if c["max_p"] is None or not _same(_f(c["max_p"]), m):
                    return {"what": f"{w}: contest {c['id']} max_p={c['max_p']} but its p-values are {ps}"}
                if c["p_values"] != [[a["name"], a["p_value"]] for a in c["assertions"]]:
                    return {"what": f"{w}: contest {c['id']} p_values dict {c['p_values']} does not mirror its assertions"}
                if c["proved"] != [[a["name"], a["proved"]] for a in c["assertions"]]:
                    return {"what": f"{w}: contest {c['id']} proved dict {c['proved']} does not mirror its assertions"}
            if not _same(_f(s["ret"]), _max0(cmaxes)):
                return {"what": f"{w}: returned {s['ret']} but the contests' max_p are {cmaxes}"}
        elif s["op"] == "reset":
            if s["ret"] is not True:
                return {"what": f"{w}: returned {s['ret']}"}
            for c in st:
                if c["max_p"] != "1":
                    return {"what": f"{w}: contest {c['id']} max_p={c['max_p']} after reset"}
                for a in c["assertions"]:
                    if a["p_value"] != "1" or a["p_history"] != [] or a["proved"] is not False:
                        return {"what": f"{w}: contest {c['id']} assertion {a['name']} after reset: {a}"}
                if c["p_values"] != [[a["name"], "1"] for a in c["assertions"]] or \
                   c["proved"] != [[a["name"], False] for a in c["assertions"]]:
                    return {"what": f"{w}: contest {c['id']} dicts after reset: {c['p_values']} {c['proved']}"}
        elif s["op"] == "summarize":
            if st != prev:
                return {"what": f"{w}: summarize_status changed the state"}
            # a negative number is not a risk limit (check_audit_parameters rejects it): outside the quantifier
            if all(L >= 0 for L in lim.values()):
                want = all(_f(a["p_value"]) <= lim[c["id"]] for c in st for a in c["assertions"])
                if s["ret"] != want:
                    rows = [(c["id"], a["name"], a["p_value"], lim[c["id"]]) for c in st for a in c["assertions"]]
                    bad = [r for r in rows if not (_f(r[2]) <= r[3])]
                    if want:
                        return {"what": f"{w}: reported INCOMPLETE although every assertion is at or below its own "
                                        f"contest's risk limit: (contest, assertion, p, limit) = {rows[:8]}"}
                    return {"what": f"{w}: reported COMPLETE although these assertions are above their own contest's "
                                    f"risk limit (or NaN): (contest, assertion, p, limit) = {bad[:8]}"}
                cl = s.get("_clone")
                if cl and "ret" in cl and all(L >= 0 for L in cl["limits"]):
                    want2 = all(_f(a["p_value"]) <= L for c, L in zip(st, cl["limits"]) for a in c["assertions"])
                    if cl["ret"] != want2:
                        return {"what": f"{w}: the same contests cloned (copy.copy) with risk limits {cl['limits']} are reported "
                                        f"{'COMPLETE' if cl['ret'] else 'INCOMPLETE'}; p-values "
                                        f"{[(c['id'], a['name'], a['p_value']) for c in st for a in c['assertions']][:8]}"}
        elif s["op"] == "check":
            if st != prev:
                return {"what": f"{w}: check_audit_parameters changed the state"}
            ok = params_ok(prm)
            if ok is False:
                return {"what": f"{w}: invalid parameters accepted: {prm}"}
        prev = st
    return None


def params_ok(prm):
    """True / False, or None when evaluating the conditions themselves fails in Python (None attributes)"""
    try:
        if not (_f(prm["error_rate_1"]) >= 0 and _f(prm["error_rate_2"]) >= 0):
            return False
        for c in prm["contests"]:
            L = _f(c["risk_limit"])
            if not (0 < L <= 0.5) or c["choice_function"] not in SCF:
                return False
            if c["candidates"] is None or c["winner"] is None:
                return None
            if not (c["n_winners"] <= len(c["candidates"]) and len(c["winner"]) == c["n_winners"]
                    and all(w in c["candidates"] for w in c["winner"])):
                return False
            if c["choice_function"] == "IRV" and not (c["n_winners"] == 1 and c["assertion_file"]):
                return False
        return True
    except Exception:
        return None


ORACLES = {"C09": oracle_c09}


# ------------------------------------------------------------------------------------------------
# generators

LIMITS = ["1/20", "1/10", "1/100", "1/4", "1/2", "1/1000", "3/100", "1/5", "1/50", "2/5"]
PLUR_SHAPES = [(2, 1), (3, 1), (3, 2), (4, 1), (4, 2), (4, 3), (5, 1), (5, 4), (5, 2), (5, 3), (6, 1), (6, 5), (7, 1)]
NAMES = ["Ann", "Bob", "Cy", "Dee", "Eve", "Flo", "Gus"]


# falsy / numeric-looking / case- and blank-variant / nested candidate names (round 9)
NAME_FAMILIES = [["0", "", "a", "A", " a", "aa", "b"], ["1", "01", "1.0", "10", "1 ", "True", "None"]]


def gen_contest(rng, i, stream, used_limits):
    NAMES = rng.choice(NAME_FAMILIES) if rng.chance(0.12) else globals()["NAMES"]
    # (distinct for distinct i: two contests with one id are one dict key)
    cid = f"c{i}" if not rng.chance(0.06) else (["0", "", " c", "00", "C0", " 0", "c", "0 "][i] if i < 8 else f"c{i}")
    lims = [l for l in LIMITS if l not in used_limits] or LIMITS
    rl = rng.choice(lims)
    used_limits.append(rl)
    scf = rng.choice(["PLURALITY", "PLURALITY", "SUPERMAJORITY", "IRV", "APPROVAL"] if stream == "stub"
                     else ["PLURALITY", "PLURALITY", "SUPERMAJORITY", "IRV"])
    at = rng.choice(["POLLING", "CARD_COMPARISON", "ONEAUDIT"] if stream == "stub" else ["POLLING", "CARD_COMPARISON"])
    c = {"id": cid, "risk_limit": rl, "choice_function": scf, "audit_type": at, "assertion_file": None}
    if scf in ("PLURALITY", "APPROVAL"):
        n, w = rng.choice(PLUR_SHAPES if stream == "stub" else PLUR_SHAPES[:6])
        c["candidates"] = NAMES[:n]
        c["winner"] = NAMES[:w]
        c["n_winners"] = w
        nasn = w * (n - w)
    elif scf == "SUPERMAJORITY":
        n = rng.choice([2, 3])
        c["candidates"] = NAMES[:n]
        c["winner"] = NAMES[:1]
        c["n_winners"] = 1
        c["share_to_win"] = rng.choice(["1/2", "2/3", "3/5"])
        nasn = 1
    else:
        n = rng.choice([3, 4])
        cands = NAMES[:n]
        c["candidates"] = cands
        c["winner"] = NAMES[:1]
        c["n_winners"] = 1
        c["assertion_file"] = "assertions.json"
        k = rng.choice([0, 1, 2, 3, 4, 5, 6]) if stream == "stub" else rng.choice([1, 2, 3])
        seen, js = set(), []
        for _ in range(20):
            if len(js) >= k:
                break
            w = cands[0] if rng.chance(0.7) else rng.choice(cands)
            l = rng.choice([x for x in cands if x != w])
            if rng.chance(0.5):
                key = (w, l, None)
                a = {"winner": w, "loser": l, "assertion_type": "WINNER_ONLY", "already_eliminated": []}
            else:
                others = [x for x in cands if x not in (w, l)]
                el = sorted(rng.sample(others, rng.randint(0, len(others))))
                key = (w, l, tuple(el))
                a = {"winner": w, "loser": l, "assertion_type": "IRV_ELIMINATION", "already_eliminated": el}
            if key not in seen:
                seen.add(key)
                js.append(a)
        c["assertion_json"] = js
        nasn = len(js)
    order = list(range(nasn))
    rng.shuffle(order)
    c["order"] = order
    pm = rng.choice([0.0, 0.0, 0.3, 0.6])
    c["init_proved"] = [rng.chance(pm) for _ in range(nasn)]
    c["_nasn"] = nasn
    return c


def gen_votes(rng, c, truthful=True):
    scf, cands, win = c["choice_function"], c["candidates"], c["winner"]
    if scf == "IRV":
        k = rng.randint(1, len(cands))
        pool = list(cands)
        if rng.chance(0.6):
            pool.remove(win[0])
            first = [win[0]]
        else:
            first = []
        rng.shuffle(pool)
        ranking = (first + pool)[:k]
        return {x: r + 1 for r, x in enumerate(ranking)}
    if scf == "APPROVAL":
        v = {x: True for x in cands if rng.chance(0.7 if x in win else 0.25)}
        return v
    if scf == "SUPERMAJORITY":
        if rng.chance(0.85):
            return {win[0]: True}
        return {rng.choice(cands): True} if rng.chance(0.8) else {}
    # plurality, possibly several winners: vote for up to n_winners candidates
    v = {}
    for x in cands:
        if len(v) < max(1, c["n_winners"]) and rng.chance(0.75 if x in win else 0.15):
            v[x] = rng.choice([True, 1])
    return v


def gen_cards(rng, contests, ncards, err, oneaudit=False):
    """`oneaudit`: two or three tally pools of which one or two are pooled batches, 1-3 phantom CVRs (usually inside a
    pooled batch, as CVR.make_phantoms(..., tally_pool=, pool=True) makes them) anywhere in the list, cards that
    are not found (phantom manual records)"""
    cvrs, mvrs = [], []
    pools = ["1", "2", "3"][: rng.choice([2, 2, 3])] if oneaudit else ["1"]
    pooled = set(rng.sample(pools, rng.randint(1, len(pools) - 1))) if oneaudit else set()
    for i in range(ncards):
        votes = {}
        for c in contests:
            if i == 0 or rng.chance(0.85):
                votes[c["id"]] = gen_votes(rng, c)
        mv = copy.deepcopy(votes)
        for c in contests:
            if c["id"] in mv and rng.chance(err):
                if rng.chance(0.25):
                    del mv[c["id"]]
                else:
                    mv[c["id"]] = gen_votes(rng, c)
        tp = rng.choice(pools)
        cv = {"id": f"card{i}", "tally_pool": tp, "votes": votes}
        mvd = {"id": f"card{i}", "tally_pool": tp, "votes": mv}
        if oneaudit:
            cv["pool"] = tp in pooled
            if rng.chance(0.08):
                mvd = {"id": f"card{i}", "tally_pool": tp, "votes": {}, "phantom": True}       # the card was not found
        cvrs.append(cv)
        mvrs.append(mvd)
    if oneaudit:
        for j in range(rng.randint(1, 3)):
            listed = [c["id"] for c in contests if rng.chance(0.85)] or [contests[0]["id"]]
            in_pool = rng.chance(0.8)
            tp = rng.choice(sorted(pooled)) if in_pool else rng.choice(pools)
            cv = {"id": f"phantom-{j + 1}", "tally_pool": tp, "pool": in_pool, "phantom": True,
                  "votes": {cid: {} for cid in listed}}
            if rng.chance(0.85):
                mvd = {"id": cv["id"], "tally_pool": tp, "votes": {}, "phantom": True}
            else:       # found after all
                mvd = {"id": cv["id"], "tally_pool": tp, "votes": {c["id"]: gen_votes(rng, c) for c in contests if c["id"] in listed}}
            pos = rng.randint(0, len(cvrs))
            cvrs.insert(pos, cv)
            mvrs.insert(pos, mvd)
    return cvrs, mvrs


def gen_p(rng, mode, fail_here, other_limits):
    """token of a scripted p-value"""
    if mode == "pass" and not fail_here:
        return rng.choice(["lim", "lim-", "0", "lim", "1/100000", "1/2000", "0"])
    if fail_here:
        return rng.choice(["lim+", "lim+", "nan", "1", "3/4"] + other_limits)
    r = rng.random()
    if r < 0.12:
        return "lim"
    if r < 0.22:
        return "lim+"
    if r < 0.30:
        return "lim-"
    if r < 0.38:
        return "0"
    if r < 0.48:
        return "1"
    if r < 0.54:
        return "nan"
    if r < 0.70 and other_limits:
        return rng.choice(other_limits)
    if r < 0.715:
        return "inf"
    if r < 0.73:
        return "-1/10"
    return str(Fraction(rng.randint(0, 1000), 1000)) if rng.chance(0.6) else str(Fraction(rng.randint(0, 120), 1000))


def gen_hist(rng, ptok):
    k = rng.choice([0, 1, 2, 3, 5])
    h = [rng.choice(["1", "1/2", "nan", "lim", "3/10", "0", "1/50"]) for _ in range(k)]
    if rng.chance(0.6):
        h.append(ptok)
    return h


OP_PATTERNS = [
    ["set", "summarize"],
    ["set", "summarize", "reset", "summarize", "set", "summarize"],
    ["check", "set", "summarize", "set", "summarize"],
    ["summarize", "set", "reset", "set", "summarize"],
    ["set", "set", "summarize", "reset"],
    ["reset", "summarize", "set", "summarize", "check"],
    ["set", "summarize", "set", "summarize", "set", "summarize"],
]


def gen_ops_stub(rng, contests, ncards, all_polling):
    pat = list(rng.choice(OP_PATTERNS))
    if rng.chance(0.2):
        pat = [rng.choice(["set", "set", "summarize", "reset", "check"]) for _ in range(rng.randint(1, 7))]
    ops = []
    total = sum(c["_nasn"] for c in contests)
    for o in pat:
        if o != "set":
            ops.append({"op": o})
            continue
        mode = rng.choice(["pass", "pass", "onefail", "onefail", "random", "random"])
        failpos = rng.randrange(total) if (mode == "onefail" and total) else None
        if mode == "onefail" and rng.chance(0.4) and total:
            # the failing assertion is the LAST one of a contest (what a loop that stops early would miss)
            ends, k = [], 0
            for c in contests:
                k += c["_nasn"]
                if c["_nasn"]:
                    ends.append(k - 1)
            failpos = rng.choice(ends)
        script, pos = [], 0
        for c in contests:
            others = [x["risk_limit"] for x in contests if x["id"] != c["id"]]
            row = []
            for _ in range(c["_nasn"]):
                ptok = gen_p(rng, "pass" if mode in ("pass", "onefail") else "random", pos == failpos, others)
                row.append([ptok, gen_hist(rng, ptok)])
                pos += 1
            script.append(row)
        cvr = "same"
        if all_polling and rng.chance(0.5):
            cvr = "none"
        elif rng.chance(0.04):
            cvr = "short"
        ops.append({"op": "set", "n": rng.randint(1, ncards), "cvr": cvr, "script": script})
    return ops


MALFORMED = [
    ("risk_limit", "0"), ("risk_limit", "-1/20"), ("risk_limit", "3/5"), ("risk_limit", "1/2"),
    ("risk_limit", "5004/10000"), ("choice_function", "BORDA"), ("choice_function", "plurality"),
    ("n_winners", 9), ("n_winners", 0), ("winner", ["Zed"]), ("winner+", "Zed"), ("candidates", None),
    ("winner", None), ("assertion_file", None), ("assertion_file", ""), ("irv2", None), ("candidates", ["Ann"]),
    ("nw+", None), ("nw+", None), ("nw-", None), ("allwin", None),
]


def malform(rng, case):
    k, v = rng.choice(MALFORMED)
    irv = [c for c in case["contests"] if c["choice_function"] == "IRV"]
    c = rng.choice(irv) if (k == "assertion_file" and irv) else rng.choice(case["contests"])
    post = dict(c.get("post") or {})
    if k == "winner+":
        post["winner"] = list(c["winner"]) + [v]
        post["n_winners"] = c["n_winners"] + 1
    elif k == "irv2":
        post["choice_function"] = "IRV"
        post["winner"] = list(c["candidates"][:2])
        post["n_winners"] = 2
        post["assertion_file"] = "a.json"
    elif k == "nw+":          # one reported winner too few
        post["n_winners"] = c["n_winners"] + 1
        post["candidates"] = list(c["candidates"]) + ["Zed"]
    elif k == "nw-":          # one reported winner too many
        post["n_winners"] = c["n_winners"] - 1
    elif k == "allwin":       # boundary: every candidate wins (accepted unless IRV)
        post["winner"] = list(c["candidates"])
        post["n_winners"] = len(c["candidates"])
    elif k == "assertion_file":
        post["choice_function"] = "IRV"
        post["winner"] = list(c["candidates"][:1])
        post["n_winners"] = 1
        post["assertion_file"] = v
    else:
        post[k] = v
    c["post"] = post
    if rng.chance(0.1):
        case["audit"][rng.choice(["error_rate_1", "error_rate_2"])] = "-1/1000"
    if not any(o["op"] == "check" for o in case["ops"]):
        case["ops"].insert(rng.randint(0, len(case["ops"])), {"op": "check"})


def gen_stub_case(rng):
    nc = rng.choice([1, 2, 2, 3, 3, 4])
    used = []
    contests = [gen_contest(rng, i, "stub", used) for i in range(nc)]
    if rng.chance(0.15) and nc > 1:
        contests[1]["risk_limit"] = contests[0]["risk_limit"]      # equal limits occur too
    ncards = rng.randint(4, 10)
    oneaudit = rng.chance(0.25)
    if oneaudit and not any(c["audit_type"] == "ONEAUDIT" for c in contests):
        rng.choice(contests)["audit_type"] = "ONEAUDIT"
    cvrs, mvrs = gen_cards(rng, contests, ncards, 0.15, oneaudit=oneaudit)
    ncards = len(cvrs)
    all_polling = all(c["audit_type"] == "POLLING" for c in contests)
    for c in contests:
        c["sample_threshold"] = rng.choice([ncards, ncards, max(0, ncards - 3)])
    case = {"stream": "stub", "ret_kind": rng.choice(["np", "np", "float"]), "pool_means": oneaudit,
            "audit": {"error_rate_1": rng.choice(["1/1000", "0", "1/100"]), "error_rate_2": rng.choice(["0", "1/10000"]),
                      "use_style": rng.chance(0.6)},
            "contests": contests, "cvrs": cvrs, "mvrs": mvrs,
            "ops": gen_ops_stub(rng, contests, ncards, all_polling)}
    if rng.chance(0.25):
        malform(rng, case)
    return case


REAL_TESTS = [
    {"test": "alpha_mart", "estim": None, "bet": None, "test_kwargs": {}},
    {"test": "alpha_mart", "estim": "shrink_trunc", "bet": None, "test_kwargs": {"eta": 0.7, "d": 10, "c": 0.25}},
    {"test": "alpha_mart", "estim": "optimal_comparison", "bet": None, "test_kwargs": {"error_rate_2": 0.01}},
    {"test": "betting_mart", "estim": None, "bet": "fixed_bet", "test_kwargs": {"lam": 0.5}},
    {"test": "betting_mart", "estim": None, "bet": "agrapa", "test_kwargs": {"lam": 0.5, "c_grapa_0": 0.9,
                                                                               "c_grapa_max": 0.9, "c_grapa_grow": 0}},
    {"test": "kaplan_kolmogorov", "estim": None, "bet": None, "test_kwargs": {}},
    {"test": "kaplan_markov", "estim": None, "bet": None, "test_kwargs": {}},
    {"test": "kaplan_wald", "estim": None, "bet": None, "test_kwargs": {}},
    {"test": "wald_sprt", "estim": None, "bet": None, "test_kwargs": {"eta": 0.7}},
]


def gen_real_case(rng):
    nc = rng.choice([1, 2, 2, 3, 4])
    used = []
    contests = [gen_contest(rng, i, "real", used) for i in range(nc)]
    ncards = rng.randint(12, 60)
    oneaudit = rng.chance(0.25)
    if oneaudit:
        for c in contests:
            if c["audit_type"] == "CARD_COMPARISON" and rng.chance(0.7):
                c["audit_type"] = "ONEAUDIT"
        if not any(c["audit_type"] == "ONEAUDIT" for c in contests):
            rng.choice(contests)["audit_type"] = "ONEAUDIT"
    cvrs, mvrs = gen_cards(rng, contests, ncards, rng.choice([0.0, 0.02, 0.1]), oneaudit=oneaudit)
    ncards = len(cvrs)
    for c in contests:
        t = rng.choice(REAL_TESTS)
        if t["estim"] == "optimal_comparison" and c["audit_type"] == "POLLING":
            t = REAL_TESTS[0]
        c.update(copy.deepcopy(t))
        c["sample_threshold"] = rng.choice([ncards, ncards, ncards // 2])
    all_polling = all(c["audit_type"] == "POLLING" for c in contests)
    pat = list(rng.choice(OP_PATTERNS))
    ops = []
    n = rng.randint(1, max(1, ncards // 2))
    for o in pat:
        if o != "set":
            ops.append({"op": o})
            continue
        cvr = "none" if (all_polling and rng.chance(0.5)) else "same"
        ops.append({"op": "set", "n": n, "cvr": cvr})
        n = rng.choice([n, min(ncards, n + rng.randint(1, 25)), ncards, max(1, n - rng.randint(0, 5))])
    return {"stream": "real", "audit": {"error_rate_1": "1/1000", "error_rate_2": "0", "use_style": rng.chance(0.6)},
            "pool_means": oneaudit, "contests": contests, "cvrs": cvrs, "mvrs": mvrs, "ops": ops}


def usable(case):
    """a generated case is kept only if the audit can be built and every table entry computed (the
    statistical tests and the data extraction are parameters of C09; their failures belong to other properties)"""
    try:
        import warnings
        with warnings.catch_warnings():
            warnings.simplefilter("ignore")
            with np.errstate(all="ignore"):
                request(case)
        return True
    except Exception:
        return False


def gen_options(rng):
    """entry points and call forms the other streams never use (OPTIONS_AUDIT.md): Audit / Stratum / Contest objects
    made by their constructors (error rates at the constructor defaults left out), and the four operations called with
    their documented keywords (set_p_values without `cvr_sample` for a polling audit)"""
    case = gen_real_case(rng) if rng.chance(0.25) else gen_stub_case(rng)
    r = rng.random()
    if r < 0.6:
        case["via"] = "ctor"
        if rng.chance(0.5):
            case["audit"]["error_rate_1"], case["audit"]["error_rate_2"] = "1/1000", "0"
    if r >= 0.4:
        case["call"] = "kw"
    return case


def gen(rng, n, tier):
    import hashlib
    from ..core import Rng
    opt = Rng(int(hashlib.sha1(("options" + repr(rng.getstate())).encode()).hexdigest()[:15], 16))
    yield from gen_main(rng, n, tier)
    count = tries = 0
    while count < max(6, n // 15) and tries < 2000:
        tries += 1
        case = gen_options(opt)
        if usable(case):
            yield case
            count += 1


def gen_main(rng, n, tier):
    count = 0
    n_real = max(1, n // 5)
    tries = 0
    while count < n and tries < 20 * n + 100:
        tries += 1
        case = gen_real_case(rng) if (count % 5 == 4 and n_real > 0) else gen_stub_case(rng)
        if not usable(case):
            continue
        yield case
        count += 1


def corpus():
    base_c = {"id": "c0", "risk_limit": "1/20", "choice_function": "PLURALITY", "audit_type": "POLLING",
              "assertion_file": None, "candidates": ["Ann", "Bob", "Cy"], "winner": ["Ann"], "n_winners": 1,
              "order": [0, 1], "init_proved": [False, False], "_nasn": 2, "sample_threshold": 4}
    c1 = {"id": "c1", "risk_limit": "1/10", "choice_function": "SUPERMAJORITY", "audit_type": "CARD_COMPARISON",
          "assertion_file": None, "candidates": ["Ann", "Bob"], "winner": ["Ann"], "n_winners": 1,
          "share_to_win": "2/3", "order": [0], "init_proved": [True], "_nasn": 1, "sample_threshold": 4}
    cards = [{"id": f"card{i}", "tally_pool": "1",
              "votes": {"c0": {"Ann": True} if i % 4 else {"Bob": True}, "c1": {"Ann": True} if i % 5 else {"Bob": True}}}
             for i in range(6)]
    aud = {"error_rate_1": "1/1000", "error_rate_2": "0", "use_style": True}

    def mk(ops, stream="stub", contests=None, **kw):
        d = {"stream": stream, "ret_kind": "np", "audit": dict(aud), "contests": copy.deepcopy(contests or [base_c, c1]),
             "cvrs": copy.deepcopy(cards), "mvrs": copy.deepcopy(cards), "ops": ops}
        d.update(kw)
        return d

    def st(script, cvr="same", n=4):
        return {"op": "set", "n": n, "cvr": cvr, "script": script}
    out = [
        # exactly at the limits -> complete; then reset -> incomplete
        mk([st([[["lim", ["1", "lim"]], ["0", []]], [["lim", ["lim"]]]]), {"op": "summarize"}, {"op": "reset"},
            {"op": "summarize"}, {"op": "check"}]),
        # one ulp above the limit in the last assertion of the first contest
        mk([st([[["lim", []], ["lim+", []]], [["lim-", []]]]), {"op": "summarize"}]),
        # 7/100 is below the other contest's limit but above its own
        mk([st([[["7/100", []], ["0", []]], [["7/100", []]]]), {"op": "summarize"}]),
        # NaN: incomplete, max is NaN, the earlier confirmation of c1's assertion sticks
        mk([st([[["0", []], ["0", []]], [["nan", ["nan"]]]]), {"op": "summarize"},
            st([[["nan", []], ["1/100", []]], [["1/100", []]]]), {"op": "summarize"}]),
        # unequal sample lengths
        mk([st([[["0", []], ["0", []]], [["0", []]]], cvr="short"), {"op": "summarize"}]),
    ]
    real = copy.deepcopy([base_c, c1])
    for c in real:
        c.update({"test": "alpha_mart", "estim": None, "bet": None, "test_kwargs": {}})
    out.append(mk([{"op": "set", "n": 3, "cvr": "same"}, {"op": "summarize"}, {"op": "reset"},
                   {"op": "set", "n": 6, "cvr": "same"}, {"op": "summarize"}, {"op": "check"}], stream="real", contests=real))
    return out
