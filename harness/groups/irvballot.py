"""
Correspondence group `irvballot` (property C14): the two implementations of "which candidate does this
ranked ballot count for"

  audit side      shangrla.core.Audit: Assertion.make_assertions_from_json (WINNER_ONLY / IRV_ELIMINATION
                  assorters on a real Contest), CVR.from_vote, CVR.rcv_lfunc_wo, CVR.rcv_votefor_cand,
                  CVR.from_raire_file, Assorter.mean
  generator side  shangrla.raire.raire_utils: NEBAssertion / NENAssertion .is_vote_for_winner/loser,
                  load_contests_from_raire; shangrla.raire.raire.compute_raire_assertions

vs. the literal models in lean/Shangrla/Model/IrvBallot.lean.

Two kinds of case:
  k = "ballot": one ballot (both encodings), one (winner, loser, eliminated) triple.
  k = "raire" : the rows of a RAIRE-format file; written to disk and read by BOTH readers; every NEB / NEN
                assertion of every contest is evaluated on both sides through the readers, and the assertions
                returned by compute_raire_assertions are re-applied to the cvrs.
"""
import itertools, os, shutil, tempfile
from fractions import Fraction

from ..core import impl_call, err_kind, fr, num_close

NAME = "irvballot"
RULE = ("ballot cases: EXHAUSTIVE over every partial ranking (every length 0..n, every order) of n candidates, "
        "n = 1..4 in the quick tier and 1..5 in the thorough tier, x every (winner, loser) pair with winner != loser "
        "x every eliminated set not containing them (plus winner == loser for n <= 4), with names A..E; the same sweep "
        "for n = 2..4 with numeric identifiers of mixed width that are substrings of one another ('1','10','2','21') "
        "and, in the thorough tier, with word identifiers ('Ann','Joann','Jo','An'); random name pools of both kinds "
        "in the raw-ballot and file streams; plus random 'raw' ballots "
        "(ties, rank 0, gaps, candidates not in the contest) for the model correspondence only. "
        "raire cases: random RAIRE files (1-3 contests, 2-5 candidates, repeated ballot ids across and within "
        "contests, partial rankings, interleaved rows, occasionally write-ins / duplicate preferences / malformed "
        "rows) written to disk and read by CVR.from_raire_file and load_contests_from_raire; all NEB and NEN "
        "assertions evaluated through both readers; assertions returned by compute_raire_assertions re-applied. "
        "non-trivial = non-empty ballot / file with at least one ballot; distinct = distinct canonical input")
EXHAUSTIVE = {"quick": False, "thorough": False}
RULE += "; option stream (n/200 more files, own generator, OPTIONS_AUDIT.md): contest lines with the optional trailing fields order,<permutation> and informal,<count>"

CID = "c1"
NAMES = ["A", "B", "C", "D", "E"]
# candidate identifiers are opaque strings: numeric ids of mixed width and names that are prefixes / suffixes / infixes
# of one another (as in real exports: '4' and '47', 'Ann' and 'Joann')
NUMS = ["1", "10", "2", "21", "102"]
WORDS = ["Ann", "Joann", "Jo", "An", "Anna"]
POOLS = [NAMES, NAMES, NUMS, NUMS, WORDS, ["P", "Q", "R", "S", "T"], ["7", "17", "71", "171", "3"]]
# names with letters outside ASCII, next to what they become when those letters are dropped or mis-decoded
# ('José' / 'Jos' / 'JosÃ©'): the file readers must hand every identifier on unchanged
ACCENTS = ["José", "Zoë", "Jos", "Zo", "JosÃ©"]


def _text_files_hold(s):
    """can a text file opened the default way (open(path, 'w') / open(path), the way both readers open theirs) hold `s`?"""
    import locale
    try:
        enc = locale.getpreferredencoding(False)
        return s.encode(enc).decode(enc) == s
    except Exception:
        return False


NONASCII_OK = _text_files_hold("".join(ACCENTS) + "Köln")
if NONASCII_OK:
    POOLS = POOLS + [ACCENTS, ACCENTS]


# ------------------------------------------------------------------------------------------------
# case construction

def enc_a(r):
    return [[c, k + 1] for k, c in enumerate(r)]


def enc_g(r):
    return [[c, k] for k, c in enumerate(r)]


def ballot_case(cands, r, w, l, E, cid=CID):
    # the audit-side vote dict {candidate: rank} in one of three KEY orders (a dict's insertion order carries no
    # meaning: the Dominion reader inserts marks in file order, hand-made dicts are often in candidate order):
    # preference order, candidate-name order, reversed preference order -- chosen by a hash of the case
    a = enc_a(r)
    pick = (sum(ord(ch) for c in list(r) + list(E) + [w, l] for ch in str(c)) + len(r)) % 3
    if pick == 1:
        a = sorted(a, key=lambda p: str(p[0]))
    elif pick == 2:
        a = a[::-1]
    return {"k": "ballot", "cid": cid, "cands": list(cands), "w": w, "l": l, "E": list(E),
            "r": list(r), "a": a, "g": enc_g(r)}


def line_case(cands, line, w, l, E, cid=CID):
    """a ballot as the two readers of the RAIRE format hand it on: `line` is the ballot line (duplicate-free; it may
    rank identifiers that are not declared for the contest, e.g. a write-in).  CVR.from_raire gives every identifier
    of the line its 1-based position; load_contests_from_raire keeps the declared candidates only, each at its 0-based
    position ON THE LINE (so the positions need not be contiguous).  `r` = the ranking of the declared candidates."""
    c = ballot_case(cands, [x for x in line if x in cands], w, l, E, cid)
    a = [[x, k + 1] for k, x in enumerate(line)]
    pick = (sum(ord(ch) for x in line for ch in str(x)) + len(E)) % 3
    if pick == 1:
        a = sorted(a, key=lambda p: str(p[0]))
    elif pick == 2:
        a = a[::-1]
    c["a"] = a
    c["g"] = [[x, k] for k, x in enumerate(line) if x in cands]
    c["line"] = list(line)
    return c


def raw_case(cands, a, g, w, l, E, cid=CID):
    return {"k": "ballot", "cid": cid, "cands": list(cands), "w": w, "l": l, "E": list(E),
            "r": None, "a": a, "g": g}


def partial_rankings(cands):
    for k in range(len(cands) + 1):
        yield from itertools.permutations(cands, k)


def subsets(xs):
    for k in range(len(xs) + 1):
        yield from itertools.combinations(xs, k)


def specs_for(cands):
    """every NEB and NEN assertion of a contest: [type, winner, loser, eliminated]"""
    cs = list(dict.fromkeys(cands))
    out = []
    for w in cs:
        for l in cs:
            if w != l:
                out.append(["NEB", w, l, []])
    for w in cs:
        for l in cs:
            if w != l:
                for E in subsets([c for c in cs if c not in (w, l)]):
                    out.append(["NEN", w, l, list(E)])
    return out


def raire_case(contests, rows, wellformed=True, unlisted=False, header=None):
    """contests: [[cid, cands, winner]]; rows: ballot rows [cid, bid, p1, p2, ...]"""
    if header is None:
        header = [["Contest", cid, str(len(cands))] + list(cands) + ["winner", winner] for cid, cands, winner in contests]
    allrows = [[str(len(header))]] + header + rows
    return {"k": "raire", "n": len(header), "rows": allrows, "contests": contests,
            "wellformed": wellformed, "unlisted": unlisted}


def corpus():
    c3 = ["A", "B", "C"]
    out = [
        ballot_case(c3, ["B", "A"], "A", "B", []),
        ballot_case(c3, ["C", "A", "B"], "A", "B", ["C"]),
        ballot_case(c3, [], "A", "B", []),
        ballot_case(c3, ["A"], "A", "A", ["B"]),
        # outside the property's quantifier (a ranked candidate that is not in the contest's candidate list):
        # the audit side looks only at `remaining`, the generator side at every ballot entry -> they differ
        ballot_case(["A", "B"], ["X", "A"], "A", "B", []),
        # ballot lines with a write-in: first (the declared candidates' positions start at 1), in the middle (a hole)
        line_case(["A", "B"], ["W", "A", "B"], "A", "B", []),
        line_case(c3, ["B", "W", "A", "C"], "A", "C", ["B"]),
        # ties / rank 0 (raw)
        raw_case(c3, [["A", 1], ["B", 1]], [["A", 0], ["B", 0]], "A", "B", []),
        raw_case(c3, [["A", 0], ["B", 2]], [["A", 0], ["B", 2]], "A", "B", ["C"]),
    ]
    out.append(raire_case(
        [["c1", ["A", "B", "C"], "A"], ["c2", ["X", "Y"], "X"]],
        [["c1", "b1", "A", "B"], ["c2", "b1", "X"], ["c1", "b2", "A"], ["c1", "b3", "C", "A"], ["c2", "b3", "Y", "X"],
         ["c1", "b4", "B", "C", "A"], ["c1", "b5", "A", "C"], ["c2", "b5"], ["c1", "b1", "A", "C", "B"]]))
    out.append(raire_case([["c1", ["A", "B"], "A"]], [["c1", "b1", "A"], ["c1", "b2", "A", "B"], ["c1", "b3", "B"]]))
    # frontier holding a NEN node and a NEB assertion with the same winner and loser (same_as must tell them apart)
    out.append(raire_case([["c1", ["A", "B", "C"], "A"]], [["c1", "b1", "A"], ["c1", "b2", "A"], ["c1", "b3", "B", "A"]]))
    out.append(raire_case([["c1", ["A", "B", "C"], "A"]], [["c1", "b1", "A", "W", "B"], ["c1", "b2", "W"], ["c1", "b3", "A"]],
                          unlisted=True))
    out.append(raire_case([["c1", ["A", "B", "C"], "A"]], [["c1", "b1", "A", "B", "A"], ["c1", "b2", "A"]], wellformed=False))
    out.append(raire_case([["c1", ["A", "B"], "A"]], [["c1", "b1", "A"], ["c9", "b2", "A"]], wellformed=False))
    out.append(raire_case([["c1", ["A", "B"], "A"]], [["c1", "b1", "A"], ["c1"]], wellformed=False))
    return out


def irv_winner(cands, rankings):
    """(input generation only) plain IRV tabulation to pick the winner named in the contest line"""
    standing = list(cands)
    while len(standing) > 1:
        t = {c: 0 for c in standing}
        for r in rankings:
            for c in r:
                if c in t:
                    t[c] += 1
                    break
        lo = min(standing, key=lambda c: (t[c], c))
        standing.remove(lo)
    return standing[0]


def gen_file(rng, tier):
    ncon = rng.choice([1, 1, 2, 2, 3])
    contests, per = [], []
    nb = rng.choice([3, 6, 10, 15, 25, 40])
    bids = [f"b{i}" for i in range(1, nb + 1)]
    if NONASCII_OK and rng.chance(0.15):
        bids = [f"Köln-{i}" if i % 3 else f"b{i}é" for i in range(1, nb + 1)]
    unlisted = rng.chance(0.15)
    dup = rng.chance(0.06)
    numeric_ids = rng.chance(0.4)
    for ci in range(ncon):
        cid = f"c{ci + 1}" if not (NONASCII_OK and rng.chance(0.08)) else f"Bezirk-ä{ci + 1}"
        if numeric_ids:
            cid = str(330 + ci)          # as in the shipped .raire files (contest 339, 334, ...)
        nc = rng.choice([2, 3, 3, 4, 4, 4, 5] if tier == "thorough" else [2, 3, 3, 4, 4, 4, 4, 5])
        pool = rng.choice(POOLS)
        cands = pool[:nc]
        if rng.chance(0.3):
            cands = list(cands); rng.shuffle(cands)
        # skewed popularity so that there usually is an auditable winner
        wts = [rng.choice([1, 2, 3, 5, 8]) for _ in cands]
        rows, ranks = [], []
        for b in bids:
            if not rng.chance(0.85):
                continue
            k = rng.choice([0, 1, 1, 2, 2, 3, nc, nc])
            k = min(k, nc)
            left, w, r = list(cands), list(wts), []
            for _ in range(k):
                c = rng.choices(left, weights=w)[0]
                i = left.index(c); left.pop(i); w.pop(i)
                r.append(c)
            if unlisted and rng.chance(0.3):
                r.insert(rng.randint(0, len(r)), "W")
            if dup and r and rng.chance(0.3):
                r.insert(rng.randint(0, len(r)), rng.choice(r))
            rows.append([cid, b] + r)
            ranks.append(r)
        # a ballot id repeated inside the same contest: the later row replaces the earlier one
        if rows and rng.chance(0.25):
            old = rng.choice(rows)
            r = list(old[2:]); rng.shuffle(r)
            new = [cid, old[1]] + r[: rng.randint(0, len(r))]
            rows.append(new)
            ranks = [x[2:] for x in {tuple(x[:2]): x for x in rows}.values()]
        winner = irv_winner(cands, [[c for c in r if c in cands] for r in ranks]) if rng.chance(0.85) else rng.choice(cands)
        contests.append([cid, list(cands), winner])
        per.append(rows)
    # contest blocks one after the other, or interleaved
    if rng.chance(0.5):
        rows = [r for p in per for r in p]
    else:
        rows = []
        its = [list(p) for p in per]
        while any(its):
            p = rng.choice([x for x in its if x])
            rows.append(p.pop(0))
    wellformed = not dup
    header = None
    m = rng.random()
    if m < 0.03 and rows:
        rows.insert(rng.randint(0, len(rows)), [rows[0][0]]); wellformed = False          # short row
    elif m < 0.06:
        rows.insert(rng.randint(0, len(rows)), ["zz", "b1", "A"]); wellformed = False       # undeclared contest
    elif m < 0.08:
        header = [["Contest", cid, "x" if i == 0 else str(len(c))] + list(c) + ["winner", w] for i, (cid, c, w) in enumerate(contests)]
        wellformed = False                                                                 # ncands not an int
    elif m < 0.10:
        header = [["Contest", cid, str(len(c))] + list(c) + (["winner", w] if i else []) for i, (cid, c, w) in enumerate(contests)]
        wellformed = False                                                                 # no winner token
    elif m < 0.12:
        header = [["Contest", cid, str(len(c) + (9 if i == 0 else 0))] + list(c) + ["winner", w] for i, (cid, c, w) in enumerate(contests)]
        wellformed = False                                                                 # ncands too large
    out = raire_case(contests, rows, wellformed=wellformed, unlisted=unlisted, header=header)
    from ..core import CONTAINER_KINDS
    out["container"] = rng.choice(CONTAINER_KINDS)      # how the CVR list reaches Assorter.mean
    return out


def gen_raw(rng):
    nc = rng.choice([2, 3, 3, 4, 5])
    cands = rng.choice(POOLS)[:nc]
    onb = [c for c in cands + (["X"] if rng.chance(0.3) else []) if rng.chance(0.7)]
    rng.shuffle(onb)
    mode = rng.choice(["ties", "zero", "gaps", "free"])
    if mode == "gaps":
        vals = sorted(rng.sample(range(1, 9), len(onb)))
        a = [[c, v] for c, v in zip(onb, vals)]
        g = [[c, v - 1] for c, v in zip(onb, vals)]
    else:
        hi = 3 if mode == "ties" else 5
        lo = 0 if mode in ("zero", "free") else 1
        a = [[c, rng.randint(lo, hi)] for c in onb]
        g = [[c, max(0, v - 1)] for c, v in a] if rng.chance(0.6) else [[c, rng.randint(0, hi)] for c in onb]
        if rng.chance(0.3):
            rng.shuffle(g)
    w = rng.choice(cands + ["X"]) if rng.chance(0.1) else rng.choice(cands)
    l = rng.choice(cands)
    E = [c for c in cands if c not in (w, l) and rng.chance(0.4)]
    if rng.chance(0.05):
        E.append(rng.choice([w, l]))
    return raw_case(cands, a, g, w, l, E)


def gen_line(rng):
    """a random ballot line with 1-2 undeclared identifiers among 2-5 declared candidates of a random name pool"""
    nc = rng.choice([2, 3, 4, 4, 5])
    cands = rng.choice(POOLS)[:nc]
    line = rng.sample(cands, rng.randint(1, nc))
    for x in rng.sample(["W", "write-in", "0"], rng.choice([1, 1, 2])):
        line.insert(rng.randint(0, len(line)), x)
    w, l = rng.sample(cands, 2)
    E = [c for c in cands if c not in (w, l) and rng.chance(0.4)]
    return line_case(cands, line, w, l, E)


def with_prior(rng, case):
    """the record held another ranking before (see impl_ballot)"""
    cands = list(case["cands"])
    for _ in range(6):
        r = list(cands)
        rng.shuffle(r)
        r = r[: rng.randint(1, len(r))]
        if r != case.get("r"):
            break
    case["prior"] = {"a": enc_a(r), "how": rng.choice(["assign", "item", "merge"])}
    return case


def gen_options(rng, tier):
    """RAIRE files whose contest lines carry the optional trailing fields of the format (OPTIONS_AUDIT.md):
    `...,winner,W,order,<every candidate, in elimination order>` and / or `...,informal,<count>` (both read by
    load_contests_from_raire: they set Contest.outcome -- a search hint -- and add to Contest.tot_ballots; the audit-side
    reader skips the contest lines).  The ballots, the candidates and the winner are what they are without them."""
    for _ in range(40):
        c = gen_file(rng, tier)
        n = c["n"]
        hdr = c["rows"][1:1 + n]
        if not c["wellformed"] or c["unlisted"] or len(hdr) != len(c["contests"]) or \
                any(h != ["Contest", cid, str(len(cands))] + list(cands) + ["winner", w] for h, (cid, cands, w) in zip(hdr, c["contests"])):
            continue
        for h, (cid, cands, w) in zip(hdr, c["contests"]):
            r = rng.random()
            if r < 0.75:
                perm = [x for x in cands if x != w]
                rng.shuffle(perm)
                h += ["order"] + perm + [w]
            if r >= 0.35:
                h += ["informal", str(rng.choice([0, 1, 3, 12, 250]))]
        c["header_opts"] = True
        return c
    return gen_file(rng, tier)


def gen(rng, n, tier):
    import hashlib
    from ..core import Rng
    opt = Rng(int(hashlib.sha1(("options" + repr(rng.getstate())).encode()).hexdigest()[:15], 16))
    yield from gen_main(rng, n, tier)
    for _ in range(max(6, n // 200) if tier == "quick" else max(6, n // 400)):
        yield gen_options(opt, tier)


def gen_main(rng, n, tier):
    count = 0
    top = 4 if tier == "quick" else 5
    sweeps = [NAMES[:nc] for nc in range(1, top + 1)] + [NUMS[:nc] for nc in range(2, 5)]
    if tier != "quick":
        sweeps += [WORDS[:nc] for nc in range(2, 5)]
    for cands in sweeps:
        nc = len(cands)
        for w in cands:
            for l in cands:
                if w == l and nc > 4:
                    continue
                for E in subsets([c for c in cands if c not in (w, l)]):
                    for r in partial_rankings(cands):
                        c = ballot_case(cands, r, w, l, E)
                        if nc >= 2 and rng.chance(0.15):
                            with_prior(rng, c)
                        yield c
                        count += 1
    # rankings that mention a candidate outside the contest (outside the quantifier; model correspondence)
    for r in partial_rankings(["A", "B", "X"]):
        for E in ([], ["C"]):
            yield ballot_case(["A", "B", "C"], r, "A", "B", E)
            count += 1
    # ballot lines that also rank an undeclared identifier (write-in "W"): every duplicate-free line over the
    # declared candidates + W that contains W, 2-3 candidates (thorough: a random third of the 4-candidate ones too)
    for nc in ((2, 3) if tier == "quick" else (2, 3, 4)):
        cands = NAMES[:nc]
        for line in partial_rankings(cands + ["W"]):
            if "W" not in line or len(line) < 2:
                continue
            for w in cands:
                for l in cands:
                    for E in subsets([c for c in cands if c not in (w, l)]):
                        if nc == 4 and not rng.chance(0.33):
                            continue
                        yield line_case(cands, list(line), w, l, E)
                        count += 1
    rest = max(n - count, 300)
    nfiles = int(rest * 0.35)
    for i in range(rest - nfiles):
        c = gen_line(rng) if i % 4 == 0 else gen_raw(rng)
        if rng.chance(0.15):
            with_prior(rng, c)
        yield c
    for _ in range(nfiles):
        yield gen_file(rng, tier)


# ------------------------------------------------------------------------------------------------
# implementation side

_TMP = None


def _tmpdir():
    global _TMP
    if _TMP is None or not os.path.isdir(_TMP):
        _TMP = tempfile.mkdtemp(prefix="verif-c14-")
        import atexit
        atexit.register(shutil.rmtree, _TMP, ignore_errors=True)
    return _TMP


def _audit_contest(cid, cands, ncards):
    from shangrla.core.Audit import Audit, Contest
    from shangrla.core.NonnegMean import NonnegMean
    return Contest(id=cid, name=cid, risk_limit=0.05, cards=ncards,
                   choice_function=Contest.SOCIAL_CHOICE_FUNCTION.IRV, n_winners=1, candidates=list(cands),
                   winner=[cands[0]] if cands else [], audit_type=Audit.AUDIT_TYPE.CARD_COMPARISON,
                   test=NonnegMean.alpha_mart, estim=NonnegMean.optimal_comparison, use_style=True)


def _json_assertion(spec):
    from shangrla.core.Audit import Assertion
    t, w, l, E = spec
    if t == "NEB":
        return {"winner": w, "loser": l, "assertion_type": Assertion.WINNER_ONLY}
    return {"winner": w, "loser": l, "assertion_type": Assertion.IRV_ELIMINATION, "already_eliminated": list(E)}


def _key(spec):
    t, w, l, E = spec
    return w + " v " + l if t == "NEB" else w + " v " + l + " elim " + " ".join(E)


def _make_assertions(contest, cands, specs):
    from shangrla.core.Audit import Assertion
    from shangrla.core.NonnegMean import NonnegMean
    d = Assertion.make_assertions_from_json(contest=contest, candidates=list(cands),
                                            json_assertions=[_json_assertion(s) for s in specs],
                                            test=NonnegMean.alpha_mart, estim=NonnegMean.optimal_comparison)
    return [d[_key(s)] for s in specs]


def impl_ballot(case):
    from shangrla.core.Audit import CVR
    from shangrla.raire.raire_utils import NEBAssertion, NENAssertion
    cid, cands, w, l, E = case["cid"], case["cands"], case["w"], case["l"], case["E"]
    contest = _audit_contest(cid, cands, 10)
    neb, nen = _make_assertions(contest, cands, [["NEB", w, l, []], ["NEN", w, l, E]])
    cvr = CVR.from_vote({c: k for c, k in case["a"]}, id="1", contest_id=cid)
    remn = list(nen.assorter.assort.__defaults__[3])      # the `remn` the IRV_ELIMINATION lambda closed over
    if case.get("prior") is not None:
        # the record is not fresh: it held ANOTHER ranking (an earlier scan of the card) on which the same questions were
        # already asked, and was then corrected in place -- by assignment, or by merging in a later record for the same
        # card (CVR.merge_cvrs replaces the contest's votes).  The answers are a function of the votes it holds NOW.
        cvr = CVR.from_vote({c: k for c, k in case["prior"]["a"]}, id="1", contest_id=cid)
        for f in (lambda: neb.assorter.assort(cvr), lambda: nen.assorter.assort(cvr),
                  lambda: cvr.rcv_votefor_cand(cid, w, remn), lambda: cvr.rcv_votefor_cand(cid, l, remn),
                  lambda: cvr.rcv_lfunc_wo(cid, w, l)):
            try:
                f()
            except Exception:  # noqa
                pass
        now = {c: k for c, k in case["a"]}
        if case["prior"]["how"] == "merge":
            cvr = CVR.merge_cvrs([cvr, CVR(id="1", votes={cid: now})])[0]
        elif case["prior"]["how"] == "item":
            cvr.votes[cid] = now
        else:
            cvr.votes = {cid: now}
    gcvr = {cid: {c: k for c, k in case["g"]}}
    gneb = NEBAssertion(cid, w, l)
    gnen = NENAssertion(cid, w, l, list(E))
    votes = cvr.votes[cid]
    return {"st": "ok",
            "aw": int(neb.assorter.winner(cvr)), "al": int(neb.assorter.loser(cvr)),
            "neb": fr(neb.assorter.assort(cvr)),
            "remn": remn,
            "rw": int(cvr.rcv_votefor_cand(cid, w, remn)), "rl": int(cvr.rcv_votefor_cand(cid, l, remn)),
            "nen": fr(nen.assorter.assort(cvr)),
            "gw": int(gneb.is_vote_for_winner(gcvr)), "gl": int(gneb.is_vote_for_loser(gcvr)),
            "nw": int(gnen.is_vote_for_winner(gcvr)), "nl": int(gnen.is_vote_for_loser(gcvr)),
            "aorder": [c for c, _ in sorted(votes.items(), key=lambda kv: kv[1])],
            "gorder": [c for c, _ in sorted(gcvr[cid].items(), key=lambda kv: kv[1])]}


def _order(d):
    return [c for c, _ in sorted(d.items(), key=lambda kv: kv[1])]


def impl_raire(case):
    from shangrla.core.Audit import CVR
    from shangrla.raire import raire_utils as ru
    from shangrla.raire.raire import compute_raire_assertions
    from shangrla.raire.sample_estimator import cp_estimate
    path = os.path.join(_tmpdir(), "case.raire")
    with open(path, "w") as f:
        for row in case["rows"]:
            f.write(",".join(row) + "\n")
    res = {"st": "ok"}
    acvrs = gcvrs = gcontests = None
    try:
        acvrs, _nread, _nuniq = CVR.from_raire_file(path)
        res["audit"] = {"st": "ok",
                        "cvrs": [[c.id, [[cid, [[k, int(v)] for k, v in b.items()]] for cid, b in c.votes.items()]] for c in acvrs],
                        "orders": [[c.id, [[cid, _order(b)] for cid, b in c.votes.items()]] for c in acvrs]}
    except Exception as e:  # noqa
        res["audit"] = {"st": "err", "err": err_kind(e)}
    try:
        gcontests, gcvrs = ru.load_contests_from_raire(path)
        res["gen"] = {"st": "ok",
                      "contests": [[c.name, list(c.candidates), c.winner] for c in gcontests],
                      "cvrs": [[bid, [[cid, [[k, int(v)] for k, v in b.items()]] for cid, b in r.items()]] for bid, r in gcvrs.items()],
                      "orders": [[bid, [[cid, _order(b)] for cid, b in r.items()]] for bid, r in gcvrs.items()]}
    except Exception as e:  # noqa
        res["gen"] = {"st": "err", "err": err_kind(e)}
    if acvrs is None or gcvrs is None:
        res["tables"] = None
        res["returned"] = None
        return res
    tables = []
    for cid, cands, _w in case["contests"]:
        specs = specs_for(cands)
        contest = _audit_contest(cid, cands, len(acvrs))
        rows = []
        for spec, a in zip(specs, _make_assertions(contest, cands, specs)):
            vals = [a.assorter.assort(c) for c in acvrs if c.has_contest(cid)]
            from ..core import container
            mean = a.assorter.mean(container(case.get("container"), acvrs), use_style=True) if vals else None
            g = ru.NEBAssertion(cid, spec[1], spec[2]) if spec[0] == "NEB" else ru.NENAssertion(cid, spec[1], spec[2], list(spec[3]))
            rows.append({"sum": fr(sum(Fraction(v) for v in vals)), "n": len(vals),
                         "mean": None if mean is None else float(mean),
                         "W": int(sum(g.is_vote_for_winner(r) for r in gcvrs.values())),
                         "L": int(sum(g.is_vote_for_loser(r) for r in gcvrs.values()))})
        tables.append([cid, rows])
    res["tables"] = tables
    returned = []
    for con in gcontests:
        try:
            out = compute_raire_assertions(con, gcvrs, con.winner, cp_estimate, False)
        except Exception as e:  # noqa  -- nothing is returned: C14 says nothing about it (reported in the branch tag)
            returned.append([con.name, [{"raised": err_kind(e)}]])
            continue
        lst = []
        for a in out:
            if a is None:
                lst.append(None)
                continue
            lst.append({"t": "NEB" if isinstance(a, ru.NEBAssertion) else "NEN", "w": a.winner, "l": a.loser,
                        "E": list(getattr(a, "eliminated", [])),
                        "vW": int(a.votes_for_winner), "vL": int(a.votes_for_loser),
                        "rW": int(sum(a.is_vote_for_winner(r) for r in gcvrs.values())),
                        "rL": int(sum(a.is_vote_for_loser(r) for r in gcvrs.values()))})
        returned.append([con.name, lst])
    res["returned"] = returned
    # the same contests with their identifiers as Python ints (a caller who numbers contests in code; the library's own
    # load_contests_from_txt names its contest 1): the generator's result must not depend on the identifier's type
    res["returned_int"] = None
    if gcontests and all(str(c.name).isdecimal() and str(int(c.name)) == c.name for c in gcontests):
        try:
            g2 = {bid: {(int(k) if str(k).isdecimal() and str(int(k)) == k else k): dict(b) for k, b in r.items()}
                  for bid, r in gcvrs.items()}
            alt = []
            for con in gcontests:
                c2 = ru.Contest(int(con.name), list(con.candidates), con.winner, con.tot_ballots, order=list(con.outcome))
                try:
                    out = compute_raire_assertions(c2, g2, c2.winner, cp_estimate, False)
                except Exception as e:  # noqa
                    alt.append([con.name, [{"raised": err_kind(e)}]])
                    continue
                alt.append([con.name, [None if a is None else
                                       {"t": "NEB" if isinstance(a, ru.NEBAssertion) else "NEN", "w": a.winner, "l": a.loser,
                                        "E": list(getattr(a, "eliminated", [])),
                                        "vW": int(a.votes_for_winner), "vL": int(a.votes_for_loser),
                                        "rW": int(sum(a.is_vote_for_winner(r) for r in g2.values())),
                                        "rL": int(sum(a.is_vote_for_loser(r) for r in g2.values()))} for a in out]])
            res["returned_int"] = alt
        except Exception as e:  # noqa
            res["returned_int"] = [["*", [{"raised": err_kind(e)}]]]
    return res


def impl(case):
    return impl_ballot(case) if case["k"] == "ballot" else impl_raire(case)


# ------------------------------------------------------------------------------------------------
# model side

def request(case):
    if case["k"] == "ballot":
        return ("irvballot", "ballot", {k: case[k] for k in ("cid", "cands", "w", "l", "E", "a", "g")})
    return ("irvballot", "raire", {"n": case["n"], "rows": case["rows"],
                                   "asserts": [[cid, cands, specs_for(cands)] for cid, cands, _ in case["contests"]]})


def compare(case, ir, mr):
    if ir.get("st") != mr.get("st"):
        return f"status differs: impl={ir.get('st')}/{ir.get('err')} model={mr.get('st')}/{mr.get('err')}"
    if ir["st"] == "err":
        return None if ir["err"] == mr["err"] else f"error kind differs: {ir['err']} vs {mr['err']}"
    if case["k"] == "ballot":
        for k in ("aw", "al", "remn", "rw", "rl", "gw", "gl", "nw", "nl", "aorder", "gorder"):
            if ir[k] != mr[k]:
                return f"{k}: impl={ir[k]} model={mr[k]}"
        for k in ("neb", "nen"):
            if Fraction(ir[k]) != Fraction(mr[k]):
                return f"{k}: impl={ir[k]} model={mr[k]}"
        return None
    for side in ("audit", "gen"):
        a, b = ir[side], mr[side]
        if a["st"] != b["st"] or a.get("err") != b.get("err"):
            return f"{side} reader: impl={a['st']}/{a.get('err')} model={b['st']}/{b.get('err')}"
        if a["st"] == "ok":
            for k in ("cvrs", "orders") + (("contests",) if side == "gen" else ()):
                if a[k] != b[k]:
                    return f"{side} reader {k} differ: impl={str(a[k])[:200]} model={str(b[k])[:200]}"
    if (ir["tables"] is None) != (mr["tables"] is None):
        return "tables present on one side only"
    if ir["tables"] is None:
        return None
    index = {}
    for (cid, rows_i), (cid_m, rows_m), (cid_c, cands, _w) in zip(ir["tables"], mr["tables"], case["contests"]):
        if cid != cid_m or len(rows_i) != len(rows_m):
            return "tables shape differs"
        for spec, x, y in zip(specs_for(cands), rows_i, rows_m):
            if Fraction(x["sum"]) != Fraction(y["sum"]) or x["n"] != y["n"] or x["W"] != y["W"] or x["L"] != y["L"]:
                return f"contest {cid} assertion {spec}: impl={x} model={y}"
            if (x["mean"] is None) != (y["mean"] is None) or (x["mean"] is not None and not num_close(x["mean"], y["mean"])):
                return f"contest {cid} assertion {spec} mean: impl={x['mean']} model={y['mean']}"
            index[(cid, spec[0], spec[1], spec[2], frozenset(spec[3]))] = y
    for cid, lst in ir["returned"] or []:
        for a in lst:
            if a is None or "raised" in a:
                continue
            y = index.get((cid, a["t"], a["w"], a["l"], frozenset(a["E"])))
            if y is None:
                return f"returned assertion {a} of contest {cid} is not an assertion over the declared candidates"
            if y["vW"] != a["vW"] or y["vL"] != a["vL"]:
                return f"returned assertion {a} of contest {cid}: model tallies vW={y['vW']} vL={y['vL']}"
            if y["W"] != a["rW"] or y["L"] != a["rL"]:
                return f"returned assertion {a} of contest {cid}: model re-applied tallies W={y['W']} L={y['L']}"
    return None


def signature(case, ir):
    if ir.get("st") != "ok":
        return "err:" + str(ir.get("err"))
    if case["k"] == "ballot":
        if not case["a"]:
            return "trivial:empty-ballot"
        kind = "raw" if case["r"] is None else ("line" if "line" in case else
                                                 "canon" if set(case["r"]) <= set(case["cands"]) else "unlisted")
        wl = "w=l" if case["w"] == case["l"] else "w!=l"
        return f"ballot:{kind};{wl};neb={ir['aw']}{ir['al']};nen={ir['rw']}{ir['rl']}"
    a, g = ir["audit"], ir["gen"]
    if a["st"] != "ok" or g["st"] != "ok":
        return f"raire:reader-error;audit={a.get('err', 'ok')};gen={g.get('err', 'ok')}"
    if not a["cvrs"]:
        return "trivial:no-ballots"
    ret = sum(1 for _, lst in ir["returned"] for x in lst if x is not None)
    kinds = sorted({x.get("t") or "raised-" + x["raised"] for _, lst in ir["returned"] for x in lst if x is not None})
    tag = "wellformed" if case["wellformed"] and not case["unlisted"] else ("unlisted" if case["wellformed"] else "malformed")
    return f"raire:{tag};contests={len(case['contests'])};returned={'+'.join(kinds) if ret else 'none'}"


# ------------------------------------------------------------------------------------------------
# oracle: the statement of C14 evaluated on the implementation's results (independent of the model)

def oracle_c14(case, ir):
    if case["k"] == "ballot":
        r = case["r"]
        if r is None:
            return None                      # raw ballot: not the encoding of a ranking
        if ir.get("st") != "ok":
            return {"what": f"evaluating the assorters on ballot {r} raised {ir.get('err')}: {ir.get('msg')}"}
        cands, w, l, E = case["cands"], case["w"], case["l"], case["E"]
        tag = f"ballot {r}, winner {w}, loser {l}"
        if ir["aw"] != ir["gw"] or ir["al"] != ir["gl"]:
            return {"what": f"{tag}: NEB verdicts differ: audit winner/loser = {ir['aw']}/{ir['al']}, "
                            f"generator = {ir['gw']}/{ir['gl']}"}
        if Fraction(ir["neb"]) != Fraction(ir["gw"] - ir["gl"] + 1, 2):
            return {"what": f"{tag}: NEB assorter gives {ir['neb']}, generator verdicts w={ir['gw']} l={ir['gl']} "
                            f"require {(ir['gw'] - ir['gl'] + 1) / 2}"}
        inside = set(r) <= set(cands) and w in cands and l in cands and w not in E and l not in E
        if inside:
            if Fraction(ir["nen"]) != Fraction(ir["nw"] - ir["nl"] + 1, 2):
                return {"what": f"{tag}, eliminated {E}, candidates {cands}: NEN assorter gives {ir['nen']}, generator "
                                f"verdicts w={ir['nw']} l={ir['nl']} require {(ir['nw'] - ir['nl'] + 1) / 2}"}
            if "line" in case:
                # the ballot as read from a line that also ranks undeclared identifiers: the audit side keeps them,
                # the generator side drops them; both must keep the line's order of the declared candidates
                if ir["aorder"] != case["line"] or ir["gorder"] != list(r) or [c for c in ir["aorder"] if c in cands] != list(r):
                    return {"what": f"{tag}: ballot line {case['line']}: orders decoded audit={ir['aorder']} generator={ir['gorder']}"}
            elif ir["aorder"] != list(r) or ir["gorder"] != list(r):
                return {"what": f"{tag}: orders decoded audit={ir['aorder']} generator={ir['gorder']}"}
        return None
    # ---- RAIRE file
    if not case["wellformed"]:
        return None
    if ir.get("st") != "ok":
        return {"what": f"processing a well-formed RAIRE file raised {ir.get('err')}: {ir.get('msg')}"}
    a, g = ir["audit"], ir["gen"]
    if a["st"] != "ok" or g["st"] != "ok":
        return {"what": f"a reader raised on a well-formed RAIRE file: audit={a.get('err', 'ok')} generator={g.get('err', 'ok')}"}
    # re-application of returned assertions (generator side only: holds for every file)
    for cid, lst in ir["returned"]:
        for x in lst:
            if x is None or "raised" in x:
                continue
            if x["vW"] != x["rW"] or x["vL"] != x["rL"]:
                return {"what": f"contest {cid}: returned {x['t']} assertion winner={x['w']} loser={x['l']} eliminated={x['E']} "
                                f"reports tallies {x['vW']}/{x['vL']} but re-applied to the cvrs gives {x['rW']}/{x['rL']}"}
    if ir.get("returned_int") is not None and ir["returned_int"] != ir["returned"]:
        for (cid, a), (_, b) in zip(ir["returned"], ir["returned_int"]):
            if a != b:
                bad = next((y for y in b if y and "raised" not in y and (y["vW"] != y["rW"] or y["vL"] != y["rL"])), None)
                return {"what": f"contest {cid}: with the contest identifier handed over as the int {int(cid)} instead of the "
                                f"str {cid!r} the generator returns {b} instead of {a}"
                                + (f"; {bad['t']} {bad['w']} v {bad['l']} reports {bad['vW']}/{bad['vL']} but re-applies as "
                                   f"{bad['rW']}/{bad['rL']}" if bad else "")}
    # same preference order from both readers, per (ballot, contest).  A line may also rank identifiers that the
    # contest line does not declare (write-ins): CVR.from_raire_file keeps them, load_contests_from_raire drops them
    # (keeping the declared candidates at their positions on the line), so the orders are compared on the declared
    # candidates; no assertion can name an undeclared identifier.
    declared = {cid: set(cands) for cid, cands, _w in case["contests"]}
    ao = {bid: dict((cid, [c for c in o if c in declared.get(cid, ())] if case["unlisted"] else o) for cid, o in lst)
          for bid, lst in a["orders"]}
    go = {bid: dict((cid, o) for cid, o in lst) for bid, lst in g["orders"]}
    if ao != go:
        for bid in list(ao) + list(go):
            if ao.get(bid) != go.get(bid):
                return {"what": f"ballot {bid}: audit reader gives {ao.get(bid)}, generator reader gives {go.get(bid)}"}
    if [b for b, _ in a["orders"]] != [b for b, _ in g["orders"]]:
        return {"what": "the two readers list the ballots in different orders"}
    # every assertion through both readers: assorter total = (W - L + n)/2, mean > 1/2 iff W > L
    index = {}
    for (cid, rows), (_, cands, _w) in zip(ir["tables"], case["contests"]):
        for spec, x in zip(specs_for(cands), rows):
            index[(cid, spec[0], spec[1], spec[2], frozenset(spec[3]))] = x
            if 2 * Fraction(x["sum"]) - x["n"] != x["W"] - x["L"]:
                return {"what": f"contest {cid} assertion {spec}: audit assorter total {x['sum']} over {x['n']} cvrs, "
                                f"generator tallies winner={x['W']} loser={x['L']}: 2*total - n != W - L"}
            if x["n"] > 0 and (x["mean"] > 0.5 + 1e-9) != (x["W"] > x["L"]):
                return {"what": f"contest {cid} assertion {spec}: assorter mean {x['mean']} vs tallies {x['W']}/{x['L']}"}
    for cid, lst in ir["returned"]:
        for x in lst:
            if x is None or "raised" in x:
                continue
            t = index.get((cid, x["t"], x["w"], x["l"], frozenset(x["E"])))
            if t is not None and 2 * Fraction(t["sum"]) - t["n"] != x["vW"] - x["vL"]:
                return {"what": f"contest {cid}: returned {x['t']} assertion {x['w']} v {x['l']} elim {x['E']} reports "
                                f"{x['vW']}/{x['vL']}; the audit's assorter on the same file totals {t['sum']} over {t['n']}"}
    return None


ORACLES = {"C14": oracle_c14}
