"""
Correspondence group `assorter` (property C02): the real objects
    Contest.from_dict_of_dicts + Assertion.make_all_assertions / make_plurality_assertions /
    make_supermajority_assertion / make_assertions_from_json, CVR.from_dict, Assorter.assort / mean / sum,
    Assertion.margin, Contest.tally, Assertion.find_margin_from_tally, CVR.has_contest / has_one_vote
vs. the literal models Shangrla.Vote.* and Shangrla.Assorter.* executed by the Lean driver.

A case is one of
  {"op": "contest", "scf", "contest", "candidates", "winners", "n_winners", "share", "cvrs"}
      optionally with "rounds": [{"cvrs": state, "order": [...], "ops": [...]}, ...] and "order": an operation sequence
      on ONE set of assertions and ONE list object: the list starts as rounds[0]["cvrs"]; in every round everything is
      evaluated (the six mean/sum/margin calls in the given order), then the round's ops amend ballots inside the
      same list object keeping its length ({"kind": "update", "i", "votes"} = CVR.update_votes on element i,
      {"kind": "replace", "i", "card"} = element i replaced by a new CVR); "cvrs" is the list after the last round,
      on which everything is evaluated once more and compared with the (stateless) model; the oracle checks every round.
      optionally with "shared": [{"contest", "share", "cvrs"}, ...] and "main_at": k (implies "direct"): several contests
      (measures) with the same candidates and winners whose assertions are built by DIRECT calls of
      make_supermajority_assertion / make_plurality_assertions that are all handed the SAME winner / loser list
      objects (a loop over measures); the case's own contest is constructed after shared[:k]; once all are constructed
      everything is evaluated for every one of them (the model is asked about the case's own contest, the oracle
      checks all of them: a construction must not depend on, or disturb, what was built from the same lists).
      optionally with "phantoms": {"use_style": bool, "n": k}: the workflow CVR.make_phantoms -> Contest.tally ->
      find_margin_from_tally.  The last k cards of "cvrs" are the phantom records make_phantoms has to create from the
      first len-k (real) ones: the contest's card bound (with style information; every real card lists the contest) or
      the stratum's (without; make_phantoms then sets contest.cards itself) is len(cvrs).  Everything is evaluated on
      the list make_phantoms RETURNS, with the Contest object it has annotated (`cvrs`, `cards`).
  {"op": "irv",     "contest", "candidates", "assertions", "cvrs"}
  {"op": "margin",  "scf", "winner", "loser", "candidates", "share", "cards", "tally"}
A cvr is {"id": str, "votes": [[contest, [[candidate, value], ...]], ...]}: dicts are written as lists of pairs so
that their insertion order is part of the case; a value is True/False, an int or a str.
"""
import itertools, math
from collections import defaultdict
from fractions import Fraction

from ..core import fr, num_close, err_kind

NAME = "assorter"
RULE = ("random plurality (k winners), approval and super-majority contests with 2-6 candidates and 0-40 cards built "
        "with Contest.from_dict_of_dicts / Assertion.make_all_assertions (or, 3 in 10, the direct constructor call "
        "without share_to_win) / CVR.from_dict; marks encoded at random as "
        "True, 1, 5, 'marked', '0', -1 (truthy) or 0, '', False, absent (falsy); blank cards, cards lacking the contest, "
        "overvotes, marks for names outside the candidate list; ties / exact-threshold profiles forced with probability "
        "1/4; IRV assorters from make_assertions_from_json on ranked cards; direct find_margin_from_tally calls incl. "
        "the NotImplementedError / ZeroDivisionError branches; operation sequences on one set of assertions and one "
        "list object (evaluate all means/sums/margins in a random order, amend 1..all ballots in place with "
        "CVR.update_votes or by replacing elements, keeping the length, evaluate again; 1-3 rounds, votes moved "
        "towards the losers, the winners or at random) with every round checked by the oracle; the phantom workflow "
        "(card bound above the number of CVRs, with and without style information: CVR.make_phantoms creates the "
        "missing records and annotates the Contest object, everything is evaluated on the list it returns); corpus = exhaustive single-card tables over all mark "
        "patterns (8 encodings per candidate) of 2, 3 and 4 candidates.  non-trivial = at least one assertion and at "
        "least two cards of which one carries a truthy mark; distinct = distinct canonical input")
EXHAUSTIVE = {"quick": False, "thorough": False}
RULE += "; option stream (n/10 more cases, own generator, OPTIONS_AUDIT.md): use_style / enforce_rules left out where True, Contest.tally on a dict that also holds a sibling plurality contest (marked on many cards) and / or an IRV contest, find_margin_from_tally with the tally as its argument and a stale contest.tally"

TOL = 1e-9
TRUTHY = [True, 1, 5, "marked", "0", -1, True, 1]
FALSY = [0, "", False]
ENCODINGS = [None, True, 1, 5, "marked", 0, "", False]      # None = candidate absent from the card
F19 = "F19:tally-enforce-rules-overvote"
PLUR, APPR, SUPER, IRV = "PLURALITY", "APPROVAL", "SUPERMAJORITY", "IRV"


# ------------------------------------------------------------------------------------------------
# cases

def card(i, contest, marks, extra=None):
    """marks: list of [cand, value] pairs or None (card lacks the contest)"""
    votes = []
    if extra:
        votes += extra
    if marks is not None:
        votes.append([contest, [list(p) for p in marks]])
    return {"id": str(i), "votes": votes}


def table(cands, encodings=ENCODINGS):
    """every single-card mark pattern over `cands`"""
    out = []
    for i, pat in enumerate(itertools.product(encodings, repeat=len(cands))):
        out.append(card(i, "T", [[c, v] for c, v in zip(cands, pat) if v is not None]))
    out.append(card(len(out), "T", None))
    return out


FIELDS = ("mean_style", "mean_nostyle", "sum_style", "sum_nostyle", "margin_style", "margin_nostyle")


def upd_votes(votes, upd):
    """what CVR.update_votes(upd) leaves in a card's votes, on the pair-list representation: a contest the card has is
    dict.update-d (existing key keeps its position, new key is appended), a contest it lacks is added at the end"""
    votes = [[k, [list(p) for p in m]] for k, m in votes]
    for k, m in upd:
        for e in votes:
            if e[0] == k:
                for cand, v in m:
                    for p in e[1]:
                        if p[0] == cand:
                            p[1] = v
                            break
                    else:
                        e[1].append([cand, v])
                break
        else:
            votes.append([k, [list(p) for p in m]])
    return votes


def apply_ops(state, ops):
    """the list of cards after the amendments `ops` (the generator's own bookkeeping; `impl` reports what the real
    objects hold and `compare` checks the two agree)"""
    new = [{"id": c["id"], "votes": [[k, [list(p) for p in m]] for k, m in c["votes"]]} for c in state]
    for o in ops:
        if o["kind"] == "update":
            new[o["i"]] = {"id": new[o["i"]]["id"], "votes": upd_votes(new[o["i"]]["votes"], o["votes"])}
        else:
            new[o["i"]] = {"id": o["card"]["id"], "votes": [[k, [list(p) for p in m]] for k, m in o["card"]["votes"]]}
    return new


F19_WITNESS = {"op": "contest", "scf": PLUR, "contest": "AvB", "candidates": ["a", "b", "c"], "winners": ["a"],
               "n_winners": 1, "share": 0.5,
               "cvrs": [card(1, "AvB", [["a", True]]), card(2, "AvB", [["a", True], ["c", True]]),
                        card(3, "AvB", [["b", True]])]}


# finding F30 (repaired): candidates a, a v b, b v c, c with reported winners a, a v b -- the pairs (a, b v c) and
# (a v b, c) are both named "a v b v c".  On these cards the reported winner a (1 mark) lost to b v c (2 marks); the
# unrepaired constructor built 3 assertions for the 4 pairs, all with mean > 1/2; the repaired one raises ValueError
F30_WITNESS = {"op": "contest", "scf": PLUR, "contest": "K", "candidates": ["a", "a v b", "b v c", "c"],
               "winners": ["a", "a v b"], "n_winners": 2, "share": 0.5,
               "cvrs": [card(1, "K", [["a v b", True]]), card(2, "K", [["a v b", True]]), card(3, "K", [["a v b", True]]),
                        card(4, "K", [["b v c", True]]), card(5, "K", [["b v c", True]]), card(6, "K", [["a", True]])]}


def corpus():
    out = [F19_WITNESS, F30_WITNESS, {**F30_WITNESS, "direct": True}]
    # the witness of the (repaired) super-majority margin formula: blank card, winner has valid votes
    out.append({"op": "contest", "scf": SUPER, "contest": "S", "candidates": ["a", "b"], "winners": ["a"],
                "n_winners": 1, "share": 0.5,
                "cvrs": [card(1, "S", [["a", True]]), card(2, "S", [["a", True]]), card(3, "S", [["b", True]]),
                         card(4, "S", [])]})
    # card lacking the contest under a super-majority assorter (F11, repaired)
    out.append({"op": "contest", "scf": SUPER, "contest": "S", "candidates": ["a", "b", "c"], "winners": ["b"],
                "n_winners": 1, "share": 0.625,
                "cvrs": [card(1, "S", None), card(2, "S", [["b", "marked"]]), card(3, "S", [["b", 1], ["c", 5]]),
                         card(4, "S", [["a", 0], ["b", ""]], extra=[["other", [["x", True]]]])]})
    # exact threshold: f = 1/2, 2 of 4 valid votes
    out.append({"op": "contest", "scf": SUPER, "contest": "S", "candidates": ["a", "b"], "winners": ["a"],
                "n_winners": 1, "share": 0.5,
                "cvrs": [card(1, "S", [["a", 1]]), card(2, "S", [["a", 5]]), card(3, "S", [["b", True]]),
                         card(4, "S", [["b", "marked"]])]})
    # tie in a 2-winner plurality contest
    out.append({"op": "contest", "scf": PLUR, "contest": "P", "candidates": ["a", "b", "c"], "winners": ["a", "b"],
                "n_winners": 2, "share": 0.5,
                "cvrs": [card(1, "P", [["a", True], ["b", True]]), card(2, "P", [["c", True], ["a", 1]]),
                         card(3, "P", [["c", "marked"]])]})
    # approval with more approvals than winners (tally(enforce_rules=True) skips the card: F19 class)
    out.append({"op": "contest", "scf": APPR, "contest": "A", "candidates": ["a", "b", "c"], "winners": ["a"],
                "n_winners": 1, "share": 0.5,
                "cvrs": [card(1, "A", [["a", True], ["b", True]]), card(2, "A", [["a", True]]),
                         card(3, "A", [["c", True]])]})
    # no cards at all, no card with the contest
    out.append({"op": "contest", "scf": PLUR, "contest": "P", "candidates": ["a", "b"], "winners": ["a"],
                "n_winners": 1, "share": 0.5, "cvrs": []})
    out.append({"op": "contest", "scf": PLUR, "contest": "P", "candidates": ["a", "b"], "winners": ["a"],
                "n_winners": 1, "share": 0.5, "cvrs": [card(1, "P", None), card(2, "P", None)]})
    # an operation sequence: evaluate, amend ballots inside the same list (same length), evaluate again
    st0 = [card(0, "P", [["a", True]]), card(1, "P", [["a", 1]]), card(2, "P", [["b", True]]), card(3, "P", [])]
    ops = [{"kind": "update", "i": 0, "votes": [["P", [["a", False], ["b", True]]]]},
           {"kind": "replace", "i": 3, "card": card(3, "P", [["b", "marked"]])}]
    st1 = apply_ops(st0, ops)
    for order in (list(FIELDS), list(reversed(FIELDS))):
        out.append({"op": "contest", "scf": PLUR, "contest": "P", "candidates": ["a", "b"], "winners": ["a"],
                    "n_winners": 1, "share": 0.5, "cvrs": st1, "order": order,
                    "rounds": [{"cvrs": st0, "order": order, "ops": ops}]})
    # the phantom workflow: 5 CVRs, card bound 8 (2-winner plurality); 4 CVRs, bound 6 (super-majority); and a stratum
    # bound of 6 without style information, one of 4 CVRs lacking the contest
    out.append({"op": "contest", "scf": PLUR, "contest": "council", "candidates": ["Ann", "Bo", "Cy", "Di"],
                "winners": ["Ann", "Bo"], "n_winners": 2, "share": 0.5, "phantoms": {"use_style": True, "n": 3},
                "cvrs": [card(0, "council", [["Ann", 1], ["Bo", 1]]), card(1, "council", [["Ann", 1], ["Cy", 1]]),
                         card(2, "council", [["Bo", 1]]), card(3, "council", [["Ann", 1], ["Bo", 1]]),
                         card(4, "council", [["Di", 1]])]
                        + [{"id": f"phantom-{j}", "votes": [["council", []]]} for j in (1, 2, 3)]})
    out.append({"op": "contest", "scf": SUPER, "contest": "measure", "candidates": ["yes", "no"], "winners": ["yes"],
                "n_winners": 1, "share": 0.6, "phantoms": {"use_style": True, "n": 2},
                "cvrs": [card(0, "measure", [["yes", 1]]), card(1, "measure", [["yes", 1]]),
                         card(2, "measure", [["yes", 1]]), card(3, "measure", [["no", 1]])]
                        + [{"id": f"phantom-{j}", "votes": [["measure", []]]} for j in (1, 2)]})
    out.append({"op": "contest", "scf": PLUR, "contest": "AvB", "candidates": ["a", "b"], "winners": ["a"],
                "n_winners": 1, "share": 0.5, "phantoms": {"use_style": False, "n": 2},
                "cvrs": [card(0, "AvB", [["a", True]]), card(1, "AvB", [["a", True]]), card(2, "AvB", [["b", True]]),
                         card(3, "AvB", None, extra=[["other", [["x", True]]]])]
                        + [{"id": f"phantom-{j}", "votes": []} for j in (1, 2)]})
    # exhaustive single-card tables
    for nc in (2, 3, 4):
        cands = ["a", "b", "c", "d"][:nc]
        tb = table(cands)
        out.append({"op": "contest", "scf": PLUR, "contest": "T", "candidates": cands, "winners": ["a"],
                    "n_winners": 1, "share": 0.5, "cvrs": tb})
        out.append({"op": "contest", "scf": SUPER, "contest": "T", "candidates": cands, "winners": ["b"],
                    "n_winners": 1, "share": 0.625, "cvrs": tb})
        if nc > 2:
            out.append({"op": "contest", "scf": PLUR, "contest": "T", "candidates": cands, "winners": ["b", "a"],
                        "n_winners": 2, "share": 0.5, "cvrs": tb})
            out.append({"op": "contest", "scf": APPR, "contest": "T", "candidates": cands, "winners": ["c"],
                        "n_winners": 1, "share": 0.5, "cvrs": tb})
    # IRV: every rank pattern over {absent, 0, 1, 2, 3} of 3 candidates, and a mixed-type card
    rk = [None, 0, 1, 2, 3]
    cands = ["a", "b", "c"]
    tb = table(cands, rk)
    tb.append(card(len(tb), "T", [["a", "1"], ["b", 2]]))
    tb.append(card(len(tb), "T", [["a", True], ["b", 2], ["c", "3"]]))
    out.append({"op": "irv", "contest": "T", "candidates": cands, "cvrs": tb, "assertions": [
        {"winner": "a", "loser": "b", "assertion_type": "WINNER_ONLY", "already_eliminated": []},
        {"winner": "c", "loser": "a", "assertion_type": "WINNER_ONLY", "already_eliminated": []},
        {"winner": "a", "loser": "b", "assertion_type": "IRV_ELIMINATION", "already_eliminated": []},
        {"winner": "a", "loser": "b", "assertion_type": "IRV_ELIMINATION", "already_eliminated": ["c"]},
        {"winner": "b", "loser": "c", "assertion_type": "IRV_ELIMINATION", "already_eliminated": ["c"]}]})
    # find_margin_from_tally: error branches
    out.append({"op": "margin", "scf": SUPER, "winner": "NO_CANDIDATE", "loser": "ALL_OTHERS", "candidates": ["a", "b"],
                "share": 0.5, "cards": 10, "tally": [["a", 3], ["b", 2]]})
    out.append({"op": "margin", "scf": SUPER, "winner": "a", "loser": "b", "candidates": ["a", "b"],
                "share": 0.5, "cards": 10, "tally": [["a", 3], ["b", 2]]})
    out.append({"op": "margin", "scf": IRV, "winner": "a", "loser": "b", "candidates": ["a", "b"],
                "share": 0.5, "cards": 10, "tally": [["a", 3], ["b", 2]]})
    out.append({"op": "margin", "scf": PLUR, "winner": "a", "loser": "b", "candidates": ["a", "b"],
                "share": 0.5, "cards": 0, "tally": [["a", 3], ["b", 2]]})
    out.append({"op": "margin", "scf": SUPER, "winner": "a", "loser": "ALL_OTHERS", "candidates": ["a", "b"],
                "share": 0.5, "cards": 0, "tally": [["a", 3], ["b", 2]]})
    out.append({"op": "margin", "scf": SUPER, "winner": "a", "loser": "ALL_OTHERS", "candidates": ["a", "b"],
                "share": 0.75, "cards": 0, "tally": [["a", 3], ["b", 1]]})
    out.append({"op": "margin", "scf": PLUR, "winner": "a", "loser": "z", "candidates": ["a", "b"],
                "share": 0.5, "cards": 7, "tally": [["a", 3], ["b", 2]]})
    return out


NAMES = [["a", "b", "c", "d", "e", "f"], ["Alice", "Bob", "Carol", "Dave", "Erin", "Frank"],
         ["1", "2", "3", "4", "5", "6"], ["yes", "no", "x y", "ALL", "WRITE_IN", "q"],
         # names containing the separator of the assertion names `winner + " v " + loser`: the pairs (a, b v c) and
         # (a v b, c) are both named "a v b v c" (finding F30: the constructor must not drop one of them silently)
         ["a", "a v b", "b v c", "c", "b", "a v a"],
         # identifiers that are falsy, numeric-looking, differ only in case / surrounding blanks, or are substrings of
         # one another (round 9: `x or default`, `in` on a string, strip / casefold "normalisations")
         ["0", "", "a", "A", " a", "aa"], ["1", "01", "1.0", "10", "1 ", "True"]]


def _name_clash(case):
    """do two DIFFERENT (winner, loser) pairs of the plurality / approval contest get the same assertion name?"""
    losers = [c for c in dict.fromkeys(case["candidates"]) if c not in case["winners"]]
    seen = {}
    for w in case["winners"]:
        for l in losers:
            k = w + " v " + l
            if seen.setdefault(k, (w, l)) != (w, l):
                return True
    return False
SHARES_DYADIC = [0.5, 0.25, 0.75, 0.375, 0.625]
SHARES = SHARES_DYADIC + [0.55, 0.6, 2 / 3, 1 / 3, 0.9, 0.1, 0.51]


def enc(rng, mark):
    return rng.choice(TRUTHY) if mark else rng.choice(FALSY)


def make_marks(rng, cands, chosen, p_explicit_falsy=0.3, extra_keys=()):
    """a vote dict marking exactly `chosen` (truthy); other candidates absent or explicitly falsy"""
    m = []
    for c in cands:
        if c in chosen:
            m.append([c, enc(rng, True)])
        elif rng.chance(p_explicit_falsy):
            m.append([c, enc(rng, False)])
    for k in extra_keys:
        if k not in cands:                      # a vote dict has distinct keys
            m.append([k, enc(rng, rng.chance(0.7))])
    rng.shuffle(m)
    return m


def gen_contest(rng, tier, like=None):
    """`like`: an earlier case whose candidates, social choice function and winners are kept (another measure)"""
    names = rng.choice(NAMES)
    nc = rng.choice([2, 2, 3, 3, 3, 4, 4, 5, 6])
    cands = list(names[:nc])
    if rng.chance(0.03) and "" not in cands:
        cands[rng.randrange(nc)] = ""            # a falsy candidate name (Contest.tally skips such keys)
    rng.shuffle(cands)
    scf = rng.choice([PLUR, PLUR, PLUR, APPR, SUPER, SUPER])
    contest = rng.choice(["AvB", "c1", "Measure 1"])
    if like is not None:
        cands, nc, scf = list(like["candidates"]), len(like["candidates"]), like["scf"]
        winners, k, n_winners = list(like["winners"]), len(like["winners"]), like["n_winners"]
    elif scf == SUPER:
        winners = [rng.choice(cands)]
        if rng.chance(0.02):
            winners = ["NO_CANDIDATE"]          # not a candidate: the NotImplementedError branch of the margin
        k = 1
        n_winners = 1 if rng.chance(0.9) else 2
    else:
        k = rng.choice([1, 1, 1, 2, 2, 3]) if nc > 2 else 1
        k = min(k, nc - 1) if rng.chance(0.95) else nc
        winners = rng.sample(cands, k)
        n_winners = k if rng.chance(0.8) else rng.randint(1, nc)
    forced = rng.chance(0.25)
    share = rng.choice(SHARES_DYADIC if forced else SHARES)
    n = rng.choice([0, 1, 2, 3, 5, 8, 12, 20, 30, 40]) if not rng.chance(0.5) else rng.randint(2, 16)
    # candidate popularity
    wts = [rng.choice([1, 1, 2, 3, 5]) for _ in cands]
    p_over = rng.choice([0.0, 0.0, 0.1, 0.3])
    p_blank = rng.choice([0.0, 0.1, 0.3])
    p_nocon = rng.choice([0.0, 0.0, 0.15, 0.4])
    p_outside = rng.choice([0.0, 0.0, 0.0, 0.1, 0.3])
    cvrs = []

    def one_card(i, chosen, extra_keys=()):
        extra = [["other", [["x", True]]]] if rng.chance(0.2) else None
        return card(i, contest, make_marks(rng, cands, chosen, extra_keys=extra_keys), extra=extra)

    for i in range(n):
        u = rng.random()
        if u < p_nocon:
            cvrs.append(card(i, contest, None, extra=[["other", [[cands[0], True]]]] if rng.chance(0.5) else None))
            continue
        if u < p_nocon + p_blank:
            cvrs.append(card(i, contest, [] if rng.chance(0.5) else make_marks(rng, cands, [], 0.7)))
            continue
        nm = 1 if scf == SUPER else (rng.randint(1, max(1, n_winners)) if scf == PLUR else rng.randint(1, nc))
        if rng.chance(p_over):
            nm = min(nc, nm + rng.randint(1, 2))
        chosen = set()
        while len(chosen) < min(nm, len(set(cands))):
            chosen.add(rng.choices(cands, wts)[0])
        ek = []
        if rng.chance(p_outside):
            ek = [rng.choice(["zz", "", "write-in"])]
        cvrs.append(one_card(i, chosen, ek))
    # ties and exact thresholds
    if forced and n > 0:
        if scf == SUPER and winners[0] in cands:
            w = winners[0]
            f = Fraction(share)
            m = rng.randint(1, 3)
            others = [c for c in cands if c != w] or [w]
            cvrs = [c for c in cvrs if _valid_for(c, contest, cands) is None]     # keep only invalid cards
            nw, nv = f.numerator * m, f.denominator * m
            delta = rng.choice([0, 0, 0, 1, -1])
            nw = max(0, nw + delta)
            i0 = 1000
            for j in range(nw):
                cvrs.append(one_card(i0 + j, {w}))
            for j in range(max(0, nv - nw)):
                cvrs.append(one_card(i0 + nw + j, {rng.choice(others)}))
            rng.shuffle(cvrs)
        elif scf != SUPER:
            losers = [c for c in cands if c not in winners]
            if losers and winners:
                w, l = rng.choice(winners), rng.choice(losers)
                mw, ml = _marks(cvrs, contest, w), _marks(cvrs, contest, l)
                delta = rng.choice([0, 0, 0, 1])
                i0 = 1000
                while mw > ml + delta:
                    cvrs.append(one_card(i0, {l})); ml += 1; i0 += 1
                while ml + delta > mw:
                    cvrs.append(one_card(i0, {w})); mw += 1; i0 += 1
                rng.shuffle(cvrs)
    for i, c in enumerate(cvrs):
        c["id"] = str(i)
    out = {"op": "contest", "scf": scf, "contest": contest, "candidates": cands, "winners": winners,
           "n_winners": n_winners, "share": share, "cvrs": cvrs}
    if scf != APPR and rng.chance(0.3):
        out["direct"] = True        # make_plurality_assertions / make_supermajority_assertion called directly
    if scf == SUPER and rng.chance(0.25):
        out["share_type"] = "fraction"
    if rng.chance(0.12):
        out["votes_type"] = rng.choice(["defaultdict", "defaultdict", "ordered"])
    if rng.chance(0.12):
        out["np_marks"] = True      # marks held as numpy scalars (np.int64(5), np.bool_(True))
    from ..core import CONTAINER_KINDS
    out["container"] = rng.choice(CONTAINER_KINDS)
    return out


def gen_sequence(rng, tier):
    """an operation sequence on one list object: rounds of (evaluate everything, amend ballots in place)"""
    for _ in range(20):
        base = gen_contest(rng, tier)
        if len(base["cvrs"]) >= 2:
            break
    else:
        return base
    contest, cands, winners = base["contest"], base["candidates"], base["winners"]
    losers = [c for c in cands if c not in winners] or list(cands)
    wins = [w for w in winners if w in cands] or list(cands)
    state = base["cvrs"]
    n = len(state)
    rounds = []
    for _ in range(rng.choice([1, 1, 2, 2, 3])):
        direction = rng.choice(["lose", "lose", "win", "random"])
        k = min(n, max(1, rng.choice([1, 2, 3, n // 2, n // 2, n, n])))
        ops = []
        cur = state
        for idx in sorted(rng.sample(range(n), k)):
            if direction == "random":
                chosen = set(rng.sample(cands, rng.choice([0, 1, 1, 1, 2]) if len(cands) > 1 else 1))
            else:
                chosen = {rng.choice(losers if direction == "lose" else wins)}
            if rng.chance(0.7):
                d = _dict_of(cur[idx], contest)
                if d is None:
                    m = make_marks(rng, cands, chosen)          # update_votes adds the contest to the card
                else:
                    m = [[c, enc(rng, False)] for c, v in d.items() if bool(v) and c not in chosen]
                    m += [[c, enc(rng, True)] for c in chosen]
                    rng.shuffle(m)
                upd = [[contest, m]]
                if rng.chance(0.15):
                    upd.insert(rng.randint(0, 1), ["other", [["x", enc(rng, rng.chance(0.5))]]])
                o = {"kind": "update", "i": idx, "votes": upd}
            else:
                marks = None if rng.chance(0.1) else make_marks(rng, cands, chosen)
                o = {"kind": "replace", "i": idx, "card": card(cur[idx]["id"], contest, marks)}
            ops.append(o)
            cur = apply_ops(cur, [o])
        order = list(FIELDS)
        rng.shuffle(order)
        rounds.append({"cvrs": state, "order": order, "ops": ops})
        state = cur
    order = list(FIELDS)
    rng.shuffle(order)
    return {**base, "cvrs": state, "order": order, "rounds": rounds}


def gen_shared(rng, tier):
    """2-4 contests (measures) with the same candidates and winners but their own names, shares and ballots, whose
    assertions are built by direct constructor calls that are all handed the same winner / loser list objects"""
    for _ in range(20):
        base = gen_contest(rng, tier)
        if base["winners"] and all(w in base["candidates"] for w in base["winners"]):
            break
    else:
        return base
    others = []
    for k in range(rng.choice([1, 1, 2, 3])):
        o = gen_contest(rng, tier, like=base)
        others.append({"contest": f"{o['contest']} #{k + 2}", "share": o["share"],
                       "cvrs": [{"id": c["id"], "votes": [[(o["contest"] + f" #{k + 2}") if kk == o["contest"] else kk, m]
                                                          for kk, m in c["votes"]]} for c in o["cvrs"]]})
    base.pop("direct", None)
    return {**base, "direct": True, "shared": others, "main_at": rng.randint(0, len(others))}


def gen_phantoms(rng, tier):
    """the card bound exceeds the number of CVRs: CVR.make_phantoms makes up the difference (and records the number of
    real CVRs listing the contest on the Contest object) before anything is tallied"""
    base = gen_contest(rng, tier)
    contest = base["contest"]
    use_style = rng.chance(0.6)
    cvrs = base["cvrs"]
    if use_style:
        # per-contest phantoms: bound = cards listing the contest; keep len(list) = bound (every real card lists it)
        cvrs = [c for c in cvrs if _dict_of(c, contest) is not None]
        k = rng.choice([1, 1, 2, 3, 5, 8])
    else:
        k = rng.choice([0, 1, 1, 2, 4, 7])
    for i, c in enumerate(cvrs):
        c["id"] = str(i)
    cvrs = cvrs + [{"id": f"phantom-{j + 1}", "votes": [[contest, []]] if use_style else []} for j in range(k)]
    return {**base, "cvrs": cvrs, "phantoms": {"use_style": use_style, "n": k}}


def gen_irv(rng, tier):
    names = rng.choice(NAMES[:2])
    nc = rng.choice([2, 3, 3, 4, 4, 5])
    cands = list(names[:nc])
    contest = "irv"
    n = rng.randint(1, 25)
    style = rng.choice(["int", "int", "int", "mixed-num", "str", "mixed"])
    cvrs = []
    for i in range(n):
        if rng.chance(0.1):
            cvrs.append(card(i, contest, None)); continue
        order = rng.sample(cands, rng.randint(0, nc))
        m = []
        for r, c in enumerate(order, 1):
            if rng.chance(0.1):
                r = rng.randint(1, nc)              # duplicate / skipped ranks
            if style == "int":
                v = r
            elif style == "mixed-num":
                v = True if (r == 1 and rng.chance(0.5)) else r
            elif style == "str":
                v = str(r)
            else:
                v = rng.choice([r, r, str(r), True if r == 1 else r])
            m.append([c, v])
        for c in cands:
            if c not in order and rng.chance(0.3):
                m.append([c, rng.choice(FALSY)])
        if rng.chance(0.1):
            m.append(["zz", 1])
        rng.shuffle(m)
        cvrs.append(card(i, contest, m))
    asns = []
    for _ in range(rng.randint(1, 5)):
        w, l = rng.sample(cands, 2)
        if rng.chance(0.4):
            asns.append({"winner": w, "loser": l, "assertion_type": "WINNER_ONLY", "already_eliminated": []})
        else:
            pool = [c for c in cands if c not in (w, l)] if rng.chance(0.85) else list(cands)
            elim = rng.sample(pool, rng.randint(0, len(pool)))
            asns.append({"winner": w, "loser": l, "assertion_type": "IRV_ELIMINATION", "already_eliminated": elim})
    return {"op": "irv", "contest": contest, "candidates": cands, "assertions": asns, "cvrs": cvrs}


def gen_margin(rng, tier):
    cands = list(rng.choice(NAMES)[: rng.randint(2, 5)])
    scf = rng.choice([PLUR, APPR, SUPER, SUPER, IRV])
    w = rng.choice(cands + ["NO_CANDIDATE"]) if rng.chance(0.9) else "zz"
    l = "ALL_OTHERS" if (scf == SUPER and rng.chance(0.85)) else rng.choice(cands + ["zz"])
    tally = [[c, rng.randint(0, 30)] for c in cands if rng.chance(0.85)]
    if rng.chance(0.2):
        tally.append(["zz", rng.randint(0, 5)])
    rng.shuffle(tally)
    cards = rng.choice([0, 1, 10, 50, 100]) if rng.chance(0.3) else rng.randint(1, 200)
    return {"op": "margin", "scf": scf, "winner": w, "loser": l, "candidates": cands, "share": rng.choice(SHARES),
            "cards": cards, "tally": tally}


def gen_options(rng, tier):
    """call forms the main stream never uses (OPTIONS_AUDIT.md):
      * `call: defaults` -- Assorter.mean / sum, Assertion.margin without `use_style` where it is True, Contest.tally without
        `enforce_rules` where it is True (both the documented defaults), keyword form otherwise;
      * `tally_siblings` -- Contest.tally on a dict that holds more contests than the case's own (a plurality contest
        "other" in which many cards carry a mark, an IRV contest that is skipped), before or after it;
      * `tally_arg` -- find_margin_from_tally with the tally as its documented ARGUMENT while the Contest object holds
        another one."""
    u = rng.random()
    if u < 0.25:
        c = gen_margin(rng, tier)
        c["tally_arg"] = rng.choice(["kw", "pos"])
        return c
    c = gen_sequence(rng, tier) if rng.chance(0.25) else gen_contest(rng, tier)
    if rng.chance(0.6):
        c["call"] = "defaults"
    if "call" not in c or rng.chance(0.6):
        ids = rng.choice([["other"], ["other"], ["other", "ranked"], ["ranked"]])
        c["tally_siblings"] = {"ids": ids, "first": rng.chance(0.5)}
        if "other" in ids and not c.get("rounds"):
            # more cards with a mark in the sibling contest (a card listing both contests is where two tallies could mix)
            for cv in c["cvrs"]:
                if all(k != "other" for k, _ in cv["votes"]) and rng.chance(0.6):
                    first = rng.choice(["x", "y"])
                    cv["votes"].append(["other", [[first, rng.choice([True, 1, "marked"])]]
                                        + ([["y" if first == "x" else "x", True]] if rng.chance(0.15) else [])])
    return c


def gen(rng, n, tier):
    import hashlib
    from ..core import Rng
    opt = Rng(int(hashlib.sha1(("options" + repr(rng.getstate())).encode()).hexdigest()[:15], 16))
    yield from gen_main(rng, n, tier)
    for _ in range(max(8, n // 10)):
        yield gen_options(opt, tier)


def gen_main(rng, n, tier):
    for i in range(n):
        u = rng.random()
        if u < 0.50:
            yield gen_contest(rng, tier)
        elif u < 0.58:
            yield gen_phantoms(rng, tier)
        elif u < 0.74:
            yield gen_sequence(rng, tier)
        elif u < 0.82:
            yield gen_shared(rng, tier)
        elif u < 0.93:
            yield gen_irv(rng, tier)
        else:
            yield gen_margin(rng, tier)


# ------------------------------------------------------------------------------------------------
# independent reading of a case (used by the generator for forcing ties and by the oracle; never by `impl`)

def _dict_of(cvr, contest):
    for k, m in cvr["votes"]:
        if k == contest:
            return {c: v for c, v in m}
    return None


def _mark(cvr, contest, cand):
    d = _dict_of(cvr, contest)
    return bool(d is not None and cand in d and bool(d[cand]))


def _marks(cvrs, contest, cand):
    return sum(1 for c in cvrs if _mark(c, contest, cand))


def _valid_for(cvr, contest, cands):
    """the single marked candidate if exactly one of `cands` is marked, else None"""
    ms = [c for c in set(cands) if _mark(cvr, contest, c)]
    return ms[0] if len(ms) == 1 else None


# ------------------------------------------------------------------------------------------------
# implementation side

def _num(x):
    return float(x)


def _contest_dict(case, cards):
    from shangrla.core.Audit import Audit
    from shangrla.core.NonnegMean import NonnegMean
    return {"name": case["contest"], "risk_limit": 0.05, "cards": cards, "choice_function": case["scf"],
            "n_winners": case.get("n_winners", 1),
            # `share_type: fraction` (round 9): the same number as an exact fractions.Fraction (the value of the double,
            # so that model and oracle are unchanged): arithmetic that mixes it with floats must not round past a bound
            "share_to_win": (Fraction(float(case["share"])) if case.get("share_type") == "fraction" and case.get("share") is not None
                             else case.get("share")),
            "candidates": list(case["candidates"]), "winner": list(case.get("winners", [])),
            "audit_type": Audit.AUDIT_TYPE.CARD_COMPARISON, "test": NonnegMean.alpha_mart,
            "estim": NonnegMean.optimal_comparison, "use_style": True}


def _cvrs(case):
    from shangrla.core.Audit import CVR
    out = CVR.from_dict([{"id": c["id"], "votes": {k: {cand: v for cand, v in m} for k, m in c["votes"]}}
                         for c in case["cvrs"]])
    if case.get("np_marks") or _NP_MARKS[0]:
        import numpy as np
        conv = lambda x: (np.bool_(x) if isinstance(x, bool) else np.int64(x) if isinstance(x, int) else x)
        for c in out:
            c.votes = {k: {cand: conv(x) for cand, x in v.items()} for k, v in c.votes.items()}
    vt = case.get("votes_type") or _VOTES_TYPE[0]
    if vt:
        # the vote dict as another Mapping type (records assembled with collections.defaultdict / OrderedDict): reading a
        # card must not change it -- a lookup that inserts the contest would make has_contest() true afterwards
        import collections
        for c in out:
            if vt == "defaultdict":
                c.votes = collections.defaultdict(dict, {k: collections.defaultdict(bool, v) for k, v in c.votes.items()})
            else:
                c.votes = collections.OrderedDict(c.votes)
    return out


_VOTES_TYPE = [None]
_NP_MARKS = [False]
_CONTAINER = [None]


def _try(f):
    try:
        return {"st": "ok", "v": _num(f())}
    except Exception as e:  # noqa
        return {"st": "err", "err": err_kind(e)}


def _field(a, f, cvrs, dflt=False):
    from shangrla.core.Audit import Assertion
    style = f.endswith("_style")
    from ..core import container
    cv = container(_CONTAINER[0], cvrs)     # a fresh container per call: the functions make one pass over the records
    # `dflt`: style-based evaluation is the default of mean / sum / margin -- the argument is left out
    kw = {} if (dflt and style) else {"use_style": style}
    if f.startswith("mean"):
        return _num(a.assorter.mean(cv, **kw))
    if f.startswith("sum"):
        return _num(a.assorter.sum(cv, **kw))
    # the method Assertion.margin is shadowed by the instance attribute `margin`; call it through the class
    return _num(Assertion.margin(a, cv, **kw))


def _siblings(cons, cid, opts):
    """`tally_siblings`: the dict handed to Contest.tally holds other contests of the same election besides the case's
    own -- a plurality contest "other" (cards of the case may carry marks in it) and / or an IRV contest (not tabulated:
    Contest.tally warns and skips it) --, before or after it.  The tally of the case's own contest is a function of the
    cards' marks in that contest alone."""
    sib = (opts or {}).get("tally_siblings")
    if not sib:
        return cons
    from shangrla.core.Audit import Contest
    extra = {}
    for k in sib["ids"]:
        if k == "other":
            extra[k] = Contest.from_dict({"id": "other", "name": "other", "choice_function": PLUR, "n_winners": 1,
                                          "candidates": ["x", "y"], "winner": ["x"], "cards": 10})
        else:
            extra[k] = Contest.from_dict({"id": k, "name": k, "choice_function": IRV, "n_winners": 1,
                                          "candidates": ["x", "y", "z"], "winner": ["x"], "cards": 10})
    return {**extra, **cons} if sib["first"] else {**cons, **extra}


def _evaluate(cons, con, cid, cvrs, order, opts=None):
    """everything the group observes, of the assertions `con.assertions`, on the list `cvrs` as it is now"""
    from shangrla.core.Audit import Contest
    import warnings
    dflt = (opts or {}).get("call") == "defaults"
    out = {}
    for key, a in con.assertions.items():
        o = {"winner": a.winner, "loser": a.loser, "upper": _num(a.assorter.upper_bound),
             "vals": [_num(a.assorter.assort(c)) for c in cvrs]}
        try:
            # the range [0, upper_bound] compared on the objects themselves (floats or Fractions), before any conversion
            ub_ = a.assorter.upper_bound
            ex_ = [j for j, c in enumerate(cvrs) if not (0 <= a.assorter.assort(c) <= ub_)]
            if ex_:
                o["exceeds"] = [[j, repr(a.assorter.assort(cvrs[j])), repr(ub_)] for j in ex_[:3]]
        except Exception:  # noqa: values that cannot be compared are reported through "vals"
            pass
        for f in order:
            o[f] = _field(a, f, cvrs, dflt)
        out[key] = o
    tallies = {}
    tcons = _siblings(cons, cid, opts)
    for enforce, tag in ((True, "enforce"), (False, "noenforce")):
        from ..core import container
        cv = container(_CONTAINER[0], cvrs)
        with warnings.catch_warnings():
            warnings.simplefilter("ignore")
            if dflt and enforce:
                Contest.tally(tcons, cv)                # enforce_rules=True is the default
            elif dflt:
                Contest.tally(con_dict=tcons, cvr_list=cv, enforce_rules=False)
            else:
                Contest.tally(tcons, cv, enforce_rules=enforce)
        tallies[tag] = {k: int(v) for k, v in con.tally.items()}
        for key, a in con.assertions.items():
            def f(a=a):
                a.find_margin_from_tally()
                return a.margin
            out[key]["tally_margin_" + tag] = _try(f)
    return {"st": "ok", "assertions": out, "tally_enforce": tallies["enforce"], "tally_noenforce": tallies["noenforce"],
            "has_contest": [bool(c.has_contest(cid)) for c in cvrs],
            "has_one_vote": [bool(c.has_one_vote(cid, con.candidates)) for c in cvrs]}


def _readback(cvrs):
    """what the CVR objects in the list hold now, in the representation of a case"""
    return [{"id": c.id, "votes": [[k, [[cand, v] for cand, v in m.items()]] for k, m in c.votes.items()]} for c in cvrs]


def _amend(cvrs, ops):
    """amend ballots inside the list object `cvrs` (its identity and length are kept)"""
    for o in ops:
        if o["kind"] == "update":
            cvrs[o["i"]].update_votes({k: {cand: v for cand, v in m} for k, m in o["votes"]})
        else:
            cvrs[o["i"]] = _cvrs({"cvrs": [o["card"]]})[0]


def impl_contest(case):
    _VOTES_TYPE[0] = case.get("votes_type")
    _NP_MARKS[0] = bool(case.get("np_marks"))
    _CONTAINER[0] = case.get("container")
    try:
        return _impl_contest(case)
    finally:
        _VOTES_TYPE[0] = None
        _NP_MARKS[0] = False
        _CONTAINER[0] = None


def _impl_contest(case):
    from shangrla.core.Audit import Contest, Assertion
    cid = case["contest"]
    rounds = case.get("rounds") or []
    cvrs = _cvrs({"cvrs": rounds[0]["cvrs"]} if rounds else case)      # the one list object of the whole case
    if case.get("shared") is not None:
        return _impl_shared(case)
    cons = Contest.from_dict_of_dicts({cid: _contest_dict(case, len(cvrs))})
    con = cons[cid]
    ph = case.get("phantoms")
    if ph is not None:
        # the real records only; the library makes the phantoms (and annotates the Contest object)
        from shangrla.core.Audit import Audit, CVR
        audit = Audit.from_dict({"strata": {"stratum_1": {"max_cards": len(case["cvrs"]), "use_style": ph["use_style"],
                                                          "replacement": False}}})
        reals = _cvrs({"cvrs": case["cvrs"][:len(case["cvrs"]) - ph["n"]]})
        cvrs, n_made = CVR.make_phantoms(audit=audit, contests=cons, cvr_list=reals)
    if case["scf"] == APPR or (case.get("direct") and case["scf"] == PLUR):
        # make_all_assertions has no APPROVAL branch; approval contests use the plurality assertions
        con.assertions = Assertion.make_plurality_assertions(
            contest=con, winner=con.winner, loser=list(set(con.candidates) - set(con.winner)))
    elif case.get("direct") and case["scf"] == SUPER:
        # the direct call of tests/core/test_Assertion.py: contest, winner, loser -- share_to_win is the contest's
        con.assertions = Assertion.make_supermajority_assertion(
            contest=con, winner=con.winner[0], loser=list(set(con.candidates) - set(con.winner)))
    else:
        Assertion.make_all_assertions(cons)
    hist = []
    for r in rounds:
        res = _evaluate(cons, con, cid, cvrs, r.get("order") or FIELDS, case)
        res["state"] = _readback(cvrs)
        hist.append(res)
        _amend(cvrs, r["ops"])
    res = _evaluate(cons, con, cid, cvrs, case.get("order") or FIELDS, case)
    if rounds:
        res["rounds"] = hist
        res["state"] = _readback(cvrs)
    if ph is not None:
        res["state"] = _readback(cvrs)
        res["n_phantoms"] = int(n_made)
        res["cards"] = con.cards
    return res


def _shared_subcases(case):
    """the contests of a "shared" case in construction order, as plain contest cases; the case's own comes at main_at"""
    plain = {k: v for k, v in case.items() if k not in ("shared", "main_at", "rounds", "order")}
    subs = [{**plain, "contest": o["contest"], "share": o["share"], "cvrs": o["cvrs"]} for o in case["shared"]]
    k = case.get("main_at", len(subs))
    return subs[:k] + [plain] + subs[k:], k


def _impl_shared(case):
    """direct constructor calls for several contests, every call handed the SAME winner / loser list objects"""
    from shangrla.core.Audit import Contest, Assertion
    subs, k = _shared_subcases(case)
    winner = list(case["winners"])                                              # ONE list object each,
    loser = [c for c in case["candidates"] if c not in set(case["winners"])]     # reused for every contest
    built = []
    for sc in subs:
        cvrs = _cvrs(sc)
        cons = Contest.from_dict_of_dicts({sc["contest"]: _contest_dict(sc, len(cvrs))})
        con = cons[sc["contest"]]
        if sc["scf"] == SUPER:
            con.assertions = Assertion.make_supermajority_assertion(contest=con, winner=winner[0], loser=loser)
        else:
            con.assertions = Assertion.make_plurality_assertions(contest=con, winner=winner, loser=loser)
        built.append((cons, con, sc["contest"], cvrs))
    res = [_evaluate(cons, con, cid, cvrs, FIELDS) for cons, con, cid, cvrs in built]
    out = res[k]
    out["shared"] = res[:k] + res[k + 1:]
    return out


def impl_irv(case):
    from shangrla.core.Audit import Contest, Assertion
    cid = case["contest"]
    cvrs = _cvrs(case)
    d = _contest_dict({**case, "scf": IRV, "winners": [case["assertions"][0]["winner"]] if case["assertions"] else []},
                      len(cvrs))
    d["assertion_json"] = case["assertions"]
    cons = Contest.from_dict_of_dicts({cid: d})
    Assertion.make_all_assertions(cons)
    out = {}
    for key, a in cons[cid].assertions.items():
        vals = []
        for c in cvrs:
            r = _try(lambda: a.assorter.assort(c))
            vals.append(r["v"] if r["st"] == "ok" else r["err"])
        out[key] = {"upper": _num(a.assorter.upper_bound), "vals": vals}
    return {"st": "ok", "assertions": out}


def impl_margin(case):
    from shangrla.core.Audit import Contest, Assertion, Assorter
    d = _contest_dict({**case, "contest": "M"}, case["cards"])
    d["id"] = "M"
    t = defaultdict(int)
    for k, v in case["tally"]:
        t[k] = v
    d["tally"] = t
    con = Contest.from_dict(d)
    a = Assertion(contest=con, winner=case["winner"], loser=case["loser"],
                  assorter=Assorter(contest=con, assort=lambda c: 0.5, upper_bound=1))

    def f():
        if case.get("tally_arg") and len(t) > 0:
            # the tally handed over as the documented argument; what the Contest object holds is another (stale) one
            con.tally = defaultdict(int, {k: v + 7 for k, v in t.items()})
            con.tally["nobody"] = 3
            if case["tally_arg"] == "kw":
                a.find_margin_from_tally(tally=t)
            else:
                a.find_margin_from_tally(t)
        else:
            a.find_margin_from_tally()
        return a.margin
    return {"st": "ok", "margin": _try(f)}


def impl(case):
    return {"contest": impl_contest, "irv": impl_irv, "margin": impl_margin}[case["op"]](case)


# ------------------------------------------------------------------------------------------------
# model side

def _pairs_cvr(c):
    return {"id": c["id"], "votes": c["votes"]}


def request(case):
    op = case["op"]
    if op == "contest":
        a = {"scf": case["scf"], "contest": case["contest"], "candidates": case["candidates"],
             "winners": case["winners"], "n_winners": case["n_winners"], "share": fr(float(case["share"])),
             "cvrs": [_pairs_cvr(c) for c in case["cvrs"]]}
    elif op == "irv":
        a = {"contest": case["contest"], "candidates": case["candidates"], "assertions": case["assertions"],
             "cvrs": [_pairs_cvr(c) for c in case["cvrs"]]}
    else:
        a = {"scf": case["scf"], "winner": case["winner"], "loser": case["loser"], "candidates": case["candidates"],
             "share": fr(float(case["share"])), "cards": case["cards"], "tally": case["tally"]}
    return ("assorter", op, a)


def _cmp_exc(name, i, m):
    if i.get("st") != m.get("st"):
        return f"{name}: status differs impl={i} model={m}"
    if i["st"] == "err":
        return None if i["err"] == m["err"] else f"{name}: error kind differs {i['err']} vs {m['err']}"
    return None if num_close(i["v"], m["v"]) else f"{name}: {i['v']} vs {m['v']}"


def fragile(case, ir, mr):
    """a margin over ZERO cards (`cards` = 0: no population, outside every property's quantifier) is x/0: nan when the
    float numerator is exactly 0, +-inf when it is not -- and whether a numerator such as 8/(2*0.6666666666666666) - 6
    is exactly 0 is a matter of rounding (float: 0, exact on the same doubles: 1e-15).  Both sides non-finite: not
    compared (DESIGN.md 14)."""
    if case.get("op") != "margin" or case.get("cards") != 0:
        return False
    try:
        i, m = ir["margin"], mr["margin"]
        if i.get("st") != "ok" or m.get("st") != "ok":
            return False
        nonfin = lambda v: (isinstance(v, str) and v.strip("-+") in ("inf", "nan")) or \
            (isinstance(v, float) and (math.isnan(v) or math.isinf(v)))
        return bool(nonfin(i["v"]) and nonfin(m["v"]))
    except Exception:  # noqa
        return False


def compare(case, ir, mr):
    if ir.get("st") != mr.get("st"):
        return f"status differs: impl={ir.get('st')}/{ir.get('err')} model={mr.get('st')}/{mr.get('err')}"
    if ir["st"] == "err":
        return None if ir["err"] == mr["err"] else f"error kind differs: {ir['err']} vs {mr['err']}"
    op = case["op"]
    if op == "margin":
        return _cmp_exc("margin", ir["margin"], mr["margin"])
    if case.get("rounds"):
        # the list the real objects hold after each round is the list the case says (CVR.update_votes / replacement)
        for k, (r, h) in enumerate(zip(case["rounds"], ir["rounds"])):
            if h["state"] != r["cvrs"]:
                return f"round {k}: the list holds {h['state']} but the case says {r['cvrs']}"
        if ir["state"] != case["cvrs"]:
            return f"after the last round the list holds {ir['state']} but the case says {case['cvrs']}"
    if op == "contest" and case.get("phantoms") is not None:
        # the list make_phantoms returned is the list the case says, and the contest's card bound is its length
        if ir["state"] != [_pairs_cvr(c) for c in case["cvrs"]] or ir["n_phantoms"] != case["phantoms"]["n"]:
            return f"make_phantoms returned {ir['n_phantoms']} phantoms, list {ir['state']}; the case says {case['cvrs']}"
        if ir["cards"] != len(case["cvrs"]):
            return f"contest.cards is {ir['cards']} after make_phantoms, the case says {len(case['cvrs'])}"
    ma = {}
    for a in mr["assertions"]:
        ma[a["key"]] = a
    if set(ma) != set(ir["assertions"]):
        return f"assertion keys differ: impl={sorted(ir['assertions'])} model={sorted(ma)}"
    for key, ia in ir["assertions"].items():
        m = ma[key]
        if not num_close(ia["upper"], m["upper"]):
            return f"{key}: upper bound {ia['upper']} vs {m['upper']}"
        if len(ia["vals"]) != len(m["vals"]):
            return f"{key}: number of values differs"
        for j, (x, y) in enumerate(zip(ia["vals"], m["vals"])):
            if isinstance(x, str) or y in ("TypeError", "KeyError", "ZeroDivisionError", "NotImplementedError"):
                if x != y:
                    return f"{key}: card {j}: {x} vs {y}"
            elif not num_close(x, y):
                return f"{key}: card {j}: assort {x} vs {y}"
        if op == "irv":
            continue
        if (ia["winner"], ia["loser"]) != (m["winner"], m["loser"]):
            return f"{key}: winner/loser differ"
        for f in ("mean_style", "mean_nostyle", "sum_style", "sum_nostyle", "margin_style", "margin_nostyle"):
            if not num_close(ia[f], m[f]):
                return f"{key}: {f} {ia[f]} vs {m[f]}"
        for f in ("tally_margin_enforce", "tally_margin_noenforce"):
            if case.get("share_type") == "fraction" and ia[f].get("st") == "err" and m[f].get("st") == "ok" and \
                    str(m[f].get("v")).strip("-+") in ("nan", "inf"):
                continue      # x/0: a Fraction raises ZeroDivisionError where a float gives nan / inf (no valid vote at all)
            r = _cmp_exc(f"{key}: {f}", ia[f], m[f])
            if r:
                return r
    if op == "contest":
        for f in ("tally_enforce", "tally_noenforce"):
            mt = {k: v for k, v in mr[f]}
            if len(mt) != len(mr[f]):
                return f"{f}: model tally has duplicate keys"
            if mt != ir[f]:
                return f"{f}: {ir[f]} vs {mt}"
        for f in ("has_contest", "has_one_vote"):
            if ir[f] != mr[f]:
                return f"{f} differs"
    return None


def _overvoted(case):
    """does some card carry more than n_winners truthy marks (on keys that are truthy names)"""
    for c in case["cvrs"]:
        d = _dict_of(c, case["contest"])
        if d is not None and sum(1 for k, v in d.items() if k and bool(v)) > case["n_winners"]:
            return True
    return False


def _skip_margin(case, w, l):
    """(votes for w - votes for l) / cards, counting only the cards with at most n_winners truthy marks"""
    tw = tl = 0
    for c in case["cvrs"]:
        d = _dict_of(c, case["contest"])
        if d is None or sum(1 for k, v in d.items() if k and bool(v)) > case["n_winners"]:
            continue
        tw += int(_mark(c, case["contest"], w))
        tl += int(_mark(c, case["contest"], l))
    return float(Fraction(tw - tl, len(case["cvrs"])))


def signature(case, ir):
    if ir.get("st") != "ok":
        return "err:" + str(ir.get("err"))
    op = case["op"]
    if op == "margin":
        m = ir["margin"]
        return f"margin:{case['scf']}:" + (m["st"] if m["st"] == "ok" else m["err"])
    cvrs = case["cvrs"]
    if op == "irv":
        nerr = sum(1 for a in ir["assertions"].values() for v in a["vals"] if isinstance(v, str))
        if not ir["assertions"] or len(cvrs) < 2:
            return "trivial:irv"
        return "irv;" + ("typeerror" if nerr else "clean")
    marked = any(bool(v) for c in cvrs for k, m in c["votes"] if k == case["contest"] for _, v in m)
    if not ir["assertions"] or len(cvrs) < 2 or not marked:
        return "trivial:" + case["scf"]
    means = [a["mean_nostyle"] for a in ir["assertions"].values()]
    if all(x > 0.5 + TOL for x in means):
        out = "allwin"
    elif any(abs(x - 0.5) <= TOL for x in means):
        out = "tie"
    else:
        out = "lose"
    flags = []
    if len(case["winners"]) > 1:
        flags.append("k>1")
    if _overvoted(case):
        flags.append("overvote")
    if not all(ir["has_contest"]):
        flags.append("nocontest")
    if case.get("shared") is not None:
        flags.append("shared")
    if case.get("phantoms") is not None:
        flags.append("phantoms")
    if case.get("rounds"):
        m0 = [a["mean_nostyle"] for a in ir["rounds"][0]["assertions"].values()]
        flags.append("seq-flip" if all(x > 0.5 + TOL for x in m0) != (out == "allwin") else "seq")
    return f"{case['scf']};{out};" + ",".join(flags)


# ------------------------------------------------------------------------------------------------
# oracle: the statement of C02 evaluated on the implementation's result, counts recomputed from the input dicts

def _sign_check(what, mean, gap, scale):
    """mean > 1/2  <=>  gap > 0.  `gap` is the exact vote gap (a Fraction; the share is the exact value of the
    float).  `gap/scale` is what the gap is worth in units of the mean: when that is below TOL (a share such as
    float(1/3) sits 2**-54 away from an exact threshold) rounding decides the comparison, and only |mean - 1/2| <= TOL
    is required.  Otherwise a true winner's mean exceeds 1/2 by far more than rounding, so `win` requires
    mean > 1/2 outright; in an exact tie rounding may leave the mean within TOL of 1/2 on either side."""
    if math.isnan(mean):
        return f"{what}: mean is nan"
    if gap != 0 and abs(gap) / scale <= TOL:
        return None if abs(mean - 0.5) <= TOL else f"{what}: vote gap {float(gap)!r} but assorter mean {mean!r}"
    if gap > 0 and not mean > 0.5:
        return f"{what}: reported winner really won (vote gap {gap}) but assorter mean {mean!r} <= 1/2"
    if gap <= 0 and mean > 0.5 + TOL:
        return f"{what}: reported winner did not win (vote gap {gap}) but assorter mean {mean!r} > 1/2"
    return None


def oracle_c02(case, ir):
    """an operation sequence: the property holds of the ballots the list holds at every evaluation"""
    tagged = None
    if case.get("rounds") and ir.get("st") == "ok":
        plain = {k: v for k, v in case.items() if k not in ("rounds", "order")}
        for k, (r, h) in enumerate(zip(case["rounds"], ir["rounds"])):
            v = _oracle_state({**plain, "cvrs": r["cvrs"]}, h)
            if v and not v.get("finding"):
                return {"what": f"evaluation {k} of {len(case['rounds']) + 1} on one list object, after the amendments "
                                f"{[o for q in case['rounds'][:k] for o in q['ops']]}: " + v["what"]}
            tagged = tagged or v
        v = _oracle_state({**plain, "cvrs": case["cvrs"]}, ir)
        if v and not v.get("finding"):
            return {"what": f"last evaluation on one list object, after the amendments "
                            f"{[o for q in case['rounds'] for o in q['ops']]}: " + v["what"]}
        return tagged or v
    if case.get("shared") is not None and ir.get("st") == "ok":
        subs, k = _shared_subcases(case)
        results = ir["shared"][:k] + [ir] + ir["shared"][k:]
        for j, (sc, r) in enumerate(zip(subs, results)):
            v = _oracle_state(sc, {**r, "st": "ok"})
            if v and not v.get("finding"):
                return {"what": f"contest {sc['contest']!r}, constructed {j + 1}. of {len(subs)} by direct calls that "
                                f"were handed the same winner / loser list objects: " + v["what"]}
            tagged = tagged or v
        return tagged
    if case.get("phantoms") is not None and ir.get("st") == "ok":
        v = _oracle_state(case, ir)
        if v and not v.get("finding"):
            k = case["phantoms"]["n"]
            return {"what": f"after CVR.make_phantoms ({len(case['cvrs']) - k} CVRs + {k} phantoms = contest.cards = "
                            f"{len(case['cvrs'])}, use_style={case['phantoms']['use_style']}): " + v["what"]}
        return v
    return _oracle_state(case, ir)


def _oracle_state(case, ir):
    op = case["op"]
    if ir.get("st") != "ok":
        if op == "contest" and case["scf"] in (PLUR, APPR) and ir.get("err") == "ValueError" and _name_clash(case):
            return None     # two different pairs would share one assertion name: refusing is right (dropping one is F30)
        return {"what": f"{op}: the implementation raised {ir.get('err')}: {ir.get('msg', '')}"}
    if op == "contest" and case["scf"] in (PLUR, APPR):
        # one assertion for EVERY (reported winner, reported loser) pair -- what the all-pairs statement is about
        have = {(a["winner"], a["loser"]) for a in ir["assertions"].values()}
        losers_ = [c for c in dict.fromkeys(case["candidates"]) if c not in case["winners"]]
        missing = [(w, l) for w in case["winners"] for l in losers_ if (w, l) not in have]
        if missing:
            return {"what": f"no assertion compares winner {missing[0][0]!r} with loser {missing[0][1]!r} "
                            f"(assertions built: {sorted(ir['assertions'])}): that pair would never be audited"}
    if op == "margin":
        return None         # no cards: nothing of the property to evaluate (the correspondence covers the branch)
    cvrs = case["cvrs"]
    # ---- range of every assorter value
    for key, a in ir["assertions"].items():
        u = a["upper"]
        if a.get("exceeds") and not any(isinstance(v, str) or math.isnan(v) for v in a["vals"]):
            j, v_, ub_ = a["exceeds"][0]
            return {"what": f"{key}: assorter value {v_} on card {j} {cvrs[j]['votes']} outside [0, upper_bound = {ub_}] "
                            f"(compared exactly, as the objects the library returns)"}
        for j, v in enumerate(a["vals"]):
            if isinstance(v, str):
                if v == "TypeError" and op == "irv":
                    continue            # ranks of incomparable types: no value is produced
                return {"what": f"{key}: assorter raised {v} on card {j} {cvrs[j]['votes']}"}
            if not (-TOL <= v <= u + TOL * max(1.0, u)) or math.isnan(v):
                return {"what": f"{key}: assorter value {v!r} on card {j} {cvrs[j]['votes']} outside [0, {u}]"}
            if op == "irv" and min(abs(v - t) for t in (0.0, 0.5, 1.0)) > TOL:
                return {"what": f"{key}: IRV assorter value {v!r} not in {{0, 1/2, 1}}"}
    if op == "irv":
        return None
    contest, cands, scf = case["contest"], case["candidates"], case["scf"]
    n = len(cvrs)
    n_style = sum(1 for c in cvrs if _dict_of(c, contest) is not None)
    # "over the same cards": which cards list the contest is a fact about the ballots, not about what has been computed
    # on them -- after every assorter, mean, sum and margin has been evaluated the cards must list what they listed
    if case.get("phantoms") is None and len(ir.get("has_contest", [])) == n:
        for j, c in enumerate(cvrs):
            if bool(ir["has_contest"][j]) != (_dict_of(c, contest) is not None):
                return {"what": f"after the evaluations card {j} {c['votes']} "
                                f"{'lists' if ir['has_contest'][j] else 'no longer lists'} contest {contest!r}: the style-based "
                                f"means and margins are then taken over other cards than the tally"}
    f = Fraction(float(case["share"]))
    tagged = None
    if scf in (PLUR, APPR):
        marks = {c: _marks(cvrs, contest, c) for c in set(cands) | set(case["winners"])}
        for key, a in ir["assertions"].items():
            if abs(a["upper"] - 1) > TOL:
                return {"what": f"{key}: upper bound {a['upper']} != 1"}
            gap = Fraction(marks[a["winner"]] - marks[a["loser"]])
            for style, cnt in (("mean_nostyle", n), ("mean_style", n_style)):
                if cnt == 0:
                    continue        # np.mean([]) is nan: the guard of the property
                r = _sign_check(f"{key} ({style})", a[style], gap, 2 * cnt)
                if r:
                    return {"what": r}
        # all-pairs statement
        if n > 0 and ir["assertions"]:
            allwin_code = all(a["mean_nostyle"] > 0.5 for a in ir["assertions"].values())
            losers = [c for c in set(cands) if c not in case["winners"]]
            allwin_votes = all(marks[w] > marks[l] for w in case["winners"] for l in losers)
            if allwin_code != allwin_votes:
                return {"what": f"all assorter means > 1/2 is {allwin_code} but every winner beats every loser is {allwin_votes}"}
    else:
        w = case["winners"][0]
        valid = sum(1 for c in cvrs if _valid_for(c, contest, cands) is not None)
        wvalid = sum(1 for c in cvrs if _valid_for(c, contest, cands) == w and _mark(c, contest, w))
        gap = Fraction(wvalid) - f * valid
        for key, a in ir["assertions"].items():
            if not num_close(a["upper"], fr(1 / (2 * f))):
                return {"what": f"{key}: upper bound {a['upper']} != 1/(2 share) = {float(1 / (2 * f))}"}
            for style, cnt in (("mean_nostyle", n), ("mean_style", n_style)):
                if cnt == 0:
                    continue
                r = _sign_check(f"{key} ({style}; valid={valid}, winner's={wvalid}, share={float(f)})", a[style], gap, 2 * f * cnt)
                if r:
                    return {"what": r}
    # ---- margin from the tally of the same cards == 2*mean - 1 (cards = number of cards)
    if n == 0:
        return None
    for key, a in ir["assertions"].items():
        ma = 2 * a["mean_nostyle"] - 1
        for tag in ("enforce", "noenforce"):
            mt = a["tally_margin_" + tag]
            enforce = tag == "enforce"
            if scf in (PLUR, APPR):
                if a["winner"] == "" or a["loser"] == "":
                    continue        # a candidate whose name is falsy is never tallied: outside the quantifier
                if mt["st"] != "ok":
                    return {"what": f"{key}: find_margin_from_tally({tag}) raised {mt['err']}"}
                if abs(mt["v"] - ma) <= TOL:
                    continue
                # F19 is exactly: the enforce-rules tally left out the cards with more than n_winners marks and is
                # otherwise right.  Recompute that margin from the input dicts (not from any other output of the code).
                if enforce and _overvoted(case) and abs(mt["v"] - _skip_margin(case, a["winner"], a["loser"])) <= TOL:
                    tagged = tagged or {"finding": F19, "what": f"{key}: margin from Contest.tally(enforce_rules=True) "
                                        f"{mt['v']!r} != 2*mean-1 = {ma!r}: the tally skips a card with more than "
                                        f"n_winners={case['n_winners']} marks that the assorter counts"}
                    continue
                return {"what": f"{key}: margin from tally ({tag}) {mt['v']!r} != 2*mean-1 = {ma!r}"}
            else:
                if case["winners"][0] == "NO_CANDIDATE":
                    continue        # documented NotImplementedError
                if "" in cands or len(set(cands)) != len(cands) or case["winners"][0] not in cands:
                    continue
                # tally-side precondition: the tally counts a card's marks iff the card is a valid vote
                ok = True
                for c in cvrs:
                    d = _dict_of(c, contest)
                    if d is None:
                        continue
                    nv = sum(1 for k, v in d.items() if k and bool(v))
                    counted = (not enforce) or nv <= case["n_winners"]
                    ncand = sum(1 for x in cands if _mark(c, contest, x))
                    if (counted and ncand > 1) or ((not counted) and ncand == 1):
                        ok = False
                if not ok:
                    continue
                if mt["st"] != "ok":
                    return {"what": f"{key}: find_margin_from_tally({tag}) raised {mt['err']}"}
                # (a NaN margin -- e.g. 0/0 when no card holds a valid vote -- is a mismatch, not a pass)
                if not (abs(mt["v"] - ma) <= TOL * max(1.0, abs(ma))):
                    return {"what": f"{key}: margin from tally ({tag}) {mt['v']!r} != 2*mean-1 = {ma!r}"}
    return tagged


ORACLES = {"C02": oracle_c02}
