"""
Correspondence group `raire`: shangrla.raire.raire.compute_raire_assertions (real code, on
raire_utils.Contest objects and cvrs dicts) vs. Shangrla.Raire.computeRaireAssertions
(properties C04, C15).

A case: {"cands": [...], "sigs": [[ranking|None, count], ...], "winner": c, "tot": n,
         "outcome": [...], "asn": "cp"|"bp"}
`ranking` is the list of candidates in preference order (the ballot is {cand: position}, 0-based and
contiguous, the encoding produced by the repo's own loaders); `[]` is a blank ballot, `None` a card
that does not contain the contest. `tot` = contest.tot_ballots, `outcome` = contest.outcome (the diving
hint; [] = none).
"""
import itertools, math, os, struct
from ..core import impl_call, case_key

NAME = "raire"
RULE = ("exhaustive over all multisets of <= 4 ballots (every partial ranking, blank, card without the contest) on "
        "2-3 candidates x every reported winner (quick: a random half of them), difficulty function and diving hint "
        "drawn at random; then random profiles: 2-6 candidates, 1-60 ballots as weighted signatures (partial "
        "rankings, blanks, cards lacking the contest, forced ties by mirrored signatures and equal weights), reported "
        "winner right or wrong, cp_estimate and bp_estimate, hint none / true elimination order / random permutation; "
        "tot_ballots in {#cards, #cards with the contest, larger} and always >= #ballots >= 1, so neither shipped "
        "difficulty function divides by zero (they are only called with winner tally > loser tally >= 0); hints "
        "always list every candidate (list.index would raise ValueError otherwise); ballots mention declared "
        "candidates only; candidate identifiers: letters (half), else numeric strings as in the shipped .raire files, "
        "handed over as str or as int, and affix / accented / punctuated names, drawn from pools in which one "
        "identifier is a concatenation, prefix or suffix of others; plus 10-64 contests of 1e5..6e5 cards (3, thorough "
        "also 4 candidates; sent to the driver as weighted signatures) built so that two different true assertions "
        "contradicting a binding alternative order have difficulties within a relative 1e-5 of each other, the cheaper "
        "one being the optimum (70%: the cheaper one is evaluated at a leaf of the search tree, the other at an "
        "ancestor); 15% of the random profiles have interior holes in some rankings (line positions that carry no vote "
        "for a declared candidate, as load_contests_from_raire leaves them), 15% run on a Contest object that was used "
        "before on another CVR set of the same size; optional arguments on the random profiles: log=True (1 in 5; stream and stdout captured; the result "
        "must not change) and a positive allowed gap agap (1 in 4; 1e-9 .. 1e4; the driver evaluates the same float test; "
        "the branch tag records whether the early exit changed the result); non-trivial = >= 3 candidates (empty results included: they exercise the 'audit not possible' exits); distinct = distinct canonical input")
EXHAUSTIVE = {"quick": False, "thorough": False}
RULE += "; option stream (n/20 more profiles, own generator, OPTIONS_AUDIT.md): raire_utils.Contest built without the order argument"
CONTEST = "1"
FUEL = 2000000
TOL = 1e-9


# ---------------------------------------------------------------------------------------------
# helpers on cases (independent of the repo and of the model)

def ballots_of(case):
    """weighted signatures of the cards that contain the contest: [(tuple ranking, count)]"""
    return [(tuple(c for c in r if c is not None), n) for r, n in case["sigs"] if r is not None and n > 0]


def irv_order(cands, wb, rng=None):
    """an elimination order (first eliminated first) of a plain IRV count; ties broken by rng / first"""
    standing = list(cands)
    order = []
    while len(standing) > 1:
        t = {c: 0 for c in standing}
        for r, n in wb:
            for c in r:
                if c in t:
                    t[c] += n
                    break
        m = min(t.values())
        low = [c for c in standing if t[c] == m]
        x = rng.choice(low) if rng else low[0]
        order.append(x)
        standing.remove(x)
    return order + standing


def tally_neb(wb, w, l):
    W = sum(n for r, n in wb if r and r[0] == w)
    L = sum(n for r, n in wb if l in r and (w not in r or r.index(l) < r.index(w)))
    return W, L


def tally_nen(wb, w, l, E):
    E = set(E)
    W = L = 0
    for r, n in wb:
        rem = [c for c in r if c not in E]
        if rem:
            if rem[0] == w:
                W += n
            elif rem[0] == l:
                L += n
    return W, L


def contradicts(a, pi):
    """does assertion a = dict(t,w,l,e) contradict the complete elimination order pi (winner last)"""
    pos = {c: i for i, c in enumerate(pi)}
    if a["w"] not in pos or a["l"] not in pos:
        return False
    if a["t"] == "NEB":
        return pos[a["w"]] < pos[a["l"]]
    return set(pi[: pos[a["w"]]]) == set(a["e"]) and pos[a["l"]] > pos[a["w"]]


def asn_of(name):
    from shangrla.raire import sample_estimator as se
    if name == "nm":
        # a difficulty function of the caller's own that decreases as the margin grows and is NOT positive: minus the
        # margin as a share of the ballots, in [-1, 0) (C15 speaks of every such function; the initial lower bound -10
        # of the search is still below every value)
        return lambda w, l, o, t: -(w - l) / t
    return se.cp_estimate if name == "cp" else se.bp_estimate


def alt_orders(cands, winner):
    for p in itertools.permutations(cands):
        if p[-1] != winner:
            yield p


def best_true_difficulty(case, wb, pi, asn):
    """min difficulty over the complete family of true NEB/NEN assertions contradicting pi
    (all ordered pairs; for NEN every eliminated set: only E = set(pi[:k]) can contradict pi)"""
    tot = case["tot"]
    best = math.inf
    n = len(pi)
    for i in range(n):
        for j in range(i + 1, n):
            w, l = pi[i], pi[j]
            W, L = tally_neb(wb, w, l)
            if W > L:
                best = min(best, asn(W, L, tot - (W + L), tot))
            W, L = tally_nen(wb, w, l, pi[:i])
            if W > L:
                best = min(best, asn(W, L, tot - (W + L), tot))
    return best


def exact_asn(name):
    """the shipped difficulty functions as exact rationals of the integer tallies (o = tot - w - l):
    cp_estimate = 1/(2(w + o/2)/tot - 1) = tot/(w-l);  bp_estimate = 1/(p q^2), p=(w+l)/tot, q=(w-l)/(w+l)"""
    from fractions import Fraction
    if name == "nm":
        return lambda w, l, o, t: Fraction(-(w - l), t)
    if name == "cp":
        return lambda w, l, o, t: Fraction(t, 2 * w + o - t)
    return lambda w, l, o, t: Fraction((w + l) * t, (w - l) ** 2)


def order_families(case, wb, asn):
    """for every alternative order pi: (difficulties of the true assertions contradicting pi whose winner is the
    first-eliminated candidate pi[0], difficulties of the other true assertions contradicting pi)"""
    tot = case["tot"]
    out = []
    for pi in alt_orders(case["cands"], case["winner"]):
        first, rest = [], []
        for i in range(len(pi)):
            for j in range(i + 1, len(pi)):
                w, l = pi[i], pi[j]
                for W, L in (tally_neb(wb, w, l), tally_nen(wb, w, l, pi[:i])):
                    if W > L:
                        (first if i == 0 else rest).append(asn(W, L, tot - (W + L), tot))
        out.append((pi, first, rest))
    return out


def near_tie_at_optimum(case, rt, directed):
    """is there a binding alternative order (its cheapest contradicting assertion costs exactly OPT) that a second,
    different assertion contradicts at a cost within a relative `rt` ABOVE OPT (rt = 0: exactly OPT)?
    directed: the cheapest one is about the order's first-eliminated candidate (in the search tree: evaluated at
    the leaf) and the runner-up is not (evaluated at an ancestor of the leaf)"""
    wb = ballots_of(case)
    fam = order_families(case, wb, exact_asn(case["asn"]))
    if any(not f and not r for _, f, r in fam):
        return False
    opt = max(min(f + r) for _, f, r in fam)
    hi = opt * (1 + rt)
    for _, f, r in fam:
        if min(f + r) != opt:
            continue
        if directed:
            if f and r and min(f) == opt and ((opt < min(r) <= hi) if rt else min(r) == opt):
                return True
        else:
            if rt:
                if any(opt < x <= hi for x in f + r):
                    return True
            elif sorted(f + r)[1:2] == [opt]:
                return True
    return False


# ---------------------------------------------------------------------------------------------
# the implementation

def ident(case):
    """candidate identifiers are handed to the implementation as str (the shipped loaders) or, with
    "ids": "int" (decimal strings only), as Python ints; the case itself always holds strings"""
    # every identifier reaches the code as a FRESH object (a string parsed from a file, as load_contests_from_raire and
    # run_raire produce): equal to the entry of contest.candidates, not identical with it (round 9: `is` for `==`)
    return int if case.get("ids") == "int" else (lambda c: "".join(list(c)))


def build_inputs(case):
    from shangrla.raire.raire_utils import Contest
    f = ident(case)
    cvrs = {}
    k = 0
    for r, n in case["sigs"]:
        if r is None:
            for _ in range(n):
                cvrs[str(k)] = {"other": {"X": 0}}
                k += 1
        else:
            # a `None` inside a ranking is a position of the ballot line taken by something that is not a vote for a
            # declared candidate (a repeated or undeclared identifier: load_contests_from_raire keeps the line positions)
            b = {f(c): i for i, c in enumerate(r) if c is not None}
            for _ in range(n):
                cvrs[str(k)] = {CONTEST: dict(b)}
                k += 1
    if case.get("call") == "defaults" and not case["outcome"]:
        # no elimination order known: the `order` argument is left out (its default is the empty list)
        contest = Contest(CONTEST, [f(c) for c in case["cands"]], f(case["winner"]), case["tot"])
    else:
        contest = Contest(CONTEST, [f(c) for c in case["cands"]], f(case["winner"]), case["tot"],
                          order=[f(c) for c in case["outcome"]])
    return contest, cvrs


def prior_cvrs(case):
    """`case["prior"]`: the Contest object has been used before, on ANOTHER set of CVRs of the same size (a preliminary
    export of the same cards: the same signatures with the candidates' names permuted)"""
    f = ident(case)
    perm = dict(zip(case["cands"], case["prior"]))
    cvrs, k = {}, 0
    for r, n in case["sigs"]:
        for _ in range(n):
            cvrs[str(k)] = {"other": {"X": 0}} if r is None else \
                {CONTEST: {f(perm[c]): i for i, c in enumerate(r) if c is not None}}
            k += 1
    return cvrs


def run_impl(case):
    from shangrla.raire.raire import compute_raire_assertions
    from shangrla.raire.raire_utils import NEBAssertion, NENAssertion
    contest, cvrs = build_inputs(case)
    if case.get("prior"):
        try:   # an earlier run on the same Contest object; what it returned is not looked at
            compute_raire_assertions(contest, prior_cvrs(case), ident(case)(case["winner"]), asn_of(case["asn"]), False)
        except Exception:  # noqa
            pass
    kw = {}
    if case.get("agap"):
        kw["agap"] = float(case["agap"])
    if case.get("log"):
        # `log=True` prints the search to `stream` (and one line per iteration to stdout, L259); it must not change the result
        import io, contextlib
        sink = io.StringIO()
        with contextlib.redirect_stdout(io.StringIO()):
            res = compute_raire_assertions(contest, cvrs, ident(case)(case["winner"]), asn_of(case["asn"]), True,
                                           stream=sink, **kw)
    else:
        res = compute_raire_assertions(contest, cvrs, ident(case)(case["winner"]), asn_of(case["asn"]), False, **kw)
    nogap = None
    if case.get("agap"):
        # for the evidence only: did the early exit change the run?
        contest0, cvrs0 = build_inputs(case)
        r0 = compute_raire_assertions(contest0, cvrs0, ident(case)(case["winner"]), asn_of(case["asn"]), False)
        nogap = sorted((type(a).__name__, str(a.winner), str(a.loser), a.difficulty) for a in r0 if a is not None)
    out = []
    typ = int if case.get("ids") == "int" else str

    def s_(c):
        # back to the case's strings; an identifier of another type than the one handed in is shown as such
        return str(c) if type(c) is typ else repr(c)
    for a in res:
        if a is None:
            out.append(None)
            continue
        neb = type(a) is NEBAssertion
        out.append({"t": "NEB" if neb else "NEN", "w": s_(a.winner), "l": s_(a.loser),
                    "e": [] if neb else [s_(c) for c in a.eliminated],
                    "vw": int(a.votes_for_winner), "vl": int(a.votes_for_loser), "d": float(a.difficulty),
                    "ro": sorted([[s_(c) for c in t] for t in a.rules_out]),
                    "cn": a.contest if isinstance(a.contest, str) else repr(type(a.contest))})
    r = {"st": "ok", "as": out}
    if nogap is not None:
        r["gap_changed"] = nogap != sorted((("NEBAssertion" if a["t"] == "NEB" else "NENAssertion"), a["w"], a["l"], a["d"])
                                           for a in out if a is not None)
    return r


_CACHE = {}      # case key -> implementation result
_OCACHE = {}     # (property, case key) -> (implementation result it was computed from, oracle verdict)


def _pool_job(case):
    ir = impl_call(run_impl, case)
    return ir, _oracle_c04(case, ir), _oracle_c15(case, ir)


def precompute(cases):
    """run the implementation and the two oracles on all cases in a process pool (forked: same
    sys.path / VERIF_REPO); `impl` and the oracles then answer from the cache"""
    import multiprocessing as mp
    if len(cases) < 64:
        return
    ctx = mp.get_context("fork")
    big = [c for c in cases if ncards(c) > BIG]
    small = [c for c in cases if ncards(c) <= BIG]
    with ctx.Pool(min(16, os.cpu_count() or 4)) as pool:
        rb = pool.map_async(_pool_job, big, chunksize=1)      # seconds each: one per task, started first
        rs = pool.map_async(_pool_job, small, chunksize=max(1, len(small) // 256))
        res = rb.get() + rs.get()
    for c, (r, o4, o15) in zip(big + small, res):
        k = case_key(c)
        _CACHE[k] = r
        _OCACHE[("C04", k)] = (r, o4)
        _OCACHE[("C15", k)] = (r, o15)


def impl(case):
    k = case_key(case)
    if k in _CACHE:
        return _CACHE[k]
    return run_impl(case)


def _cached_oracle(pid, f):
    def oracle(case, ir):
        hit = _OCACHE.get((pid, case_key(case)))
        if hit is not None and hit[0] is ir:
            return hit[1]
        return f(case, ir)
    return oracle


MAXCARDS = 600000   # largest generated contest (the implementation needs ~1 s per 10^5 cards and 3 candidates)
BIG = 2000       # contests with more cards travel to the driver as weighted signatures (it expands them)


def ncards(case):
    return sum(n for _, n in case["sigs"])


def request(case):
    sigs = [[None if r is None else [[c, i] for i, c in enumerate(r) if c is not None], n] for r, n in case["sigs"]]
    a = {"cands": case["cands"], "winner": case["winner"], "tot": case["tot"], "outcome": case["outcome"],
         "asn": case["asn"], "fuel": FUEL}
    if case.get("agap"):
        a["agap"] = struct.unpack("<Q", struct.pack("<d", float(case["agap"])))[0]     # the bits of the float64
    if ncards(case) > BIG:
        a["sigs"] = sigs
    else:
        a["cvrs"] = [b for b, n in sigs for _ in range(n)]
    return ("raire", "compute", a)


def bits_to_float(n):
    return struct.unpack("<d", struct.pack("<Q", int(n)))[0]


def compare(case, ir, mr):
    if mr.get("st") == "fuel":
        return f"model ran out of fuel ({FUEL} iterations of the main loop)"
    if ir.get("st") != mr.get("st"):
        return f"status differs: impl={ir.get('st')}/{ir.get('err')} model={mr.get('st')}/{mr.get('err')}"
    if ir["st"] == "err":
        return None if ir["err"] == mr["err"] else f"error kind differs: {ir['err']} vs {mr['err']}"
    ia, ma = ir["as"], mr["as"]
    if len(ia) != len(ma):
        return f"number of assertions differs: impl {len(ia)} model {len(ma)}"
    for k, (a, b) in enumerate(zip(ia, ma)):
        if a is None:
            return f"assertion {k}: implementation returned None"
        if a["cn"] != CONTEST:
            return f"assertion {k}: contest attribute is {a['cn']!r}"
        for f in ("t", "w", "l", "e", "vw", "vl", "ro"):
            if a[f] != b[f]:
                return f"assertion {k}: field {f} differs: impl {a[f]} model {b[f]}"
        d = bits_to_float(b["d"])
        if not (abs(a["d"] - d) <= 1e-12 * max(abs(d), abs(a["d"]))):
            return f"assertion {k}: difficulty differs: impl {a['d']!r} model {d!r}"
    return None


def signature(case, ir):
    if ir.get("st") != "ok":
        return "err:" + str(ir.get("err"))
    n = len(case["cands"])
    res = ir["as"]
    hint = "nohint" if not case["outcome"] else "hint"
    if case.get("log"):
        hint += ";log"
    if case.get("prior"):
        hint += ";reused"
    if any(r is not None and None in r for r, _ in case["sigs"]):
        hint += ";holes"
    if case.get("agap"):
        hint += ";agap:" + ("changed" if ir.get("gap_changed") else "same")
    if not res:
        return ("trivial:" if n < 3 else "") + f"empty;n={n};{case['asn']};{hint}"
    kinds = {a["t"] for a in res if a}
    flags = []
    if any(a and a["t"] == "NEB" and a["ro"] for a in res):
        flags.append("neb-absorbed")        # a NEB subsumed a NEN in the last pass
    if any(a and a["t"] == "NEN" and len(a["ro"]) > 1 for a in res):
        flags.append("nen-merged")          # de-duplication or NEN subsumption merged tails
    s = f"n={n};{'+'.join(sorted(kinds))};{case['asn']};{hint};{'+'.join(flags) if flags else 'plain'}"
    if ncards(case) > BIG:
        s += ";near-tie@1e5"
    return ("trivial:" if n < 3 else "") + s


# ---------------------------------------------------------------------------------------------
# generators

def corpus():
    return [
        # the example of the RAIRE paper style: A wins
        {"cands": ["A", "B", "C"], "sigs": [[["A", "B"], 4], [["B", "C"], 3], [["C", "B"], 2]], "winner": "A",
         "tot": 9, "outcome": [], "asn": "cp"},
        {"cands": ["A", "B", "C"], "sigs": [[["A", "B"], 4], [["B", "C"], 3], [["C", "B"], 2]], "winner": "B",
         "tot": 9, "outcome": ["C", "A", "B"], "asn": "bp"},
        # two candidates: auditable, tie, wrong winner
        {"cands": ["A", "B"], "sigs": [[["A"], 3], [["B", "A"], 2]], "winner": "A", "tot": 5, "outcome": [], "asn": "cp"},
        {"cands": ["A", "B"], "sigs": [[["A"], 2], [["B", "A"], 2]], "winner": "A", "tot": 4, "outcome": [], "asn": "bp"},
        {"cands": ["A", "B"], "sigs": [[["A"], 3], [["B", "A"], 2]], "winner": "B", "tot": 5, "outcome": ["A", "B"], "asn": "cp"},
        # blank ballots and cards without the contest
        {"cands": ["A", "B", "C", "D"], "sigs": [[["A", "B", "C", "D"], 10], [["B", "A"], 6], [["C", "B", "A"], 5],
                                                 [["D", "C"], 4], [[], 3], [None, 2]],
         "winner": "A", "tot": 30, "outcome": ["D", "C", "B", "A"], "asn": "cp"},
        {"cands": ["A", "B", "C", "D"], "sigs": [[["A", "B", "C", "D"], 10], [["B", "A"], 6], [["C", "B", "A"], 5],
                                                 [["D", "C"], 4], [[], 3], [None, 2]],
         "winner": "A", "tot": 28, "outcome": ["A", "B", "C", "D"], "asn": "bp"},
        # first-round tie
        {"cands": ["A", "B", "C"], "sigs": [[["A"], 5], [["B", "A"], 2], [["C", "A"], 2]], "winner": "A", "tot": 9,
         "outcome": [], "asn": "cp"},
        # identifiers that are concatenations of one another (the numeric ids of the shipped .raire files): the tails
        # ['2','3'] and ['23'] differ although their joined texts agree
        {"cands": ["1", "2", "3", "23"], "sigs": [[["3", "1"], 13], [["2", "23", "3"], 12], [["23", "3", "1"], 5]],
         "winner": "3", "tot": 30, "outcome": [], "asn": "bp"},
        {"cands": ["1", "2", "3", "23"], "sigs": [[["3", "1"], 13], [["2", "23", "3"], 12], [["23", "3", "1"], 5]],
         "winner": "3", "tot": 30, "outcome": ["1", "23", "2", "3"], "asn": "cp", "ids": "int"},
        # a positive allowed gap (the contest of Props/C04.lean `CEx4`): with agap = 5 the search stops early and
        # returns a costlier (largest difficulty 10 instead of 7.5) but still sufficient set; with 0.5 it does not
        {"cands": ["0", "1", "2", "3"], "sigs": [[["0", "1", "2", "3"], 12], [["1", "2", "0"], 6], [["2", "3", "1"], 5],
                                                 [["3", "2", "1", "0"], 4], [["2", "0"], 3]],
         "winner": "2", "tot": 30, "outcome": [], "asn": "cp", "agap": 5.0},
        {"cands": ["0", "1", "2", "3"], "sigs": [[["0", "1", "2", "3"], 12], [["1", "2", "0"], 6], [["2", "3", "1"], 5],
                                                 [["3", "2", "1", "0"], 4], [["2", "0"], 3]],
         "winner": "2", "tot": 30, "outcome": [], "asn": "cp", "agap": 0.5, "log": True},
        {"cands": ["0", "1", "2", "3"], "sigs": [[["0", "1", "2", "3"], 12], [["1", "2", "0"], 6], [["2", "3", "1"], 5],
                                                 [["3", "2", "1", "0"], 4], [["2", "0"], 3]],
         "winner": "2", "tot": 30, "outcome": ["3", "1", "0", "2"], "asn": "bp", "log": True},
        # a contest of state-wide size whose optimum is decided by one vote in a margin of ~1.4e5: the order B,A,C is
        # contradicted by NEN(B>C | nobody eliminated) with margin M+1 (at the leaf) and by NEB(A>C) with margin M
        # (at its ancestor [A,C]); relative gap of the two difficulties 1/M < 1e-5
        _near_tie_witness(140000, "cp", ["C", "B", "A"]),
        _near_tie_witness(131071, "bp", []),
    ]


def _near_tie_witness(M, asn, hint):
    sigs = [[["A"], 2 * M + 1], [["A", "C"], 3], [["B"], 3], [["B", "C"], M + 1], [["C", "A"], 3]]
    return {"cands": ["A", "B", "C"], "sigs": sigs, "winner": "A", "tot": sum(n for _, n in sigs), "outcome": hint,
            "asn": asn}


def ballot_types(cands):
    out = [None, []]
    for k in range(1, len(cands) + 1):
        out += [list(p) for p in itertools.permutations(cands, k)]
    return out


def random_ranking(rng, cands):
    k = rng.choice([1, 1, 2, 2, 3, len(cands), len(cands)])
    k = min(k, len(cands))
    return rng.sample(cands, k)


def pick_hint(rng, cands, wb):
    u = rng.random()
    if u < 0.4:
        return []
    if u < 0.75:
        return irv_order(cands, wb, rng)
    p = list(cands)
    rng.shuffle(p)
    return p


def pick_tot(rng, sigs):
    ncards = sum(n for _, n in sigs)
    nb = sum(n for r, n in sigs if r is not None)
    return max(1, rng.choice([ncards, ncards, nb, ncards + rng.randint(1, 10)]))


def gen_exhaustive(rng, tier):
    for cands in (["A", "B"], ["A", "B", "C"]):
        types = ballot_types(cands)
        for k in range(1, 5):
            for combo in itertools.combinations_with_replacement(range(len(types)), k):
                sigs = []
                for i in sorted(set(combo)):
                    sigs.append([types[i], combo.count(i)])
                for w in cands:
                    if tier == "quick" and rng.random() < 0.5:
                        continue
                    wb = [(tuple(r), n) for r, n in sigs if r is not None]
                    yield {"cands": cands, "sigs": sigs, "winner": w, "tot": pick_tot(rng, sigs),
                           "outcome": pick_hint(rng, cands, wb), "asn": rng.choice(["cp", "bp"])}


# identifier styles.  The property quantifies over contests, not over how candidates are named: the result must not
# depend on the identifiers beyond equality.  "digits" is the style of the shipped .raire files ('1'..'11'); in the
# pools below one identifier is often the concatenation / a prefix / a suffix of others, so that any shortcut that
# compares joined, formatted or hashed-together identifiers instead of the identifiers themselves shows.
ID_POOLS = {
    "digits": ["1", "2", "3", "12", "21", "23", "32", "11", "13", "31", "22", "123", "231"],
    "affix": ["A", "B", "AB", "BA", "AA", "ABA", "BAB", "BB", "AAB"],
    "words": ["Ann", "Anna", "na", "An", "nAn", "Jo", "José", "sé", "Zoë", "Zo", "ë", "é"],
    "punct": ["a", "a,b", "b", "a b", " b", "(a", "a)", "a,", ",b"],
}


def pick_ids(rng, nc):
    """(cands, ids) -- ids is "int" when the implementation is to receive Python ints"""
    u = rng.random()
    if u < 0.5:
        cands = [chr(ord("A") + i) for i in range(nc)]
        if rng.chance(0.3):
            rng.shuffle(cands)
        return cands, None
    style = rng.choice(["digits", "digits", "digits", "affix", "words", "punct"])
    cands = rng.sample(ID_POOLS[style], nc)
    return cands, ("int" if style == "digits" and rng.chance(0.3) else None)


def with_options(rng, case):
    """optional arguments of compute_raire_assertions: `log=True` (1 case in 5) and a positive allowed gap `agap`
    (1 in 4): half of them on the scale of the case's own difficulties -- a multiple of the distance between the
    optimum and another value among the cheapest-true-assertion difficulties of the alternative orders, where the
    early exit has a chance to fire before the search is over -- the rest from 1e-9 to 1e4"""
    if rng.chance(0.2):
        case["log"] = True
    if rng.chance(0.15) and len(case["cands"]) >= 2:
        p = list(case["cands"])
        while p == list(case["cands"]):
            rng.shuffle(p)
        case["prior"] = p
    if rng.chance(0.25):
        g = None
        if rng.chance(0.6) and len(case["cands"]) <= 5:
            wb = ballots_of(case)
            asn = asn_of(case["asn"])
            ds = sorted({best_true_difficulty(case, wb, pi, asn) for pi in alt_orders(case["cands"], case["winner"])})
            ds = [d for d in ds if d != math.inf]
            if len(ds) >= 2:
                g = (ds[-1] - rng.choice(ds[:-1])) * rng.choice([0.5, 1.0, 1.0, 1.5, 3.0])
            elif ds:
                g = ds[-1] * rng.choice([0.1, 0.5, 1.0])
        if not g or not (g > 0) or g == math.inf:
            g = rng.choice([1e-9, 0.01, 0.1, 0.25, 0.5, 1.0, 1.5, 2.0, 3.0, 5.0, 10.0, 30.0, 100.0, 1e4,
                            round(rng.random() * 4, 3) or 0.5])
        case["agap"] = float(g)
    return case


def gen_random(rng):
    nc = rng.choice([2, 3, 3, 4, 4, 4, 5, 5, 5, 6, 6])
    cands, ids = pick_ids(rng, nc)
    nsig = rng.randint(1, min(12, 3 + 2 * nc))
    budget = rng.randint(1, 60)
    sigs = []
    style = rng.choice(["plain", "plain", "tie", "skew", "close"])
    for _ in range(nsig):
        r = random_ranking(rng, cands)
        if style == "skew":
            n = rng.choice([1, 1, 2, 3, 10, 20])
        elif style == "close":
            n = rng.choice([4, 5, 5, 6])
        else:
            n = rng.randint(1, 8)
        sigs.append([r, n])
        if style == "tie" and rng.chance(0.6) and len(cands) >= 2:
            # mirrored signature: swap two candidates, same weight -> tied tallies
            a, b = rng.sample(cands, 2)
            sw = {a: b, b: a}
            sigs.append([[sw.get(c, c) for c in r], n])
    if rng.chance(0.25):
        sigs.append([[], rng.randint(1, 4)])
    if rng.chance(0.25):
        sigs.append([None, rng.randint(1, 4)])
    # merge equal signatures, trim to the ballot budget
    merged = {}
    for r, n in sigs:
        key = None if r is None else tuple(r)
        merged[key] = merged.get(key, 0) + n
    sigs = []
    left = budget
    for key, n in merged.items():
        n = min(n, left)
        if n <= 0:
            break
        sigs.append([None if key is None else list(key), n])
        left -= n
    if rng.chance(0.15):
        # interior holes: positions of the line that carry no vote for a declared candidate (never the first position)
        for sg in sigs:
            if sg[0] and rng.chance(0.5):
                r = list(sg[0])
                for _ in range(rng.randint(1, 2)):
                    r.insert(rng.randint(1, len(r)), None)
                sg[0] = r
    wb = [(tuple(c for c in r if c is not None), n) for r, n in sigs if r is not None]
    true_order = irv_order(cands, wb, rng)
    u = rng.random()
    winner = true_order[-1] if u < 0.7 else rng.choice(cands)
    case = {"cands": cands, "sigs": sigs, "winner": winner, "tot": pick_tot(rng, sigs),
            "outcome": pick_hint(rng, cands, wb), "asn": rng.choice(["cp", "bp", "cp", "bp", "cp", "bp", "nm"])}
    if ids:
        case["ids"] = ids
    with_options(rng, case)
    return case


def small_tied_profile(rng, nc, directed):
    """a small profile (weights 1..6) in which two different assertions contradicting a binding order cost exactly
    the same, namely OPT (rejection sampling; such exact ties are common among small integers)"""
    cands = [chr(ord("A") + i) for i in range(nc)]
    for _ in range(4000):
        small = {}
        for _ in range(rng.randint(3, 3 + nc)):
            r = tuple(random_ranking(rng, cands))
            small[r] = small.get(r, 0) + rng.randint(1, 6)
        sigs = [[list(r), n] for r, n in small.items()]
        wb = [(r, n) for r, n in small.items()]
        winner = irv_order(cands, wb, rng)[-1]
        for asn in rng.sample(["cp", "bp"], 2):
            case = {"cands": cands, "sigs": sigs, "winner": winner, "tot": sum(small.values()), "asn": asn}
            if near_tie_at_optimum(case, 0, directed):
                return case
    return None


def gen_near_tie(rng, nc=3):
    """A contest of 10^5..10^6 cards whose least difficult audit is decided by a near-tie: some binding alternative
    order is contradicted by two different true assertions whose difficulties differ by less than 1e-5 relative
    (a vote or two in a margin of >= 10^5), the cheaper one being OPT.  Both shipped difficulty functions are ratios
    of vote counts, so no profile of a few hundred cards can hold such a pair.  Built by scaling a small profile with
    an exact tie at the optimum and moving a few single ballots; returns None when the attempt fails."""
    from fractions import Fraction
    directed = rng.chance(0.7)
    for _ in range(40):
        base = small_tied_profile(rng, nc, directed)
        if base is None:
            return None
        # scale: the binding margin must reach ~1e5 (cp: difficulty tot/m; bp: ~ tot*s/m^2, twice as sensitive)
        ex = exact_asn(base["asn"])
        opt = max(min(f + r) for _, f, r in order_families(base, ballots_of(base), ex))
        frac = float(1 / opt) if base["asn"] == "cp" else float(1 / opt) ** 0.5   # ~ binding margin / tot (bp: <=)
        target_m = rng.randint(105000, 150000) * (1 if base["asn"] == "cp" else 2)
        K = int(target_m / frac) // base["tot"] + 1
        if K * base["tot"] <= MAXCARDS:
            break
    else:
        return None
    rt = Fraction(1, 100000)
    cands = base["cands"]
    for _ in range(200):
        sigs = {tuple(r): n * K for r, n in base["sigs"]}
        for _ in range(rng.randint(1, 3)):
            r = tuple(rng.choice(list(sigs)) if rng.chance(0.6) else random_ranking(rng, cands))
            sigs[r] = max(0, sigs.get(r, 0) + rng.choice([-2, -1, 1, 1, 2]))
        case = {"cands": cands, "sigs": [[list(r), n] for r, n in sigs.items() if n > 0], "winner": base["winner"],
                "asn": base["asn"]}
        case["tot"] = ncards(case)
        if near_tie_at_optimum(case, rt, directed):
            case["outcome"] = pick_hint(rng, cands, ballots_of(case))
            return case
    return None


def gen(rng, n, tier):
    import hashlib
    from ..core import Rng
    opt = Rng(int(hashlib.sha1(("options" + repr(rng.getstate())).encode()).hexdigest()[:15], 16))
    main = list(gen_main(rng, n, tier))
    # call form the main stream never uses (OPTIONS_AUDIT.md): raire_utils.Contest(name, candidates, winner, total)
    # WITHOUT the `order` argument (no hint; the search then dives along the candidate list)
    more = []
    for _ in range(max(6, n // 20)):
        c = gen_random(opt)
        c["outcome"] = []
        c["call"] = "defaults"
        more.append(c)
    precompute(more)
    yield from main
    yield from more


def gen_main(rng, n, tier):
    cases = []
    ex = list(gen_exhaustive(rng, tier))
    cases += ex
    nrand = n          # the budget counts the random cases; the exhaustive part is always included
    for _ in range(nrand):
        cases.append(gen_random(rng))
    # the same profile under the other difficulty function / without hint (pairs exercise tie-breaking)
    extra = []
    for c in cases[len(ex):][: nrand // 5]:
        d = dict(c)
        d["asn"] = "bp" if c["asn"] == "cp" else "cp"      # (a case with the caller's own function gets cp)
        d["outcome"] = [] if c["outcome"] else irv_order(c["cands"], ballots_of(c), rng)
        extra.append(d)
    cases += extra
    # near-ties at the optimum in contests of 10^5..10^6 cards (seconds each on the implementation): a handful,
    # spread evenly over the list so that the driver's shards get one each
    nbig = min(64, max(8, n // 300))
    bigs = []
    for k in range(3 * nbig):
        if len(bigs) >= nbig:
            break
        c = gen_near_tie(rng, 4 if (tier == "thorough" and k % 8 == 7) else 3)
        if c is not None:
            bigs.append(c)
    step = max(1, len(cases) // (len(bigs) + 1))
    for k, c in enumerate(bigs):
        cases.insert(min(len(cases), (k + 1) * step + k), c)
    precompute(list(corpus()) + cases)
    yield from cases


# ---------------------------------------------------------------------------------------------
# oracles (brute force on the implementation's output; independent of the model)

def _oracle_c04(case, ir):
    if ir.get("st") != "ok":
        return {"what": f"compute_raire_assertions raised {ir.get('err')}: {ir.get('msg')}"}
    cands, winner = case["cands"], case["winner"]
    if len(cands) > 6:
        return None
    wb = ballots_of(case)
    res = ir["as"]
    if any(a is None for a in res):
        return {"what": "the returned list contains None"}
    for k, a in enumerate(res):
        if a["t"] == "NEB":
            W, L = tally_neb(wb, a["w"], a["l"])
        else:
            W, L = tally_nen(wb, a["w"], a["l"], a["e"])
        if (W, L) != (a["vw"], a["vl"]):
            return {"what": f"assertion {k} {a['t']}({a['w']},{a['l']},{a['e']}) reports tallies "
                            f"{a['vw']}/{a['vl']}, the CVRs give {W}/{L}"}
        if not W > L:
            return {"what": f"assertion {k} {a['t']}({a['w']},{a['l']},{a['e']}) is false on the CVRs: {W} vs {L}"}
    if res:
        for pi in alt_orders(cands, winner):
            if not any(contradicts(a, pi) for a in res):
                return {"what": f"elimination order {list(pi)} (winner {pi[-1]} != reported {winner}) is contradicted "
                                f"by none of the {len(res)} returned assertions"}
        return None
    # empty result: some alternative order must be contradicted by no true assertion
    asn = lambda w, l, o, t: 0.0  # difficulty irrelevant here
    for pi in alt_orders(cands, winner):
        if best_true_difficulty(case, wb, pi, asn) == math.inf:
            return None
    return {"what": "empty result although the true NEB/NEN assertions exclude every alternative winner"}


def _oracle_c15(case, ir):
    if ir.get("st") != "ok":
        return {"what": f"compute_raire_assertions raised {ir.get('err')}: {ir.get('msg')}"}
    cands, winner = case["cands"], case["winner"]
    res = ir["as"]
    if len(cands) > 6 or any(a is None for a in res):
        return None
    wb = ballots_of(case)
    asn = asn_of(case["asn"])
    if not res:
        # nothing returned = no alternative winner excluded: right only when no set of true assertions excludes them all
        worst_ = [(best_true_difficulty(case, wb, pi, asn), pi) for pi in alt_orders(cands, winner)]
        if worst_ and max(b for b, _ in worst_) < math.inf:
            o_, pi_ = max(worst_, key=lambda z: z[0])
            return {"what": f"no assertions returned although a set of true assertions excluding every alternative winner "
                            f"exists, with largest difficulty {o_!r} (hardest alternative order {list(pi_)})"}
        return None
    # OPT = min over sufficient sets of the max difficulty = max over alternative orders of the cheapest
    # true assertion contradicting it (= the smallest threshold d whose sub-family covers every order)
    opt, worst = -math.inf, None
    for pi in alt_orders(cands, winner):
        b = best_true_difficulty(case, wb, pi, asn)
        if b > opt:
            opt, worst = b, pi
    got = max(a["d"] for a in res)
    if opt == math.inf:
        return None  # no audit possible: C04's business
    if case.get("agap"):
        # C15 is stated for zero allowed gap.  With agap > 0 the code stops once (largest estimate on the frontier) -
        # (lower bound) <= agap; the largest returned difficulty then exceeds the optimum by at most agap
        # (Lean: C15.raire_near_optimal_gap), and can never be below it
        g = float(case["agap"])
        if got > opt + g + TOL * max(1.0, abs(opt)) or got < opt - TOL * max(1.0, abs(opt)):
            return {"what": f"agap={g!r}: largest difficulty returned {got!r}, least possible {opt!r}: not within "
                            f"[opt, opt + agap] (hardest alternative order {list(worst)})"}
        return None
    if abs(got - opt) > TOL * max(1.0, abs(opt)):
        return {"what": f"largest difficulty returned {got!r}, least possible {opt!r} "
                        f"(hardest alternative order {list(worst)})"}
    # the same statement in exact arithmetic.  Both shipped difficulty functions are ratios of integers (vote counts),
    # so the difficulty of each returned assertion (recounted from the CVRs, not taken from its attributes) and the
    # min-max optimum are computed as exact fractions.  Two different difficulties can lie closer than any float
    # tolerance suited to small contests (one vote in a margin of 10^5 is a relative 1e-5), and picking the harder one
    # is exactly what the property forbids.  A relative 1e-12 is allowed because the implementation orders difficulties
    # as IEEE doubles: exact values closer than that need not be told apart (their float images carry a relative
    # error of up to ~1e-16 * tot/margin).
    ex = exact_asn(case["asn"])
    tot = case["tot"]
    opt_x, worst = None, None
    for pi in alt_orders(cands, winner):
        b = best_true_difficulty(case, wb, pi, ex)
        if opt_x is None or b > opt_x:
            opt_x, worst = b, pi
    got_x = None
    for a in res:
        W, L = tally_neb(wb, a["w"], a["l"]) if a["t"] == "NEB" else tally_nen(wb, a["w"], a["l"], a["e"])
        if not W > L:
            return None     # a false assertion: C04's business
        d = ex(W, L, tot - (W + L), tot)
        if got_x is None or d > got_x:
            got_x, hardest = d, a
    if got_x != opt_x and abs(got_x - opt_x) > abs(opt_x) / 10 ** 12:
        return {"what": f"the hardest returned assertion {hardest['t']}({hardest['w']},{hardest['l']},{hardest['e']}) "
                        f"has difficulty {got_x} = {float(got_x)!r}; the least difficult sufficient set of true "
                        f"assertions has largest difficulty {opt_x} = {float(opt_x)!r} (hardest alternative order "
                        f"{list(worst)}); relative excess {float(got_x / opt_x - 1):.3e}"}
    return None


ORACLES = {"C04": _cached_oracle("C04", _oracle_c04), "C15": _cached_oracle("C15", _oracle_c15)}
