"""
Correspondence group `dominion`: shangrla.formats.Dominion.Dominion.read_cvrs / read_cvrs_directory
vs. Shangrla.Dominion.readCvrs / readCvrsDirectory  (property C19).

A case holds the *literal* export (the dicts that are dumped to a real JSON file, key order included),
the call options, and `meta`: for every session the record number the generator put into the session
(directly or hidden in the image mask), used by the oracle only.
"""
import copy, json, os, random, shutil, tempfile, itertools
from ..core import case_key

NAME = "dominion"
RULE = ("random Dominion exports serialised to real JSON files and read by the real Dominion.read_cvrs "
        "(20% through read_cvrs_directory with several CvrExport_*.json files and decoy files): 0-6 sessions; both "
        "layouts (flat 'Contests' / 'Cards', sometimes both keys); session keys in random order incl. 'Modified' "
        "before 'Original'; sessions with only Original / only Modified / neither; obfuscated RecordId 'X' with image "
        "masks (match, no match, several matches, over-long digit runs, empty number); ids as ints or strings with "
        "str() collisions; repeated candidates with several ranks, rank 0, a few negative ranks, IsVote false; contests "
        "repeated across cards and blocks; include_groups / pool_groups as list, tuple or set; "
        "non-trivial = at least one record returned that holds at least one stored mark; distinct = distinct canonical case")
EXHAUSTIVE = {"quick": False, "thorough": False}
RULE += "; option stream (n/8 more cases, own generator, OPTIONS_AUDIT.md): the four reader options by keyword, and left out of the call where they hold their documented defaults"

_TMP = None
_CNT = itertools.count()


def _tmpdir():
    global _TMP
    if _TMP is None or not os.path.isdir(_TMP):
        _TMP = tempfile.mkdtemp(prefix="verif-dominion-")
        import atexit
        atexit.register(shutil.rmtree, _TMP, True)
    return _TMP


# ------------------------------------------------------------------------------------------------
# fixtures of the repo's own test-suite, as literal exports

def _mark(cand, rank, isvote, **extra):
    d = {"CandidateId": cand, "PartyId": 0, "Rank": rank, "MarkDensity": 85, "IsAmbiguous": False, "IsVote": isvote}
    d.update(extra)
    return d


def corpus():
    mask = "E:\\NAS\\GENERAL ELECTION\\Results\\Tabulator60009\\Batch003\\Images\\60009_00003_000021*.*"
    s_old = {"TabulatorId": 60009, "BatchId": 3, "RecordId": 21, "CountingGroupId": 2, "ImageMask": mask,
             "Original": {"PrecinctPortionId": 456, "BallotTypeId": 2, "IsCurrent": False, "Contests": [
                 {"Id": 111, "Marks": [_mark(6, 1, True)]},
                 {"Id": 122, "Marks": [_mark(9, 1, True), _mark(48, 2, False)]}]},
             "Modified": {"PrecinctPortionId": 456, "BallotTypeId": 2, "IsCurrent": True, "Contests": [
                 {"Id": 111, "Marks": [_mark(6, 1, True)]},
                 {"Id": 122, "Marks": [_mark(9, 1, True)]}]}}
    s_x = {"TabulatorId": 1, "BatchId": 5, "RecordId": "X", "CountingGroupId": 2,
           "ImageMask": "D:\\GENERAL ELECTION\\Results\\Tabulator01\\Batch005\\Images\\00001_00005_000119*.*",
           "SessionType": "ScannedVote",
           "Original": {"IsCurrent": False, "Cards": [{"Id": 23456, "PaperIndex": 1, "Contests": [
               {"Id": 1, "Marks": [_mark(6, 1, True)]}], "OutstackConditionIds": []}]},
           "Modified": {"IsCurrent": True, "Cards": [{"Id": 23456, "PaperIndex": 1, "Contests": [
               {"Id": 1, "Marks": []}], "OutstackConditionIds": []}]}}
    # F18 witness: adjudicated data listed first
    s_f18 = {"TabulatorId": 7, "BatchId": 1, "RecordId": 4, "CountingGroupId": 1, "ImageMask": "",
             "Modified": {"Contests": [{"Id": 1, "Marks": [_mark(2, 1, True)]}]},
             "Original": {"Contests": [{"Id": 1, "Marks": [_mark(1, 1, True)]}, {"Id": 2, "Marks": [_mark(5, 1, True)]}]}}
    # repeated candidate: ranks 3, 0, 2 and an uncounted rank 1
    s_min = {"TabulatorId": 2, "BatchId": 2, "RecordId": 9, "CountingGroupId": 3, "ImageMask": "",
             "Original": {"Contests": [{"Id": "A", "Marks": [_mark(1, 3, True), _mark(1, 0, True), _mark(1, 2, True),
                                                             _mark(1, 1, False), _mark(2, 0, True), _mark("2", 4, True)]}]}}
    s_empty_num = {"TabulatorId": 1, "BatchId": 1, "RecordId": "X", "CountingGroupId": 1,
                   "ImageMask": "Images\\00001_00001_*.*", "Original": {"Contests": []}}
    out = []
    for uc in (True, False):
        for er in (True, False):
            out.append(dict(op="read", use_current=uc, enforce_rules=er, include_groups=[], include_kind="list",
                            pool_groups=[2], pool_kind="list",
                            files=[["x.json", {"Version": "5", "ElectionId": "t", "Sessions": [s_old, s_x, s_f18, s_min]}]],
                            decoys=[], meta=[["21", "119", "4", "9"]]))
    out.append(dict(op="read", use_current=True, enforce_rules=True, include_groups=[2], include_kind="tuple",
                    pool_groups=[], pool_kind="list",
                    files=[["x.json", {"Sessions": [s_old, s_x, s_f18, s_min]}]], decoys=[], meta=[["21", "119", "4", "9"]]))
    out.append(dict(op="read", use_current=True, enforce_rules=True, include_groups=[], include_kind="list",
                    pool_groups=[], pool_kind="list",
                    files=[["x.json", {"Sessions": [s_min, s_empty_num]}]], decoys=[], meta=[["9", None]]))
    out.append(dict(op="dir", use_current=True, enforce_rules=True, include_groups=[], include_kind="list",
                    pool_groups=[2], pool_kind="set",
                    files=[["CvrExport_10.json", {"Sessions": [s_old]}], ["CvrExport_2.json", {"Sessions": [s_x, s_min]}]],
                    decoys=["Other_1.json", "CvrExport_3.txt"], meta=[["21"], ["119", "9"]]))
    return out


# ------------------------------------------------------------------------------------------------
# generator

def _shuffled_dict(rng, d, p=0.5):
    ks = list(d.keys())
    if rng.chance(p):
        rng.shuffle(ks)
    return {k: d[k] for k in ks}


def gen_marks(rng, cands):
    n = rng.choice([0, 1, 1, 2, 2, 3, 3, 4, 5, 7])
    marks = []
    for _ in range(n):
        cand = rng.choice(cands)
        u = rng.random()
        if u < 0.015:
            rank = rng.choice([-1, -2, -7])
        elif u < 0.03:
            rank = rng.choice([10 ** 12, 2 ** 70, 99])
        else:
            rank = rng.choice([1, 1, 1, 2, 2, 3, 3, 4, 5, 0, 0])
        m = _mark(cand, rank, rng.chance(0.7), MarkDensity=rng.randint(0, 100))
        if rng.chance(0.2):
            m["OutstackConditionIds"] = []
        marks.append(_shuffled_dict(rng, m, 0.3))
    return marks


def gen_contest(rng, cid):
    pool = rng.choice([[1, 2], [1, 2, 3], [5, 6, "5"], ["w", 7, 8, 9], [1]])
    con = {"Id": cid, "Marks": gen_marks(rng, pool)}
    if rng.chance(0.3):
        con.update({"Undervotes": 0, "Overvotes": 0, "OutstackConditionIds": []})
    return _shuffled_dict(rng, con, 0.3)


def gen_contests(rng, ids):
    n = rng.choice([0, 1, 1, 2, 2, 2, 3])
    return [gen_contest(rng, rng.choice(ids)) for _ in range(n)]


def gen_block(rng, ids, layout, is_current):
    b = {"PrecinctPortionId": rng.randint(1, 500), "BallotTypeId": rng.randint(1, 9), "IsCurrent": is_current}
    if layout == "flat":
        b["Contests"] = gen_contests(rng, ids) + (gen_contests(rng, ids) if rng.chance(0.3) else [])
    else:
        cards = []
        for _ in range(rng.choice([0, 1, 1, 2, 3])):
            cards.append(_shuffled_dict(rng, {"Id": rng.randint(1, 99999), "PaperIndex": len(cards),
                                              "Contests": gen_contests(rng, ids), "OutstackConditionIds": []}, 0.3))
        b["Cards"] = cards
        if rng.chance(0.08):
            b["Contests"] = gen_contests(rng, ids)  # both keys present: "Cards" is used
    return _shuffled_dict(rng, b, 0.4)


def adjudicate(rng, block, ids):
    """a Modified block derived from an Original one: same structure, some contests re-marked / dropped / added"""
    b = copy.deepcopy(block)
    lists = [c["Contests"] for c in b["Cards"]] if "Cards" in b else [b["Contests"]]
    for l in lists:
        for i in range(len(l) - 1, -1, -1):
            u = rng.random()
            if u < 0.45:
                l[i] = gen_contest(rng, l[i]["Id"])
            elif u < 0.6:
                del l[i]
        if rng.chance(0.2):
            l.append(gen_contest(rng, rng.choice(ids)))
    b["IsCurrent"] = True
    return b


def vary_is_current(rng, s):
    """the exports carry an `IsCurrent` flag on every block; the importer chooses between the blocks by the
    `use_current` argument alone, so the flag may say anything (true, false, null) or be missing"""
    for k in ("Original", "Modified"):
        if k in s and rng.chance(0.35):
            u = rng.random()
            if u < 0.25:
                s[k].pop("IsCurrent", None)
            else:
                s[k]["IsCurrent"] = rng.choice([False, False, None, True])


def gen_record_id(rng, tab, batch):
    """returns (RecordId, ImageMask or None, expected record string or None when int('') must fail)"""
    n = rng.choice([rng.randint(0, 9), rng.randint(10, 99999), rng.randint(10 ** 5, 10 ** 7)])
    t5 = f"{rng.randint(0, 99999):05d}"
    b5 = f"{rng.randint(0, 99999):05d}"
    num = rng.choice([str(n), f"{n:06d}", f"{n:06d}"])
    pre = rng.choice(["D:\\GENERAL ELECTION\\Results\\Tabulator01\\Batch002\\Images\\", "E:\\NAS\\Tabulator60001\\Batch001\\Images\\",
                      "", "img/", "Tabulator12345\\Batch_001\\", "1234_12345_1\\", "12345_1234_5\\x"])
    good = pre + t5 + "_" + b5 + "_" + num + "*.*"
    u = rng.random()
    if u < 0.5:
        return n, (good if rng.chance(0.9) else None), str(n)
    if u < 0.78:
        return "X", good, str(int(num))
    if u < 0.83:      # two matches: the leftmost one is used
        return "X", good + "\\" + b5 + "_" + t5 + "_77", str(int(num))
    if u < 0.88:      # a run of more than five digits: the match starts inside the run
        return "X", pre + "9" + t5 + "_" + b5 + "_" + num + ".tif", str(int(num))
    if u < 0.93:      # no match: the id keeps "X"
        return "X", rng.choice(["", "Images\\1_2_3*.*", "0001_00002_000003", "00001-00002-000003", "00001_0002_000003",
                                "abcde_00002_000003"]), "X"
    if u < 0.95:      # number missing after the second underscore: int('') raises ValueError
        return "X", pre + t5 + "_" + b5 + "_" + rng.choice(["*.*", "", "x12"]), None
    s = rng.choice(["x", "X1", "17", " X", "007"])
    return s, good, s


def gen_session(rng, ids):
    tab = rng.choice([1, 2, 60001, rng.randint(1, 99999), "T1", -3])
    batch = rng.choice([1, 2, 3, rng.randint(1, 999), "B", 0])
    rid, mask, expect = gen_record_id(rng, tab, batch)
    s = {"TabulatorId": tab, "BatchId": batch, "RecordId": rid, "CountingGroupId": rng.choice([1, 1, 2, 2, 3, "2"])}
    if mask is not None:
        s["ImageMask"] = mask
    if rng.chance(0.4):
        s.update({"SessionType": "ScannedVote", "VotingSessionIdentifier": ""})
    layout = rng.choice(["flat", "cards"])
    u = rng.random()
    if u < 0.35:
        s["Original"] = gen_block(rng, ids, layout, True)
    elif u < 0.85:
        orig = gen_block(rng, ids, layout, False)
        mod = adjudicate(rng, orig, ids) if rng.chance(0.7) else gen_block(rng, ids, rng.choice(["flat", "cards"]), True)
        if rng.chance(0.5):
            s["Original"] = orig; s["Modified"] = mod
        else:
            s["Modified"] = mod; s["Original"] = orig
    elif u < 0.93:
        s["Modified"] = gen_block(rng, ids, layout, True)
    # else: neither
    vary_is_current(rng, s)
    return _shuffled_dict(rng, s, 0.5), expect


def gen_groups(rng):
    kind = rng.choice(["list", "list", "tuple", "set"])
    if rng.chance(0.4):
        return [], kind
    g = [x for x in [1, 2, 3, "2", 9] if rng.chance(0.55)]
    if kind != "set" and g and rng.chance(0.2):
        g.append(g[0])
    rng.shuffle(g)
    return g, kind


def gen_export(rng):
    ids = rng.choice([[1, 2, 3], [111, 122], [1, "1", 2], ["A", "B", 7]])
    sess, meta = [], []
    for _ in range(rng.choice([0] + [1, 1, 2, 2, 2, 3, 3, 4, 6] * 3)):
        s, e = gen_session(rng, ids)
        sess.append(s); meta.append(e)
    ex = {"Version": rng.choice(["5.2.18.2", "5.10.50.85"]), "ElectionId": "test", "Sessions": sess}
    return _shuffled_dict(rng, ex, 0.3), meta


def gen(rng, n, tier):
    import hashlib
    from ..core import Rng
    opt = Rng(int(hashlib.sha1(("options" + repr(rng.getstate())).encode()).hexdigest()[:15], 16))
    yield from gen_main(rng, n, tier)
    # call forms the main stream never uses (OPTIONS_AUDIT.md): the four options by keyword, and options that hold their
    # documented defaults left out of the call altogether (a reader called as read_cvrs(file) reads current data,
    # enforces the rules, includes every group and pools none)
    for c in gen_main(opt, max(8, n // 8), tier):
        r = opt.random()
        if r < 0.75:
            c["call"] = "defaults"
            for k, dv in (("use_current", True), ("enforce_rules", True), ("include_groups", []), ("pool_groups", [])):
                if opt.chance(0.55):
                    c[k] = dv
        else:
            c["call"] = "kw"
        yield c


def gen_main(rng, n, tier):
    for i in range(n):
        ig, ik = gen_groups(rng)
        pg, pk = gen_groups(rng)
        case = dict(op="read", use_current=rng.chance(0.65), enforce_rules=rng.chance(0.6),
                    include_groups=ig, include_kind=ik, pool_groups=pg, pool_kind=pk)
        if rng.chance(0.2):
            case["op"] = "dir"
            tags = rng.sample(["0", "1", "2", "10", "11", "3", "a", "B", "_x", "1.2"], rng.choice([0, 1, 2, 2, 2, 3, 3]))
            files, meta = [], []
            for t in tags:
                ex, m = gen_export(rng)
                files.append([f"CvrExport_{t}.json", ex]); meta.append(m)
            case["files"], case["meta"] = files, meta
            case["decoys"] = [d for d in ["Other_1.json", "CvrExport_3.txt", "cvrexport_4.json", "XCvrExport_5.json"] if rng.chance(0.4)]
        else:
            ex, m = gen_export(rng)
            case["files"], case["meta"], case["decoys"] = [["export.json", ex]], [m], []
        if rng.chance(0.15):
            case["replaced"] = True
        yield case


# ------------------------------------------------------------------------------------------------
# implementation

def _coll(vals, kind):
    return list(vals) if kind == "list" else tuple(vals) if kind == "tuple" else set(vals)


def _canon_val(v):
    if type(v) is int:
        return v
    return {"not-int": repr(v)}


def _canon_recs(cvrs):
    recs = []
    for c in cvrs:
        recs.append({"id": c.id if type(c.id) is str else {"not-str": repr(c.id)},
                     "tally_pool": c.tally_pool if type(c.tally_pool) is str else {"not-str": repr(c.tally_pool)},
                     "pool": c.pool if type(c.pool) is bool else {"not-bool": repr(c.pool)},
                     "votes": [[k, [[ck, _canon_val(v)] for ck, v in cv.items()]] for k, cv in c.votes.items()]})
    return recs


def impl(case):
    from shangrla.formats.Dominion import Dominion
    d = os.path.join(_tmpdir(), f"c{next(_CNT)}")
    os.mkdir(d)
    try:
        inc = _coll(case["include_groups"], case["include_kind"])
        pool = _coll(case["pool_groups"], case["pool_kind"])
        for name, ex in case["files"]:
            with open(os.path.join(d, name), "w") as f:
                json.dump(ex, f)
        decoy = {"Sessions": [{"TabulatorId": 999, "BatchId": 999, "RecordId": 999, "CountingGroupId": 1,
                               "Original": {"Contests": []}}]}
        for name in case.get("decoys", []):
            with open(os.path.join(d, name), "w") as f:
                json.dump(decoy, f)
        if case.get("replaced"):
            # the export at this path REPLACES an earlier one of the same byte length that was imported before in the same
            # process, and carries the earlier file's timestamps (restored with cp -p / rsync -t / an archive): an import
            # reflects the file as it is now.  The earlier export = this one with the digits of its ranks changed.
            import re
            for name, ex in case["files"]:
                path = os.path.join(d, name)
                text = json.dumps(ex)
                old_text = re.sub(r'("Rank": )(\d)', lambda m: m.group(1) + str((int(m.group(2)) + 1) % 10 or 1), text)
                if old_text != text and len(old_text) == len(text):
                    with open(path, "w") as f:
                        f.write(old_text)
                    st = os.stat(path)
                    try:
                        Dominion.read_cvrs(path, case["use_current"], case["enforce_rules"], inc, pool)
                    except Exception:  # noqa
                        pass
                    with open(path, "w") as f:
                        f.write(text)
                    os.utime(path, ns=(st.st_atime_ns, st.st_mtime_ns))
        path = os.path.join(d, case["files"][0][0]) if case["op"] == "read" else d
        fn = Dominion.read_cvrs if case["op"] == "read" else Dominion.read_cvrs_directory
        call = case.get("call", "pos")
        if call == "pos":
            cvrs = fn(path, case["use_current"], case["enforce_rules"], inc, pool)
        else:
            # the options by keyword; `defaults`: an option whose value is the documented default (use_current=True,
            # enforce_rules=True, no include groups, no pool groups) is LEFT OUT of the call
            kw = {"use_current": case["use_current"], "enforce_rules": case["enforce_rules"],
                  "include_groups": inc, "pool_groups": pool}
            if call == "defaults":
                for k, dv in (("use_current", True), ("enforce_rules", True)):
                    if kw[k] is dv:
                        del kw[k]
                for k in ("include_groups", "pool_groups"):
                    if len(kw[k]) == 0:
                        del kw[k]
            cvrs = fn(path, **kw)
        return {"st": "ok", "recs": _canon_recs(cvrs)}
    finally:
        shutil.rmtree(d, ignore_errors=True)


# ------------------------------------------------------------------------------------------------
# abstraction of the literal export for the model driver

def _abs_contest(con):
    return {"id": con["Id"], "marks": [[m["CandidateId"], m["Rank"], m["IsVote"]] for m in con["Marks"]]}


def _abs_block(b):
    if "Cards" in b:
        return {"cards": [[_abs_contest(c) for c in card["Contests"]] for card in b["Cards"]]}
    return {"flat": [_abs_contest(c) for c in b["Contests"]]}


def _abs_session(s):
    return {"tab": s["TabulatorId"], "batch": s["BatchId"], "rec": s["RecordId"], "group": s["CountingGroupId"],
            "mask": s.get("ImageMask", ""),
            "blocks": [[k, _abs_block(s[k])] for k in s.keys() if k in ("Original", "Modified")]}


def request(case):
    opts = {"use_current": case["use_current"], "enforce_rules": case["enforce_rules"],
            "include_groups": case["include_groups"], "pool_groups": case["pool_groups"]}
    if case["op"] == "read":
        return ("dominion", "read", {"opts": opts, "sessions": [_abs_session(s) for s in case["files"][0][1]["Sessions"]]})
    files = sorted(case["files"], key=lambda f: f[0])
    return ("dominion", "dir", {"opts": opts, "files": [[_abs_session(s) for s in ex["Sessions"]] for _, ex in files]})


def compare(case, ir, mr):
    if ir.get("st") != mr.get("st"):
        return f"status differs: impl={ir.get('st')}/{ir.get('err')} model={mr.get('st')}/{mr.get('err')}"
    if ir["st"] == "err":
        return None if ir["err"] == mr["err"] else f"error kind differs: {ir['err']} vs {mr['err']}"
    a, b = ir["recs"], mr["recs"]
    if len(a) != len(b):
        return f"number of records differs: impl {len(a)} model {len(b)}"
    for i, (x, y) in enumerate(zip(a, b)):
        for k in ("id", "tally_pool", "pool", "votes"):
            if x[k] != y[k]:
                return f"record {i}: {k} differs: impl {x[k]!r} model {y[k]!r}"
    return None


def _sessions(case):
    return [s for _, ex in sorted(case["files"], key=lambda f: f[0]) for s in ex["Sessions"]]


def _contests(b):
    if "Cards" in b:
        return [c for card in b["Cards"] for c in card["Contests"]]
    return b["Contests"]


def signature(case, ir):
    """branch tag computed from the sessions that are kept and the blocks that are read"""
    if ir.get("st") != "ok":
        return "err:" + str(ir.get("err"))
    if not any(cv for r in ir["recs"] for _, cv in r["votes"]):
        return "trivial:no-stored-mark"
    inc, uc, er = case["include_groups"], case["use_current"], case["enforce_rules"]
    ss = [s for s in _sessions(case) if not inc or s["CountingGroupId"] in inc]
    mod, rules = "none", set()
    for s in ss:
        ks = [k for k in s if k in ("Original", "Modified")]
        if uc and ks == ["Modified", "Original"]:
            mod = "before"
        elif uc and ks == ["Original", "Modified"] and mod == "none":
            mod = "after"
        for k in (("Original", "Modified") if uc else ("Original",)):
            if k not in s:
                continue
            for con in _contests(s[k]):
                per = {}
                for m in con["Marks"]:
                    if m["IsVote"] or not er:
                        per.setdefault(str(m["CandidateId"]), []).append(m["Rank"])
                    elif er:
                        rules.add("uncounted")
                for ranks in per.values():
                    if ranks[0] == 0 and any(ranks[1:]):
                        rules.add("zero-then-rank")
                    if 0 in ranks[1:]:
                        rules.add("later-zero")
                    if len([r for r in ranks if r]) > 1:
                        rules.add("min")
    rule = next((r for r in ("zero-then-rank", "later-zero", "min", "uncounted") if r in rules), "single")
    return f"{case['op']};modified={mod};rule={rule}"


# ------------------------------------------------------------------------------------------------
# oracle: the property evaluated on the implementation, written from the property text (not from the model)

def _votes_as_map(rec):
    return {k: {ck: v for ck, v in cv} for k, cv in rec["votes"]}


def _as_maps(ir):
    return [dict(id=r["id"], tally_pool=r["tally_pool"], pool=r["pool"], votes=_votes_as_map(r)) for r in ir["recs"]]


def _expected_contest(con, enforce):
    """candidate -> least positive rank among counted marks (first counted rank if none is positive);
    None where a counted rank is negative (not a rank: outside the property)"""
    per = {}
    for m in con["Marks"]:
        if m["IsVote"] or not enforce:
            per.setdefault(str(m["CandidateId"]), []).append(m["Rank"])
    out = {}
    for cand, ranks in per.items():
        if any(r < 0 for r in ranks):
            out[cand] = None
        else:
            pos = [r for r in ranks if r > 0]
            out[cand] = min(pos) if pos else ranks[0]
    return out


def _matches(observed, expected):
    if set(observed.keys()) != set(expected.keys()):
        return False
    return all(expected[k] is None or (type(observed[k]) is int and observed[k] == expected[k]) for k in expected)


def _variant(case, f):
    c = copy.deepcopy(case)
    for _, ex in c["files"]:
        ex["Sessions"] = [f(s) for s in ex["Sessions"]]
    return c


def _map_contests(s, g):
    for k in ("Original", "Modified"):
        if k in s:
            b = s[k]
            if "Cards" in b:
                for card in b["Cards"]:
                    card["Contests"] = [g(c) for c in card["Contests"]]
            if "Contests" in b:
                b["Contests"] = [g(c) for c in b["Contests"]]
    return s


def oracle_c19(case, ir):
    from ..core import impl_call
    sess = _sessions(case)
    meta = [e for _, m in sorted(zip([f[0] for f in case["files"]], case["meta"]), key=lambda t: t[0]) for e in m]
    inc, pool = case["include_groups"], case["pool_groups"]
    kept = [(s, e) for s, e in zip(sess, meta) if not inc or s["CountingGroupId"] in inc]
    if ir.get("st") != "ok":
        if ir.get("err") == "ValueError" and any(e is None for _, e in kept):
            return None   # an included session hides *no* record number in its image mask: nothing to derive the id from
        return {"what": f"import raised {ir.get('err')}: {ir.get('msg')}"}
    if any(e is None for _, e in kept):
        return None       # as above, if the code chose to tolerate it
    recs = _as_maps(ir)
    # one record per session of the included counting groups, in file order
    if len(recs) != len(kept):
        return {"what": f"{len(recs)} records for {len(kept)} sessions of the included groups {inc}"}
    uc, er = case["use_current"], case["enforce_rules"]
    for i, ((s, e), r) in enumerate(zip(kept, recs)):
        tp = f"{s['TabulatorId']}-{s['BatchId']}"
        if r["tally_pool"] != tp or r["id"] != f"{tp}-{e}":
            return {"what": f"record {i}: id {r['id']!r} / tally_pool {r['tally_pool']!r}, session is tabulator "
                            f"{s['TabulatorId']!r} batch {s['BatchId']!r} record {e!r}"}
        if r["pool"] is not (s["CountingGroupId"] in pool):
            return {"what": f"record {i} ({r['id']}): pool={r['pool']} but counting group {s['CountingGroupId']!r} "
                            f"{'is' if s['CountingGroupId'] in pool else 'is not'} in pool_groups {pool}"}
        orig = _contests(s["Original"]) if "Original" in s else []
        mod = _contests(s["Modified"]) if (uc and "Modified" in s) else []
        mod_ids = {str(c["Id"]) for c in mod}
        all_ids = {str(c["Id"]) for c in orig} | mod_ids
        if set(r["votes"].keys()) != all_ids:
            return {"what": f"record {i} ({r['id']}): contests {sorted(r['votes'])} recorded, data cover {sorted(all_ids)}"}
        for cid in all_ids:
            src, which = (mod, "adjudicated") if cid in mod_ids else (orig, "original")
            cands = [_expected_contest(c, er) for c in src if str(c["Id"]) == cid]
            if not any(_matches(r["votes"][cid], x) for x in cands):
                return {"what": f"record {i} ({r['id']}) contest {cid}: recorded {r['votes'][cid]}, the {which} marks give "
                                f"{cands if len(cands) > 1 else cands[0]} (least positive counted rank per candidate; "
                                f"use_current={uc}, enforce_rules={er})"}
    # ---- metamorphic relations on the implementation
    rnd = random.Random(int(case_key(case)[:12], 16))

    def shuffle_marks(s):
        def g(con):
            ms = list(con["Marks"]); rnd.shuffle(ms)
            con = dict(con); con["Marks"] = ms
            return con
        return _map_contests(s, g)

    def shuffle_keys(s):
        ks = list(s.keys())
        if rnd.random() < 0.5:
            ks.reverse()
        else:
            rnd.shuffle(ks)
        return {k: s[k] for k in ks}

    def drop_uncounted(s):
        def g(con):
            con = dict(con); con["Marks"] = [m for m in con["Marks"] if m["IsVote"]]
            return con
        return _map_contests(s, g)

    def all_counted(s):
        def g(con):
            con = dict(con); con["Marks"] = [dict(m, IsVote=True) for m in con["Marks"]]
            return con
        return _map_contests(s, g)

    checks = [("the marks of every contest are permuted", _variant(case, shuffle_marks)),
              ("the keys of every session are permuted", _variant(case, shuffle_keys))]
    if er:
        checks.append(("rules are enforced and the uncounted marks are deleted", _variant(case, drop_uncounted)))
    else:
        v = _variant(case, all_counted)
        checks.append(("rules are not enforced and every mark is flagged as a vote", v))
        checks.append(("every mark is flagged as a vote and rules are switched on", dict(v, enforce_rules=True)))
    for what, c2 in checks:
        ir2 = impl_call(impl, c2)
        if ir2.get("st") != "ok":
            return {"what": f"import raises {ir2.get('err')} when {what}"}
        if _as_maps(ir2) != recs:
            j = next((j for j, (a, b) in enumerate(zip(_as_maps(ir2), recs)) if a != b), None)
            return {"what": f"result changes when {what}: record {j}: {_as_maps(ir2)[j] if j is not None else len(ir2['recs'])} "
                            f"vs {recs[j] if j is not None else len(recs)}"}
    return None


ORACLES = {"C19": oracle_c19}
