"""
Correspondence group `nmrisk` (property C01): exact risk by enumeration.

Finite N: for a null population (values in [0,u], mean <= t) run the REAL test on every distinct
arrangement of the population (all equally likely under a uniformly random order) and record the least
reported p-value (history entries and overall value).  IID (N = inf): every sequence of length n over a
k-point null law, with its probability.  The Lean driver does the same enumeration on the model.
Oracle: for every alpha equal to an attained value (< 1) and for a grid, P(min p <= alpha) <= alpha.
"""
import hashlib, itertools, json, math
from fractions import Fraction as F
import numpy as np

from ..core import fr, num_close, impl_call, Rng
from . import nm as NMG

NAME = "nmrisk"
RULE = ("null populations of size 3..6 (thorough: ..7) on a k/4*u grid with total <= N*t, including the boundary "
        "total = N*t, x all-zero and two-point populations; IID: 2-3 point null laws with rational weights, horizons "
        "2..5; all tests x shipped estimators/bets in documented ranges; additional streams (n/4 more cases, own "
        "generator): upper bounds below 1 (3/4, 7/8, 5/8, 1/2; half of them the SPRT with an alternative next to u), "
        "aGRAPA started from initial bets far above 1/t or negative (5/2 .. 10^6, -1/2, -3: aGRAPA clips every bet, its "
        "initial bet is free); every distinct arrangement / sequence is run "
        "on the real code; non-trivial = some arrangement attains a p-value < 1; distinct = distinct canonical input")
EXHAUSTIVE = {"quick": False, "thorough": False}

S = NMG.S


def arrangements(pop):
    pop = sorted(pop)
    if not pop:
        yield []
        return
    seen = set()
    for i, a in enumerate(pop):
        if a in seen:
            continue
        seen.add(a)
        rest = pop[:i] + pop[i + 1:]
        for r in arrangements(rest):
            yield [a] + r


def corpus():
    def c(test, pop, N, t="1/2", u="1", estim=None, bet=None, **kw):
        return {"kind": "finite", "init": {"test": test, "estim": estim, "bet": bet, "u": u, "N": N, "t": t, "ro": True,
                                            "kw": kw, "u_now": None}, "pop": pop}
    return [
        # the design's witness: ALPHA, default estimator, eta = .9, population [0,0,0,1,1,1] (risk was 0.9 before the repair)
        c("alpha_mart", ["0", "0", "0", "1", "1", "1"], 6, eta="9/10"),
        c("wald_sprt", ["0", "0", "0", "1", "1", "1"], 6, eta="9/10"),
        c("alpha_mart", ["0", "0", "0", "0", "0", "0"], 6, estim="optimal_comparison", u="100005/100000"),
        c("betting_mart", ["0", "1/2", "1/2", "1"], 4, bet="agrapa"),
        c("kaplan_kolmogorov", ["0", "1/2", "1/2", "1"], 4, g="1/10"),
    ]


def gen_pop(rng, N, u, t):
    """a null population: values on a grid in [0,u] with total <= N t"""
    kind = rng.random()
    grid = [u * F(k, 4) for k in range(5)]
    if kind < 0.2:
        pop = [rng.choice([F(0), u]) for _ in range(N)]
    elif kind < 0.3:
        pop = [t] * N
    else:
        pop = [rng.choice(grid) for _ in range(N)]
    # reduce until the total is <= N t
    pop.sort(reverse=True)
    i = 0
    while sum(pop) > N * t:
        pop[i % N] = max(F(0), pop[i % N] - u / 4)
        i += 1
    if rng.chance(0.4):
        # push to the boundary total = N t if possible
        pop.sort()
        for j in range(N):
            room = N * t - sum(pop)
            if room <= 0:
                break
            pop[j] = min(u, pop[j] + room)
    return sorted(pop)


LOW_U = [F(3, 4), F(3, 4), F(7, 8), F(5, 8), F(1, 2)]


def gen_one(rng, tier, us=None, test=None, bet=None, lam=None):
    """one case (None when the drawn IID law cannot be made a null law); `us`: the upper bounds to draw from"""
    test = test or rng.choice(NMG.TESTS + ["alpha_mart", "betting_mart"])
    estim = rng.choice(NMG.ESTIMS) if test == "alpha_mart" else None
    bet = (bet or rng.choice(NMG.BETS)) if test == "betting_mart" else None
    u = rng.choice(us or [F(1), F(1), F(3, 2), F(2), F(5, 4)])
    if estim == "optimal_comparison":
        u = rng.choice([F(5, 4), F(3, 2), F(2), F(17, 16)])
    t = rng.choice([F(1, 2), F(1, 2), F(1, 4), F(3, 4)])
    if t >= u:
        t = u / 2
    kw = NMG.gen_kw(rng, test, estim, bet, u, t)
    if lam is not None:
        kw["lam"] = lam
    iid = test in ("kaplan_markov", "kaplan_wald") or (test != "kaplan_kolmogorov" and rng.chance(0.25))
    init = {"test": test, "estim": estim, "bet": bet, "u": S(u), "N": None, "t": S(t), "ro": True,
            "kw": {a: S(b) for a, b in kw.items()}, "u_now": None}
    if iid:
        # k-point law with mean <= t
        nv = rng.choice([2, 2, 3])
        vals = sorted(set(rng.choice([u * F(i, 4) for i in range(5)]) for _ in range(nv)))
        if len(vals) < 2:
            vals = [F(0), u]
        w = [F(rng.randint(1, 4)) for _ in vals]
        tot = sum(w)
        w = [x / tot for x in w]
        # shift weight to the smallest value until the mean is <= t
        tries = 0
        while sum(v * p for v, p in zip(vals, w)) > t and tries < 50:
            j = max(range(len(vals)), key=lambda i: vals[i] if w[i] > 0 else -1)
            d = min(w[j], F(1, 8))
            w[j] -= d
            w[0] += d
            tries += 1
        if sum(v * p for v, p in zip(vals, w)) > t:
            return None
        vw = [(v, p) for v, p in zip(vals, w) if p > 0]
        horizon = rng.choice([2, 3, 4] if tier == "quick" else [2, 3, 4, 5])
        return {"kind": "iid", "init": init, "vals": [S(v) for v, _ in vw], "weights": [S(p) for _, p in vw], "n": horizon}
    N = rng.choice([3, 4, 5, 6] if tier == "quick" else [3, 4, 5, 6, 7])
    init["N"] = N
    return {"kind": "finite", "init": init, "pop": [S(v) for v in gen_pop(rng, N, u, t)]}


def gen(rng, n, tier):
    # a second generator for the additional streams below, derived from (not drawn from) the run's generator: the
    # main stream of cases is exactly what it was before these streams existed
    sub = Rng(int(hashlib.sha1(repr(rng.getstate()).encode()).hexdigest()[:15], 16))
    k = 0
    while k < n:
        c = gen_one(rng, tier)
        if c is None:
            continue
        if any(F(v) == 0 for v in c.get("pop", [])) and rng.chance(0.15):
            c["init"]["negzero"] = True
        if rng.chance(0.1):
            c["init"]["via_copy"] = True       # the test object is a deep copy of a template re-configured afterwards
        yield c
        k += 1
    # additional streams (about n/4 cases):
    #  * upper bounds BELOW 1 (a super-majority assorter has u = 1/(2 share) < 1; 3/4 for share 2/3): every
    #    truncation "at u" is then different from a truncation at 1; half of them the SPRT with an alternative next
    #    to u, on populations with several zeros (the alternative mean of the rest climbs past u)
    #  * aGRAPA started from an initial bet far above 1/t (or negative): the documented rule clips EVERY bet,
    #    the first included, to [0, c/mu_j]; that is what keeps the first factor non-negative
    k = 0
    while k < max(2, n // 4):
        r = sub.random()
        if r < 0.3:
            c = gen_one(sub, tier, us=LOW_U)
        elif r < 0.6:
            c = gen_one(sub, tier, us=LOW_U, test="wald_sprt")
            if c is not None and sub.chance(0.7):
                u_, t_ = F(c["init"]["u"]), F(c["init"]["t"])
                c["init"]["kw"]["eta"] = S(sub.choice([u_ * F(15, 16), u_ * F(31, 32), u_, t_ + (u_ - t_) * F(7, 8)]))
        else:
            c = gen_one(sub, tier, us=(LOW_U if sub.chance(0.3) else None), test="betting_mart", bet="agrapa",
                        lam=sub.choice(NMG.WILD_LAM))
        if c is None:
            continue
        yield c
        k += 1


def search(rng, dis_cases, tier):
    """guided failing-input search (used only when the correspondence or a proof is broken): the configurations on
    which model and code disagree, re-run on LARGER two-valued boundary-null populations (N = 12..24, one to three
    outliers, null mean = population mean), where an excess of a few per cent of alpha is visible in the exact risk.
    The model is not consulted (it cannot be: the code no longer matches it); the oracle alone decides."""
    seen = []
    for c in dis_cases:
        init = c["init"]
        key = json.dumps(init, sort_keys=True, default=str)
        if key in seen or c.get("kind") != "finite":
            continue
        seen.append(key)
        if len(seen) > 4:
            break
        u = F(init["u"])
        for N, k in ((12, 2), (16, 2), (20, 3), (24, 3)):
            for a, b in ((u / 2, F(0)), (u / 4, F(0)), (u / 2, u), (u * F(3, 4), F(0))):
                pop = [a] * (N - k) + [b] * k
                mean = sum(pop) / N
                if not (0 < mean < u):
                    continue
                i2 = json.loads(key)
                i2["N"] = N
                i2["t"] = S(mean)
                kw = dict(i2.get("kw") or {})
                if kw.get("eta") is not None and not (mean < F(kw["eta"]) <= u):
                    kw["eta"] = S((mean + u) / 2)
                i2["kw"] = kw
                yield {"kind": "finite", "init": i2, "pop": [S(v) for v in sorted(pop)]}


def run_seq(init, seq, nm=None):
    """the least p-value an auditor sees on this sequence of draws: the test is called, as in a sequential
    audit, on every prefix of ONE sample buffer (views of the same float array), and the least overall value /
    history entry of any call is returned.  By non-anticipation this equals the least entry of the history of the
    whole sequence (which is what the model computes)."""
    nm = nm or NMG.make_nm(init)
    buf = np.array([float(v) for v in seq], dtype=float)
    if init.get("negzero"):
        buf[buf == 0] = -0.0        # zeros stored as IEEE negative zero: equal to 0, inside [0,u]
    m = float("inf")
    for k in range(1, len(buf) + 1):
        r = impl_call(lambda: nm.test(buf[:k]))
        if isinstance(r, dict):
            if k == len(buf):
                return "err:" + r["err"]
            continue
        p, h = r
        for v in [float(p)] + [float(z) for z in np.atleast_1d(h)]:
            if math.isnan(v):
                return float("nan")
            m = min(m, v)
    return m


def impl(case):
    init = case["init"]
    # ONE test object for all the samples of a case, as an assertion's test is used round after round (and audit
    # after audit): what it reports on a sample must not depend on the samples it saw before
    nm = NMG.make_nm(init)
    if case["kind"] == "finite":
        pop = [F(v) for v in case["pop"]]
        mins = [run_seq(init, r, nm) for r in arrangements(pop)]
    else:
        vals = [F(v) for v in case["vals"]]
        seqs = [[]]
        for _ in range(case["n"]):
            seqs = [s + [v] for s in seqs for v in vals]
        mins = [run_seq(init, s, nm) for s in seqs]
    # second pass: the whole samples back to back on the same object (a re-run of the audit on another ordering of
    # the same cards: equal lengths, equal totals); an auditor would see these values too
    allseq = list(arrangements(pop)) if case["kind"] == "finite" else seqs
    for i, r in enumerate(allseq):
        if isinstance(mins[i], str):
            continue
        buf = np.array([float(v) for v in r], dtype=float)
        if case["init"].get("negzero"):
            buf[buf == 0] = -0.0
        rr = impl_call(lambda: nm.test(buf))
        if isinstance(rr, dict):
            continue
        p, h = rr
        for v in [float(p)] + [float(z) for z in np.atleast_1d(h)]:
            if math.isnan(v):
                mins[i] = float("nan")
                break
            if not math.isnan(mins[i]):
                mins[i] = min(mins[i], v)
    return {"st": "ok", "mins": mins, "n": len(mins)}


def request(case):
    if case["kind"] == "finite":
        return ("nm", "risk", {"init": case["init"], "pop": sorted(case["pop"], key=F), "x": []})
    return ("nm", "risk_iid", {"init": case["init"], "vals": case["vals"], "n": case["n"], "x": []})


def compare(case, ir, mr):
    if ir.get("st") != mr.get("st"):
        return f"status differs: {ir.get('st')} vs {mr.get('st')}"
    if ir["n"] != mr["n"]:
        return f"number of arrangements differs: {ir['n']} vs {mr['n']}"
    bad = []
    for i, (a, b) in enumerate(zip(ir["mins"], mr["mins"])):
        if isinstance(a, str) or (isinstance(b, str) and b.startswith("err:")):
            if a != b:
                bad.append(i)
        elif not num_close(a, b, rtol=1e-9):
            bad.append(i)
    if bad:
        i = bad[0]
        return f"least p-value differs on arrangement #{i}: impl {ir['mins'][i]!r} model {mr['mins'][i]} ({len(bad)} arrangements differ)"
    return None


def fragile(case, ir, mr):
    # inexact inputs near mask thresholds: handled by the tolerance of `nm`; here inputs are on exact grids
    return False


def signature(case, ir):
    init = case["init"]
    tag = f"{case['kind']}:{init.get('test')}:{init.get('estim') or init.get('bet') or '-'}"
    if ir.get("st") != "ok":
        return tag + ":err"
    nums = [m for m in ir["mins"] if not isinstance(m, str)]
    if not nums or all(m >= 1.0 for m in nums):
        return "trivial:" + tag
    return tag


def documented(case):
    """parameters inside their documented ranges (the quantifier of C01)"""
    init = case["init"]
    u, t = F(init["u"]), F(init["t"])
    kw = {k: F(v) for k, v in init["kw"].items() if v is not None}
    test = init["test"] or "alpha_mart"
    if not (0 < t < u):
        return False
    if "eta" in kw and not ((0 if test == "wald_sprt" else t) < kw["eta"] <= u):
        return False
    if "lam" in kw and init.get("bet") != "agrapa" and not (0 <= kw["lam"] <= 1 / u):
        return False      # a FIXED bet must lie in [0, 1/u]; aGRAPA's initial bet is free (it clips every bet to [0, c/mu_j])
    if "g" in kw and not (0 <= kw["g"] < 1):
        return False
    if test in ("kaplan_markov", "kaplan_wald") and init["N"] is not None:
        return False
    if test == "kaplan_kolmogorov" and init["N"] is None:
        return False
    return True


def oracle_c01(case, ir):
    if ir.get("st") != "ok" or not documented(case):
        return None
    mins = ir["mins"]
    if case["kind"] == "finite":
        pop = [F(v) for v in case["pop"]]
        N = case["init"]["N"]
        if sum(pop) > N * F(case["init"]["t"]):
            return None
        probs = [F(1, len(mins))] * len(mins)
    else:
        vals = [F(v) for v in case["vals"]]
        w = [F(v) for v in case["weights"]]
        if sum(v * p for v, p in zip(vals, w)) > F(case["init"]["t"]):
            return None
        seqs = [[]]
        for _ in range(case["n"]):
            seqs = [s + [i] for s in seqs for i in range(len(vals))]
        probs = []
        for s in seqs:
            pr = F(1)
            for i in s:
                pr *= w[i]
            probs.append(pr)
    for m in mins:
        if isinstance(m, str):
            if m == "err:ZeroDivisionError" and case["init"].get("estim") == "optimal_comparison":
                return None
            return {"what": f"the test raised {m} on an arrangement of a null population"}
        if math.isnan(m):
            return {"what": "a reported p-value is NaN on an arrangement of a null population"}
    alphas = sorted(set([m for m in mins if m < 1.0] + [0.01, 0.05, 0.1, 0.25, 0.5]))
    for a in alphas:
        if a >= 1.0:
            continue
        pr = sum(p for m, p in zip(mins, probs) if m <= a)
        if float(pr) > max(a, 0.0) * (1 + 1e-9) + 1e-15:
            note = "" if a > 0 else (f" [a reported p-value <= 0 is <= EVERY alpha in (0,1): e.g. alpha = {float(pr) / 2:.6g} "
                                     f"is exceeded by the risk {float(pr):.6g}]")
            return {"what": f"exact risk {float(pr):.6g} (= {pr}) exceeds alpha = {a!r}{note}: the probability, over the "
                            f"{'orderings of the population' if case['kind'] == 'finite' else 'IID sequences'}, that "
                            f"some reported p-value is <= alpha", "alpha": a, "risk": str(pr)}
    return None


ORACLES = {"C01": oracle_c01}
