"""
Correspondence group `auditrisk` (properties C09 and C01, composed): the audit loop on the REAL objects.

A case is a tiny election: 1-2 plurality contests, n = 4..6 cards, each card a (manual record, CVR) pair, a polling
or card-comparison audit, a shipped test/estimator/bet per contest.  For EVERY distinct order in which the n cards can
be drawn (all equally likely under uniform sampling without replacement) the real code is driven the way an audit
drives it: after each draw k = 1..n

        Assertion.set_p_values(contests, mvr_sample[:k], cvr_sample[:k]);  audit.summarize_status(contests)

and the number of draws after which the audit is first reported complete is recorded (None: never).  The Lean driver
computes the same with `AuditLoop.firstComplete` (= `Status.setPValues` + `Status.summarizeStatus` over
`NM.run`), given each assertion's per-card data values (taken from the real `mvrs_to_data`) and the configuration of
its real `NonnegMean` object.

Oracle (theorem `RiskLimit.audit_risk_limit_run`): if some assertion of contest c is false on the population — its
data values average at most 1/2 — the fraction of orders on which the audit is EVER reported complete is at most c's
risk limit.  Oracle C09: the audit is reported complete at draw k only if every assertion's p-value, recomputed from
its own test on its own data, is at most its contest's risk limit.  Oracle `oracle_outcome` (theorems
`RiskLimit.plurality_outcome_polling_risk_limit` / `plurality_outcome_comparison_risk_limit`, C09): if the reported outcome
of a plurality contest is wrong on the manual records -- decided from the case's candidates and winners, not from the
assertions the real constructor built -- the fraction of orders that ever complete is at most that contest's limit.
"""
import contextlib, copy, io, json, math
from fractions import Fraction as F
import numpy as np

from ..core import fr, impl_call
from . import status as ST
from . import nm as NMG

NAME = "auditrisk"
RULE = ("elections of 4..5 cards (thorough: ..6), 1-2 plurality contests with 2-3 candidates, polling and card-comparison "
        "audits (40% of the comparison audits style-based: one or two cards do not list a contest and are not used for it), "
        "every shipped test with estimators/bets on dyadic parameter grids, risk limits 1/10..1/2; manual "
        "records agree with the CVRs, differ in a few cards, or elect someone else (a false assertion); every distinct "
        "order of the cards is audited draw by draw on the real objects; non-trivial = some order completes and some "
        "assertion is false or some order does not complete; distinct = distinct canonical input")
EXHAUSTIVE = {"quick": False, "thorough": False}

S = NMG.S
KW_KEYS = ("eta", "lam", "g", "c", "d", "f", "minsd", "c_grapa_0", "c_grapa_max", "c_grapa_grow", "rate_error_2")


def full_case(case):
    """the fields harness.groups.status.build expects"""
    c2 = copy.deepcopy(case)
    c2["stream"] = "real"
    c2["ops"] = []
    c2["audit"] = {"error_rate_1": "0", "error_rate_2": "0", "use_style": bool(case.get("use_style"))}
    for c in c2["contests"]:
        c.setdefault("choice_function", "PLURALITY")
        c.setdefault("assertion_file", None)
        c["order"] = []
        c["init_proved"] = []
        c["audit_type"] = case["audit_type"]
        if case.get("use_style"):
            # every drawn card meets the contest's threshold (sample numbers are the card indices)
            c["sample_threshold"] = len(case["cvrs"])
            # the contest's card count = the number of cards whose CVR lists it
            c["cards"] = sum(1 for cv in case["cvrs"] if c["id"] in cv["votes"])
    return c2


def card_key(case, i):
    return json.dumps([case["mvrs"][i]["votes"], case["cvrs"][i]["votes"]], sort_keys=True)


def orders_of(case):
    """all distinct arrangements of the cards (cards with the same votes on both records are interchangeable),
    as lists of card indices; every arrangement is equally likely"""
    n = len(case["mvrs"])
    keys = [card_key(case, i) for i in range(n)]

    def rec(rem):
        if not rem:
            yield []
            return
        seen = set()
        for j, i in enumerate(rem):
            if keys[i] in seen:
                continue
            seen.add(keys[i])
            for r in rec(rem[:j] + rem[j + 1:]):
                yield [i] + r
    return list(rec(list(range(n))))


_KNOWN = {"alpha_mart", "betting_mart", "kaplan_kolmogorov", "kaplan_markov", "kaplan_wald", "wald_sprt",
          "fixed_alternative_mean", "shrink_trunc", "optimal_comparison", "fixed_bet", "agrapa"}


def _fname(f, fallback):
    """the library function behind a NonnegMean's test / estim / bet attribute: by name when the attribute is the bound
    method itself, else (a wrapper around it) what the case asked for"""
    n = getattr(f, "__name__", None)
    if n in _KNOWN:
        return n
    n = getattr(getattr(f, "__wrapped__", None), "__name__", None)
    return n if n in _KNOWN else fallback


def init_from_nm(nm, u_now, spec=None):
    spec = spec or {}
    kw = {}
    for k in KW_KEYS:
        v = nm.__dict__.get(k)
        if v is not None:
            kw[k] = fr(v)
    N = None if (nm.N is None or (isinstance(nm.N, float) and math.isinf(nm.N))) else int(nm.N)
    return {"test": _fname(nm.test, spec.get("test") or "alpha_mart"),
            "estim": _fname(nm.estim, spec.get("estim") or "fixed_alternative_mean"),
            "bet": _fname(nm.bet, spec.get("bet") or "fixed_bet"), "u": fr(u_now), "N": N,
            "t": fr(nm.t), "ro": bool(nm.random_order), "kw": kw, "u_now": None}


def describe(case):
    """per contest / assertion: name, data value of every card (None: the card is not used for the assertion --
    style-based comparison audits use only the cards whose CVR lists the contest), test configuration; all taken
    from the real objects"""
    audit, contests, cvrs, mvrs = ST.build(full_case(case))
    comparison = case["audit_type"] != "POLLING"
    out = []
    for cid, con in contests.items():
        asns = []
        for name, asn in con.assertions.items():
            vals, u = [], None
            for i in range(len(mvrs)):
                d, u = asn.mvrs_to_data([mvrs[i]], [cvrs[i]] if comparison else None)
                assert len(d) in (0, 1)
                vals.append(fr(d[0]) if len(d) else None)
            spec = next((c for c in case["contests"] if c["id"] == cid), {})
            asns.append({"name": name, "vals": vals, "init": init_from_nm(asn.test, u, spec)})
        out.append({"id": cid, "limit": fr(con.risk_limit), "assertions": asns})
    return out


def impl(case):
    from shangrla.core.Audit import Assertion
    audit, contests, cvrs, mvrs = ST.build(full_case(case))
    comparison = case["audit_type"] != "POLLING"
    n = len(mvrs)
    firsts, near, bad_complete = [], False, None
    sink = io.StringIO()
    # per assertion: the data value of every card (floats, as the code sees them) and the null total N*t
    tables = []
    for con in contests.values():
        for asn in con.assertions.values():
            vals = []
            for i in range(n):
                d, _u = asn.mvrs_to_data([mvrs[i]], [cvrs[i]] if comparison else None)
                vals.append(float(d[0]) if len(d) else None)
            tables.append((vals, float(asn.test.N) * float(asn.test.t)))
    for order in orders_of(case):
        first = None
        # inexact data (comparison audits): the float running total and the exact total of the same doubles can fall
        # on different sides of N*t, where the tests switch branch (m < 0, m == 0): excluded from the comparison
        for vals, nt in tables:
            sf, sx = 0.0, F(0)
            for i in order:
                if vals[i] is None:
                    continue
                sf += vals[i]
                sx += F(vals[i])
                if (sf < nt) != (sx < F(nt)) or (sf == nt) != (sx == F(nt)):
                    near = True
        for k in range(1, n + 1):
            mv = [mvrs[i] for i in order[:k]]
            # a polling audit may be handed the CVRs as well (documented as unneeded): the data must not change
            cv = [cvrs[i] for i in order[:k]] if (comparison or case.get("pass_cvrs")) else None
            try:
                Assertion.set_p_values(contests, mv, cv)
                with contextlib.redirect_stdout(sink):
                    done = bool(audit.summarize_status(contests))
            except Exception as e:  # noqa  an exception ends nothing: the audit is not reported complete
                done = False
                if isinstance(e, (MemoryError, KeyboardInterrupt)):
                    raise
            sink.seek(0); sink.truncate(0)
            for con in contests.values():
                lim = float(con.risk_limit)
                for asn in con.assertions.values():
                    p = float(asn.p_value)
                    if not math.isnan(p) and abs(p - lim) <= 1e-9 * max(lim, 1e-300):
                        near = True
            if done and bad_complete is None:
                # C09: recompute every assertion's p-value from its own test on its own data
                for cid, con in contests.items():
                    for name, asn in con.assertions.items():
                        d, u = asn.mvrs_to_data(mv, cv if comparison else None)
                        asn.test.u = u
                        p2 = float(asn.test.test(d)[0])
                        if not (p2 <= float(con.risk_limit)):
                            bad_complete = {"order": order[:k], "contest": cid, "assertion": name, "p": fr(p2),
                                            "limit": fr(con.risk_limit)}
            if done:
                first = k
                break
        firsts.append(first)
    return {"st": "ok", "first": firsts, "near": near, "bad_complete": bad_complete}


def request(case):
    return (NAME.replace("auditrisk", "auditloop"), "first", {"contests": describe(case), "orders": orders_of(case)})


def compare(case, ir, mr):
    if ir.get("st") != mr.get("st"):
        return f"status differs: {ir.get('st')} ({ir.get('err')}: {ir.get('msg')}) vs {mr.get('st')}"
    if ir.get("st") != "ok":
        return None
    if ir["first"] != mr["first"]:
        bad = [i for i, (a, b) in enumerate(zip(ir["first"], mr["first"])) if a != b]
        i = bad[0]
        return (f"first draw at which the audit is reported complete differs on order #{i} "
                f"{orders_of(case)[i]}: impl {ir['first'][i]} model {mr['first'][i]} ({len(bad)} orders differ)")
    return None


def fragile(case, ir, mr):
    # a float p-value within 1e-9 (relative) of the risk limit, or a float running total on the other side of N*t
    # than the exact one: the exact-rational model may decide differently
    return bool(ir.get("near"))


def signature(case, ir):
    if ir.get("st") != "ok":
        return "err"
    f = ir["first"]
    some = any(x is not None for x in f)
    allc = all(x is not None for x in f)
    tag = case["audit_type"].lower() + ":" + (case["contests"][0].get("test") or "alpha_mart") + ":" + \
          (case["contests"][0].get("estim") or case["contests"][0].get("bet") or "-")
    false_asn = bool(false_assertions(case))
    if not some:
        return "trivial:never-complete:" + tag if not false_asn else "false-never:" + tag
    return ("false-" if false_asn else "true-") + ("always:" if allc else "sometimes:") + tag


def false_assertions(case, desc=None):
    """(contest id, assertion name, limit) of the assertions whose data values average <= 1/2 on the population"""
    desc = desc or describe(case)
    out = []
    for con in desc:
        for a in con["assertions"]:
            vals = [F(v) for v in a["vals"] if v is not None]
            # false on the cards the assertion uses, and the test's N is the number of those cards
            if vals and sum(vals) <= F(len(vals), 2) and a["init"]["N"] == len(vals):
                out.append((con["id"], a["name"], F(con["limit"]), a["init"]))
    return out


def documented(init):
    u, t = F(init["u"]), F(init["t"])
    kw = {k: F(v) for k, v in init["kw"].items()}
    test = init["test"]
    if not (0 < t < u):
        return False
    if test in ("kaplan_markov", "kaplan_wald"):
        return False
    if test == "wald_sprt" and not (t <= kw.get("eta", t) <= u):
        return False
    if test == "betting_mart" and init["bet"] == "fixed_bet" and not (0 <= kw.get("lam", F(1, 2)) <= 1 / u):
        return False
    if "g" in kw and not (0 <= kw["g"] < 1):
        return False
    return True


def oracle_risk(case, ir):
    if ir.get("st") != "ok":
        return None
    if ir.get("bad_complete"):
        b = ir["bad_complete"]
        return {"what": f"the audit was reported complete after drawing cards {b['order']} although assertion "
                        f"{b['assertion']} of contest {b['contest']} has p-value {float(F(b['p'])):.6g} > risk limit "
                        f"{float(F(b['limit'])):.6g} (recomputed from its own test on its own data)"}
    fa = [x for x in false_assertions(case) if documented(x[3])]
    if not fa:
        return None
    lim = min(x[2] for x in fa)
    f = ir["first"]
    frac = F(sum(1 for x in f if x is not None), len(f))
    if frac > lim:
        cid, name = [(x[0], x[1]) for x in fa if x[2] == lim][0]
        return {"what": f"assertion {name} of contest {cid} is false on the population (its data average <= 1/2) but the "
                        f"audit is reported complete on {frac} = {float(frac):.4g} of the {len(f)} equally likely draw "
                        f"orders, more than the risk limit {lim}", "risk": str(frac), "limit": str(lim)}
    return None


def unconfirmed_contests(case, desc=None):
    """(contest id, limit, winner, loser, marks) of the plurality / approval contests whose reported outcome cannot be
    confirmed from the MANUAL records, as `RiskLimit.PluralityOutcomeUnconfirmed` (RiskLimitOutcome.lean) states it:
    some reported winner has at most as many marks on the found ballots of the cards under audit as some reported
    loser plus the number of records the overstatement scores 0 (polling: all cards, nothing scored 0).  Computed from
    the case's candidates / winners, NOT from the assertions the real constructor built -- that every (winner, loser)
    pair has its assertion is the hypothesis `hall` of the contest-level theorems and is what this oracle tests."""
    desc = desc or describe(case)
    comparison = case["audit_type"] != "POLLING"
    style = bool(case.get("use_style"))
    out = []
    for c, d in zip(case["contests"], desc):
        if c.get("choice_function", "PLURALITY") not in ("PLURALITY", "APPROVAL"):
            continue
        cid = c["id"]
        W = list(c["winner"])
        L = [x for x in c["candidates"] if x not in W]
        idx = [i for i in range(len(case["mvrs"]))
               if not (comparison and style) or cid in case["cvrs"][i]["votes"]]

        def zeroed(m):
            return comparison and (bool(m.get("phantom")) or (style and cid not in m["votes"]))
        found = [case["mvrs"][i] for i in idx if not zeroed(case["mvrs"][i])]
        lost = sum(1 for i in idx if zeroed(case["mvrs"][i]))

        def marks(x):
            return sum(1 for m in found if m["votes"].get(cid, {}).get(x))
        # the tests: every assertion the contest has is a shipped test in its documented range on the cards under audit
        if not all(documented(a["init"]) and a["init"]["N"] == len(idx) for a in d["assertions"]):
            continue
        bad = [(w, l) for w in W for l in L if marks(w) <= marks(l) + lost]
        if bad:
            w, l = bad[0]
            # finding F30: two (winner, loser) pairs with the same dict key `winr + " v " + losr`
            clash = len({x + " v " + y for x in W for y in L}) < len(W) * len(L)
            out.append((cid, F(d["limit"]), w, l, (marks(w), marks(l), lost), clash))
    return out


def oracle_outcome(case, ir):
    """theorems `RiskLimit.plurality_outcome_polling_risk_limit` / `plurality_outcome_comparison_risk_limit`: a wrong
    reported outcome => the fraction of draw orders on which the audit is ever reported complete is at most that
    contest's risk limit"""
    if ir.get("st") != "ok":
        return None
    un = unconfirmed_contests(case)
    if not un:
        return None
    f = ir["first"]
    frac = F(sum(1 for x in f if x is not None), len(f))
    for cid, lim, w, l, (mw, ml, lost), clash in un:
        if frac > lim:
            return {**({"finding": "F30:assertion-name-clash"} if clash else {}),
                    "what": f"the reported outcome of contest {cid} is wrong on the manual records (reported winner {w}: "
                            f"{mw} marks, reported loser {l}: {ml} marks, {lost} records scored 0) but the audit is "
                            f"reported complete on {frac} = {float(frac):.4g} of the {len(f)} equally likely draw orders, "
                            f"more than the contest's risk limit {lim} (is there an assertion for every (winner, loser) "
                            f"pair?)", "risk": str(frac), "limit": str(lim)}
    return None


def oracle_c09(case, ir):
    return oracle_risk(case, ir) or oracle_outcome(case, ir)


ORACLES = {"C09": oracle_c09, "C01": oracle_risk}

CANDS = ["Ann", "Bob", "Cy"]


def mk_card(i, votes):
    return {"id": f"card{i}", "tally_pool": "1", "votes": votes}


def gen_test(rng, comparison):
    test = rng.choice(["alpha_mart", "alpha_mart", "betting_mart", "kaplan_kolmogorov", "wald_sprt"])
    estim = bet = None
    kw = {}
    if test == "alpha_mart":
        estim = rng.choice([None, "fixed_alternative_mean", "shrink_trunc"] + (["optimal_comparison"] if comparison else []))
        if estim != "optimal_comparison" and rng.chance(0.8):
            kw["eta"] = rng.choice([0.625, 0.75, 0.875, 1.0])
        if estim == "shrink_trunc":
            kw["c"] = rng.choice([0.125, 0.25])
            kw["d"] = rng.choice([1, 4, 16])
            if rng.chance(0.4):
                kw["f"] = rng.choice([0.0, 0.5])
    elif test == "betting_mart":
        bet = rng.choice([None, "fixed_bet", "agrapa"])
        if bet != "agrapa" or rng.chance(0.5):
            kw["lam"] = rng.choice([0.25, 0.5, 0.75, 0.875])
    elif test == "wald_sprt":
        kw["eta"] = rng.choice([0.625, 0.75, 0.875])
    # kaplan_kolmogorov: `g` is the contest's attribute (default 0.1), passed by make_plurality_assertions itself
    return test, estim, bet, kw


def gen_case(rng, tier):
    comparison = rng.chance(0.45)
    n = rng.choice([4, 5, 5] if tier == "quick" else [4, 5, 5, 6])
    ncon = rng.choice([1, 1, 2])
    contests, cvrs, mvrs = [], [dict() for _ in range(n)], [dict() for _ in range(n)]
    kind = rng.choice(["agree", "few-errors", "wrong-winner", "wrong-winner", "tie"])
    for ci in range(ncon):
        cid = f"c{ci}"
        cands = (CANDS if not rng.chance(0.12) else rng.choice([["0", "", "a"], ["a", "A", " a"], ["1", "01", "10"]]))[: rng.choice([2, 2, 3])]
        w = rng.choice(cands)
        # CVRs: the reported winner gets a strict plurality
        nw = rng.randint(n // 2 + 1, n)
        votes = [w] * nw + [rng.choice([c for c in cands if c != w] + [None]) for _ in range(n - nw)]
        rng.shuffle(votes)
        counts = {c: votes.count(c) for c in cands}
        if any(counts[c] >= counts[w] for c in cands if c != w):
            votes = [w] * n
        truth = list(votes)
        k2 = kind if ci == 0 else rng.choice(["agree", "few-errors"])
        if k2 == "few-errors":
            for _ in range(rng.randint(1, 2)):
                truth[rng.randint(0, n - 1)] = rng.choice(cands + [None])
        elif k2 == "wrong-winner":
            other = rng.choice([c for c in cands if c != w])
            m = rng.randint(n // 2, n)
            truth = [other] * m + [rng.choice([w, None]) for _ in range(n - m)]
            rng.shuffle(truth)
        elif k2 == "tie":
            other = rng.choice([c for c in cands if c != w])
            truth = [w if i % 2 == 0 else other for i in range(n)]
            if n % 2:
                truth[-1] = None
            rng.shuffle(truth)
        for i in range(n):
            cvrs[i][cid] = {} if votes[i] is None else {votes[i]: 1}
            mvrs[i][cid] = {} if truth[i] is None else {truth[i]: 1}
        test, estim, bet, kw = gen_test(rng, comparison)
        contests.append({"id": cid, "risk_limit": rng.choice(["1/10", "1/5", "3/10", "1/2", "1/4"]),
                         "candidates": cands, "winner": [w], "n_winners": 1, "test": test, "estim": estim, "bet": bet,
                         "test_kwargs": kw})
    case = {"audit_type": "CARD_COMPARISON" if comparison else "POLLING", "contests": contests,
            "cvrs": [mk_card(i, v) for i, v in enumerate(cvrs)], "mvrs": [mk_card(i, v) for i, v in enumerate(mvrs)]}
    if not comparison and rng.chance(0.3):
        case["pass_cvrs"] = True
    if comparison and rng.chance(0.4):
        # style-based: one or two cards do not list some contest (the manual record may still show it, or not)
        case["use_style"] = True
        for _ in range(rng.randint(1, 2)):
            i = rng.randint(0, n - 1)
            cid = rng.choice([c["id"] for c in contests])
            listing = [j for j in range(n) if cid in case["cvrs"][j]["votes"]]
            if len(listing) <= 3:
                continue
            case["cvrs"][i]["votes"].pop(cid, None)
            if rng.chance(0.7):
                case["mvrs"][i]["votes"].pop(cid, None)
    return case


K2_TRUE = [["a", "b"], ["a", "c"], ["a"], ["b"], ["c"]]
K2_REPORTED = [["a", "b"], ["a", "c"], ["a"], ["b"], ["b"]]


def k2(at, cv, kw):
    def card(i, ms):
        return mk_card(i, {"AvB": {m: 1 for m in ms}})
    return {"audit_type": at, "contests": [{"id": "AvB", "risk_limit": "3/5", "candidates": ["a", "b", "c"],
                                            "winner": ["a", "b"], "n_winners": 2, "test": "alpha_mart",
                                            "estim": "fixed_alternative_mean", "bet": None, "test_kwargs": kw}],
            "cvrs": [card(i, m) for i, m in enumerate(cv)], "mvrs": [card(i, m) for i, m in enumerate(K2_TRUE)]}


def clash_case():
    X, Y = "a v b", "b v c"
    true = [[X], [X], [X], [Y], [Y], ["a"]]

    def card(i, ms):
        return mk_card(i, {"K": {m: 1 for m in ms}})
    return {"audit_type": "POLLING", "contests": [{"id": "K", "risk_limit": "3/5", "candidates": ["a", X, Y, "c"],
                                                   "winner": ["a", X], "n_winners": 2, "test": "alpha_mart",
                                                   "estim": "fixed_alternative_mean", "bet": None,
                                                   "test_kwargs": {"eta": 0.75}}],
            "cvrs": [card(i, m) for i, m in enumerate(true)], "mvrs": [card(i, m) for i, m in enumerate(true)]}


def corpus():
    def one(at, cv, mv, test="alpha_mart", estim=None, bet=None, kw=None, lim="1/5"):
        n = len(cv)
        return {"audit_type": at, "contests": [{"id": "c0", "risk_limit": lim, "candidates": ["Ann", "Bob"],
                                                "winner": ["Ann"], "n_winners": 1, "test": test, "estim": estim, "bet": bet,
                                                "test_kwargs": kw or {}}],
                "cvrs": [mk_card(i, {"c0": ({} if v is None else {v: 1})}) for i, v in enumerate(cv)],
                "mvrs": [mk_card(i, {"c0": ({} if v is None else {v: 1})}) for i, v in enumerate(mv)]}
    A, B = "Ann", "Bob"
    return [
        one("POLLING", [A, A, A, B], [A, A, A, B], kw={"eta": 0.75}, lim="1/2"),
        one("POLLING", [A, A, A, B], [A, B, A, B], kw={"eta": 0.875}, lim="1/2"),          # tie: Ann v Bob is false
        one("POLLING", [A, A, A, B, A], [B, B, A, B, None], kw={"eta": 0.75}, lim="3/10"),  # Bob really won
        one("CARD_COMPARISON", [A, A, A, B, A], [A, A, A, B, A], kw={"eta": 0.875}, lim="1/2"),
        one("CARD_COMPARISON", [A, A, A, B, A], [B, B, A, B, A], test="betting_mart", bet="fixed_bet", kw={"lam": 0.75}, lim="1/2"),
        one("POLLING", [A, A, A, B], [A, B, A, B], test="kaplan_kolmogorov", lim="1/2"),
        one("POLLING", [A, A, A, B], [A, B, A, B], test="wald_sprt", kw={"eta": 0.75}, lim="1/2"),
        # the examples of Props/RiskLimitOutcome.lean: two winners, the third candidate ties the second on the manual
        # records (a 3, b 2, c 2); polling: complete on 36 of the 120 orders; comparison (the CVRs say a 3, b 3, c 1): 48
        k2("POLLING", K2_TRUE, {"eta": 0.75}),
        k2("CARD_COMPARISON", K2_REPORTED, {"eta": 1.0}),
        # (the election of finding F30 -- candidates `a`, `a v b`, `b v c`, `c` -- can no longer be built: since the
        # repair make_plurality_assertions raises ValueError for it; its regression case lives in group `assorter`)
    ]


def gen(rng, n, tier):
    for _ in range(n):
        yield gen_case(rng, tier)
