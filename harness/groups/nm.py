"""
Correspondence group `nm`: shangrla.core.NonnegMean.NonnegMean (tests, estimators, bets, conversions)
vs. Shangrla.NM.*  (properties C01 (support), C05, C10 (risk_mono), C11, C12, C13).

A case:  {"op": "test"|"estim"|"bet"|"conv", "init": {...}, "x": ["p/q", ...], "stream": ..., extras}
`init` mirrors the constructor call: test / estim / bet names (None = constructor default), u, N
(int or None = np.inf), t, ro (random_order), kw (keyword attributes), u_now (a later `test.u = u`).
"""
import hashlib
import math
import sys
from fractions import Fraction as F
import numpy as np

if hasattr(sys, "set_int_max_str_digits"):
    sys.set_int_max_str_digits(0)        # exact products of 40 factors with 30-digit square roots exceed 4300 digits

from ..core import fr, to_frac, num_close, nums_close, impl_call, Rng

NAME = "nm"
RULE = ("configs drawn from test x estimator/bet x N in {n, n+1, 2n, 10n, inf} x u x t x documented parameter "
        "ranges; observations on a k/8*u grid (exact in binary) or random p/q with q<=64; streams: regular, "
        "boundary (x==t, all-zero, all-u, sum = N*t exactly, sum > N*t, null mean hitting 0 or u), malformed "
        "(empty, longer than N, out of range, bad g, random_order=False with finite-N SPRT); range stress for "
        "estim(x)/bet(x) and the tests built on them (streams c13:*): long runs of 0 / of u in populations of "
        "size n..n+2 (the fixed alternative becomes impossible, the null mean leaves [0,u]), margins "
        "u = 1 + 2^-a down to a = 40, error rates 0..1/2, eta within 2^-30 of t or u, t within 2^-50 of u, "
        "c in [2^-30,10], d in [2^-20,10^6], f in [0,100], minsd in [2^-40,10] and tiny (1e-160, 1e-170, 1e-300, the "
        "smallest normal double; f = 0 or f/minsd < 1e298) on samples starting with a run of identical draws, "
        "aGRAPA c_0 in [0,1], c_max in [c_0,1], growth in [0,10^6], fixed bets in [0,1/u], aGRAPA initial bets also far "
        "above 1/t and negative (5/2 .. 10^6, -1/2, -3); additional streams (n/10 more cases, own generator): integer "
        "samples as numpy arrays of narrow / unsigned dtypes (int8 .. uint64) whose running total passes the dtype's "
        "range (short samples of large integers with u = 64 .. 2*10^9, long 0/1 samples of 140-330 draws); fixed bets "
        "above 1/mu_j with every factor positive (1/u < lam < 1/t without replacement, or u raised after construction); "
        "k draws of u that make the total hit N*t exactly (k*u = 16 .. 512), then 0s (0/0), then a non-dyadic value, "
        "then more; upper bounds below 1 (3/4, 7/8, 5/8, 1/2, 2/3); non-trivial = "
        "status ok, length >= 2 and the history is not constantly 1; distinct = distinct canonical input")
EXHAUSTIVE = {"quick": False, "thorough": False}
RULE += "; option stream (n/12 more cases, own generator, OPTIONS_AUDIT.md): constructor arguments that equal their defaults left out of the call (NonnegMean() = alpha_mart, u=1, N=inf, t=1/2, random_order=True), samples handed over as Python lists / tuples (alpha_mart, betting_mart, kaplan_kolmogorov, estimators, bets), conversions called with Python floats"

TESTS = ["alpha_mart", "betting_mart", "kaplan_kolmogorov", "kaplan_markov", "kaplan_wald", "wald_sprt"]
ESTIMS = [None, "fixed_alternative_mean", "shrink_trunc", "optimal_comparison"]
BETS = [None, "fixed_bet", "agrapa"]
EPS = F(1, 2 ** 52)


def S(q):
    return fr(F(q))


# ---------------------------------------------------------------------------------------------
# building the real object

CLASS_KW = ("g", "c", "d", "f", "minsd", "c_grapa_0", "c_grapa_max", "c_grapa_grow", "rate_error_2")


def make_nm(init):
    from shangrla.core.NonnegMean import NonnegMean as NM
    kw = {k: float(F(v)) for k, v in init["kw"].items() if v is not None}
    # representations of equal values: an infinite N as numpy's, math's or a parsed float; the random-order flag as
    # a Python bool, a numpy bool (the result of a numpy comparison) or 0/1
    inf = {"math": math.inf, "float": float("inf")}.get(init.get("inf_type"), np.inf)
    N = inf if init["N"] is None else int(init["N"])
    ro = init["ro"]
    if init.get("ro_type") == "np":
        ro = np.bool_(ro)
    elif init.get("ro_type") == "int":
        ro = int(ro)
    args = dict(u=float(F(init["u"])), N=N, t=float(F(init["t"])), random_order=ro)
    if init.get("int_params"):
        args.update(u=int(F(init["u"])), t=int(F(init["t"])))          # whole numbers as Python ints
    if init.get("test") is not None:
        args["test"] = getattr(NM, init["test"])
    # `omit`: constructor arguments LEFT OUT of the call because their value is the documented default
    # (NonnegMean() = alpha_mart, u=1, N=inf, t=1/2, random_order=True); an argument is only ever left out when the
    # case's value equals that default, so the configuration is the same one and the model request does not change
    om = set(init.get("omit") or ())
    dflt = {"u": F(init["u"]) == 1, "N": init["N"] is None, "t": F(init["t"]) == F(1, 2), "random_order": init["ro"] is True,
            "test": init.get("test") == "alpha_mart"}
    for k in om:
        if dflt.get(k):
            args.pop(k, None)
    if init.get("estim") is not None:
        args["estim"] = getattr(NM, init["estim"])
    if init.get("bet") is not None:
        args["bet"] = getattr(NM, init["bet"])
    # `kw_ctor`: keyword values given to the constructor that are re-assigned afterwards (`test.g = ...`, as the unit
    # tests of the library do): init["kw"] holds the values in force when the test is run.  `pre_call`: the object
    # has already been used once, with the parameters it was built with, before u / the keywords were re-assigned.
    # A test is a function of the object's CURRENT attributes; nothing of the earlier configuration may show.
    ctor = {k: float(F(v)) for k, v in (init.get("kw_ctor") or {}).items()}
    cls = NM
    kw_inst = dict(kw)
    if init.get("class_kw"):
        # tuning parameters supplied as CLASS attributes of a subclass (a house style: `class OurTest(NonnegMean): g = 0.1`)
        # instead of constructor keywords; only those the methods read when they run (the constructor consumes eta / lam)
        ck = {k: kw_inst.pop(k) for k in list(kw_inst) if k in CLASS_KW and k not in ctor}
        cls = type("HouseTest", (NM,), ck)
    nm = cls(**args, **{**kw_inst, **ctor})
    if init.get("via_copy"):
        # the object under test is a deep copy of a template that is re-configured afterwards: the copy is independent
        import copy
        template, nm = nm, copy.deepcopy(nm)
        template.t, template.u, template.N = template.t / 2, template.u * 2, 7
        for k_ in kw:
            setattr(template, k_, 0.123)
    if init.get("pre_call"):
        try:
            with np.errstate(all="ignore"):
                u0_ = float(F(init["u"]))
                nm.test(np.array([u0_ / 2, 0.0, u0_, u0_ / 4]))
        except Exception:  # noqa: the earlier use may fail; what counts is the call that follows
            pass
    if init.get("u_now") is not None:
        nm.u = float(F(init["u_now"]))
    for k in ctor:
        setattr(nm, k, kw[k])
    if init.get("atol") is not None or init.get("rtol") is not None:
        # call-time keywords of alpha_mart / betting_mart: `test.test(x, atol=..., rtol=...)` (tolerances of the masks
        # "null mean is 0 / is u / the product vanished"); every later call of this object's test carries them
        ck = {k: float(F(init[k])) for k in ("atol", "rtol") if init.get(k) is not None}
        bound = nm.test
        nm.test = lambda x, **kw_: bound(x, **{**ck, **kw_})
    return nm


def xs(case):
    a = _xs_array(case)
    form = case.get("x_form")
    if form in ("list", "tuple"):
        # the sample handed over as a plain Python sequence (alpha_mart / betting_mart / the estimators document
        # "x: list corresponding to the data"): same numbers, another container
        seq = [v.item() if hasattr(v, "item") else v for v in a]
        return seq if form == "list" else tuple(seq)
    return a


def _xs_array(case):
    vals = [F(v) for v in case["x"]]
    if case.get("int_dtype") and vals and all(v.denominator == 1 for v in vals):
        # the sample as an integer array / list of ints (0/1 polling data are often stored that way); a string names
        # the array's integer dtype (compact storage: int8, int16, ...; the values fit, their running total need not)
        if isinstance(case["int_dtype"], str):
            return np.array([int(v) for v in vals], dtype=np.dtype(case["int_dtype"]))
        return np.array([int(v) for v in vals])
    a = np.array([float(v) for v in vals], dtype=float)
    if case.get("negzero"):
        a[a == 0] = -0.0          # IEEE negative zero: equal to 0, inside [0,u]
    if case.get("series") and len(a) > 1:
        # the draws as a pandas Series whose integer labels are NOT 0..n-1 in order (a DataFrame column after a shuffle
        # or a filter): the order of the draws is the order of the rows, whatever their labels
        import pandas as pd
        n = len(a)
        lab = list(range(n))
        k = (int(7 * a.sum()) % (n - 1)) + 1
        lab = lab[k:] + lab[:k]
        return pd.Series(a, index=lab)
    return a


def flo(a):
    return [float(v) for v in np.atleast_1d(np.asarray(a, dtype=float))]


def bc(v, n):
    """broadcast a scalar estimator result to the length of x, as numpy would"""
    a = np.asarray(v, dtype=float)
    return flo(np.broadcast_to(a, (n,))) if a.ndim == 0 else flo(a)


def _decoy(xa):
    """another sample of the same length and total for the earlier use of an object / of the module: the draws in
    reverse order, or -- when two interior draws differ -- the same first and last draw with two interior draws exchanged
    (same first value, same last value, same total, same prefix sums from the later of the two positions on)"""
    xa = np.asarray(xa, dtype=float)
    n = len(xa)
    if n > 3 and (int(n + 7 * xa.sum()) % 2 == 0):
        inner = xa[1:n - 1]
        diff = np.nonzero(inner != inner[0])[0]
        if len(diff):
            i, j = 1, 1 + int(diff[int(3 * xa.sum()) % len(diff)])
            d = xa.copy()
            d[i], d[j] = d[j], d[i]
            return d
    return xa[::-1].copy()


def impl(case):
    nm = make_nm(case["init"])
    op = case["op"]
    x = xs(case)
    if op in ("estim", "bet") and len(x) > 2:
        # an earlier, independent computation in the same process (another object) on a rearrangement of the sample
        try:
            o = make_nm(case["init"])
            with np.errstate(all="ignore"):
                (o.estim if op == "estim" else o.bet)(_decoy(x))
        except Exception:  # noqa
            pass
    if op == "test":
        if case["init"].get("pre_fail"):
            # a planning call that raises (pilot data outside [0,u] / longer than the population), caught by the caller:
            # the object must be what it was
            for bad in (np.array([-1.0, 0.5]), np.full(3, 2.0 * float(F(case["init"]["u"])) + 1.0)):
                try:
                    with np.errstate(all="ignore"):
                        nm.sample_size(bad, alpha=0.05, reps=None)
                except Exception:  # noqa
                    pass
        p, h = nm.test(x)
        res = {"st": "ok", "p": float(p), "hist": flo(h)}
        # the same test object used again, as an audit does round after round: first on a decoy (the same draws in
        # reverse order: same length, same total), then twice on ONE float array holding the sample.  Every call must
        # return what a fresh object returns on that sample, and must leave the caller's array as it was.
        nm2 = make_nm(case["init"])
        xa = np.array([float(v) for v in x], dtype=float)
        keep = xa.copy()
        reuse = None
        try:
            if len(xa) > 1:
                nm2.test(_decoy(xa))
            for k in (1, 2):
                p2, h2 = nm2.test(xa)
                if not (np.array_equal(np.asarray(h2, dtype=float), np.asarray(h, dtype=float), equal_nan=True)
                        and (float(p2) == float(p) or (math.isnan(float(p2)) and math.isnan(float(p))))):
                    reuse = f"call {k} on a used test object returned p={float(p2)!r}, history {flo(h2)[:6]}; a fresh object returns p={float(p)!r}, history {flo(h)[:6]}"
                    break
                if not np.array_equal(xa, keep, equal_nan=True):
                    reuse = f"call {k} changed the caller's sample array from {keep[:6].tolist()} to {xa[:6].tolist()}"
                    break
        except Exception as e:  # noqa
            reuse = f"a used test object raised {type(e).__name__} on a sample a fresh object accepts"
        res["reuse"] = reuse
        return res
    if op in ("estim", "bet"):
        f = (lambda o, z: o.estim(z)) if op == "estim" else (lambda o, z: o.bet(z))
        v = f(nm, x)
        # the result is HELD while another, independent object computes on another sample of the same length (two
        # assertions of one contest): what was returned for this sample must still be what it was
        before = bc(v, len(x))
        try:
            other = make_nm(dict(case["init"], t=S(F(case["init"]["t"]) / 8), u_now=None))
            xo = np.array(x, dtype=float)[::-1].copy() / 4
            with np.errstate(all="ignore"):
                f(other, xo)
        except Exception:  # noqa
            pass
        after = bc(v, len(x))
        res = {"st": "ok", "v": before}
        if not np.array_equal(np.asarray(before), np.asarray(after), equal_nan=True):
            res["held"] = (f"the array returned by {op}() changed after an independent object computed on another sample "
                           f"of the same length: {before[:6]} became {after[:6]}")
        return res
    if op == "conv":
        lam = np.array([float(F(v)) for v in case["lam"]])
        mu = np.array([float(F(v)) for v in case["mu"]])
        with np.errstate(all="ignore"):
            if case.get("scalar"):
                # "lam: float or numpy array": one pair of Python floats per call (the generator keeps mu strictly
                # inside (0,u) for these cases: Python floats raise on a division by zero where numpy returns inf)
                eta = [nm.lam_to_eta(float(l), float(m)) for l, m in zip(lam, mu)]
                back = [nm.eta_to_lam(float(e), float(m)) for e, m in zip(eta, mu)]
            else:
                eta = nm.lam_to_eta(lam, mu)
                back = nm.eta_to_lam(eta, mu)
        return {"st": "ok", "eta": flo(eta), "lam_back": flo(back)}
    raise ValueError(op)


def request(case):
    a = {"init": case["init"], "x": case["x"]}
    if case["op"] == "conv":
        a["lam"], a["mu"] = case["lam"], case["mu"]
    return ("nm", case["op"], a)


def compare(case, ir, mr):
    if ir.get("st") != mr.get("st"):
        return f"status differs: impl={ir.get('st')}/{ir.get('err')} model={mr.get('st')}/{mr.get('err')}"
    if ir["st"] == "err":
        return None if ir["err"] == mr["err"] else f"error kind differs: impl {ir['err']} model {mr['err']}"
    op = case["op"]
    if op == "test":
        if not num_close(ir["p"], mr["p"]):
            return f"overall p differs: impl {ir['p']!r} model {mr['p']}"
        if not nums_close(ir["hist"], mr["hist"]):
            bad = [i for i, (a, b) in enumerate(zip(ir["hist"], mr["hist"])) if not num_close(a, b)]
            i = bad[0] if bad else -1
            return (f"history differs at {bad[:5]} (len impl {len(ir['hist'])} model {len(mr['hist'])}): "
                    f"impl {ir['hist'][i] if bad else None!r} model {mr['hist'][i] if bad else None}")
        return None
    if op in ("estim", "bet") and ir.get("held"):
        return ir["held"]
    if op in ("estim", "bet"):
        # sqrt is approximated to 30 digits in the driver; estimates agree to 1e-9
        if not nums_close(ir["v"], mr["v"]):
            bad = [i for i, (a, b) in enumerate(zip(ir["v"], mr["v"])) if not num_close(a, b)]
            return f"{op} differs at {bad[:5]}: impl {[ir['v'][i] for i in bad[:3]]} model {[mr['v'][i] for i in bad[:3]]}"
        return None
    if op == "conv":
        if not nums_close(ir["eta"], mr["eta"], rtol=1e-9):
            return "lam_to_eta differs"
        if not nums_close(ir["lam_back"], mr["lam_back"], rtol=1e-6, atol=1e-9):
            return "eta_to_lam differs"
        return None
    return None


def exact_inputs(case):
    vals = list(case["x"]) + [case["init"]["u"], case["init"]["t"]] + [v for v in case["init"]["kw"].values() if v is not None]
    if case["init"].get("u_now") is not None:
        vals.append(case["init"]["u_now"])
    return all(F(float(F(v))) == F(v) for v in vals)


def fragile(case, ir, mr):
    """inputs on which a branch decision of the code sits within rounding distance of its threshold
    (DESIGN.md 3.2): excluded from the diff (never from the oracle), and counted."""
    if mr.get("st") != "ok":
        return False
    if case.get("stream") == "malformed" and ir.get("st") == "ok":
        # out-of-domain input that the code does not reject (negative observations, g outside [0,1], ...):
        # the float result is dominated by cancellation / signed zeros; only the status and the length of the
        # result are compared (see compare), the numeric diff is skipped and counted here
        key = "hist" if case["op"] == "test" else ("v" if case["op"] in ("estim", "bet") else None)
        if key and len(ir.get(key, [])) == len(mr.get(key, [])):
            return True
    kw_ = case["init"]["kw"]
    if case["init"].get("estim") == "shrink_trunc" and kw_.get("minsd") is not None and F(kw_["minsd"]) > 0 \
            and F(kw_.get("f") or 0) / F(kw_["minsd"]) > F(10) ** 300:
        return True                          # f/minsd overflows in floats (not modelled)
    if case["op"] == "bet" and fragile_bet(case):
        return True
    if case["op"] == "test" and (case["init"].get("test") == "betting_mart") and case["init"].get("bet") == "agrapa" \
            and fragile_bet(case):
        return True                          # the same 0/0 and c/0 discontinuities, reached through the test
    if case["init"].get("estim") == "shrink_trunc" and F(kw_.get("f") or 0) > 0 and case["x"] and not exact_inputs(case):
        # the running sd enters through f/sd: for almost constant data (values differing by less than 1e-6 relative)
        # the float running variance has few correct digits, and with it the estimate
        vals_ = [F(v) for v in case["x"]]
        lo = hi = vals_[0]
        for v_ in vals_[1:]:
            lo, hi = min(lo, v_), max(hi, v_)
            if lo != hi and (hi - lo) < F(1, 10 ** 6) * max(abs(hi), F(1)):
                return True
    if case["op"] == "test" and fragile_cancel(case, mr):
        return True
    init = case["init"]
    if case["op"] in ("estim", "bet"):
        # a null mean / t_adj within rounding distance of 0 or u flips np.minimum(c / t_adj, .) and the clips
        if exact_inputs(case) or not case["x"]:
            return False
        u_ = F(init["u_now"] if init.get("u_now") is not None else init["u"])
        N_ = init["N"]
        if N_ is not None and len(case["x"]) > N_:
            return True
        for m in null_means(N_, F(init["t"]), [F(v) for v in case["x"]]):
            if abs(m) < F(1, 10 ** 9) or abs(m - u_) < F(1, 10 ** 9):
                return True
        return False
    if case["op"] != "test":
        return False
    u = F(init["u_now"] if init.get("u_now") is not None else init["u"])
    atol = F(init["atol"]) if init.get("atol") is not None else 2 * EPS
    rtol_ = F(init["rtol"]) if init.get("rtol") is not None else F(1, 10 ** 6)
    exact = exact_inputs(case)
    ms = [F(v) for v in mr.get("m", [])]
    for m in ms:
        if m != 0 and abs(m) < F(1, 10 ** 9):
            return True
        if not exact and m == 0:
            return True                      # float sum may land on either side of 0
        d = abs(u - m)
        if not exact and d == 0:
            return True
        edge = atol + rtol_ * abs(m)
        if d != 0 and abs(d - edge) <= F(1, 10 ** 9) * max(abs(m), 1):
            return True
        if d != 0 and d < F(1, 10 ** 9):
            return True
    if init["N"] is not None and not exact:
        tot = sum(F(v) for v in case["x"])
        if abs(tot - init["N"] * F(init["t"])) < F(1, 10 ** 9):
            return True
    for r in mr.get("raw", []):
        if r in ("inf", "-inf", "nan"):
            continue
        a = abs(F(r))
        if a > F(10) ** 300:
            return True                      # float overflow region (not modelled)
        if a == 0 and not exact:
            return True                      # an exactly vanishing product is float noise (not 0) in the code
        if a != 0 and atol != 0 and abs(a * (1 - F(1, 10 ** 5)) - atol) <= F(1, 10 ** 6) * atol:
            return True
        if a != 0 and a < F(1, 10 ** 300):
            return True                      # float underflow region
    # overflow region: exact values beyond the float range
    for h in [mr.get("p")] + list(mr.get("hist", [])):
        if h not in ("inf", "-inf", "nan", None) and F(h) != 0 and abs(F(h)) < F(1, 10 ** 290):
            return True
    return False


def fragile_bet(case):
    """aGRAPA divides by the adjusted null mean: `c / t_adj` jumps from +inf to -inf at t_adj = 0, so a float
    N*t - S that rounds to the other side of 0 than the exact value changes the bet from `raw` to 0"""
    init = case["init"]
    if init.get("bet") != "agrapa" or init["N"] is None or not case["x"]:
        return False
    exact = exact_inputs(case)
    xs_ = [F(v) for v in case["x"]][:init["N"]]
    if not exact:
        # the raw bet (mean_j - t_adj)/(var_j + (t_adj - mean_j)^2) is 0/0 in exact arithmetic when the draws so far are
        # all equal to the adjusted null mean; in floats the rounding of t_adj decides between 0 and the cap c/t_adj
        mus_ = null_means(init["N"], F(init["t"]), xs_)
        for j in range(1, len(xs_)):
            if xs_[j - 1] != xs_[0]:
                break                             # the draws so far are no longer all equal
            if xs_[0] == mus_[j]:
                return True
    for m in null_means(init["N"], F(init["t"]), xs_):
        if (m != 0 and abs(m) < F(1, 10 ** 9)) or (m == 0 and not exact):
            return True
    return False


def fragile_cancel(case, mr):
    """ALPHA factor at an observation x_j ~ 0 is (u - eta_j)/(u - mu_j): when eta_j is the float nearest to
    u*(1-eps) (the default alternative) the code's u - eta_j carries a relative error of up to 1/3 (the exact model
    does not round).  Only visible when a later p-value is not 1."""
    init = case["init"]
    if (init.get("test") or "alpha_mart") != "alpha_mart":
        return False
    u = F(init["u_now"] if init.get("u_now") is not None else init["u"])
    est = impl_call(lambda: bc(make_nm(init).estim(xs(case)), len(case["x"])))
    if not isinstance(est, list):
        return False
    uf = float(u)
    hist = mr.get("hist", [])
    for j, (e, xv) in enumerate(zip(est, case["x"])):
        if 0 < uf - e < 1e-7 * uf and abs(F(xv)) < F(1, 1000) * u:
            if any(h != "1" for h in hist[j:]):
                return True
    return False


def signature(case, ir):
    init = case["init"]
    tag = f"{case['op']}:{init.get('test') or 'alpha_mart'}:{'N' if init['N'] is not None else 'inf'}:{case.get('stream')}"
    if ir.get("st") != "ok":
        return tag + ":err:" + str(ir.get("err"))
    if case["op"] == "test":
        h = ir["hist"]
        if len(h) < 2 or all(v == 1.0 for v in h):
            return "trivial:" + tag
        ev = []
        if any(v == 0.0 for v in h):
            ev.append("p0")
        if ir["p"] < 0.05:
            ev.append("small")
        return tag + ":" + ",".join(ev)
    return tag


# ---------------------------------------------------------------------------------------------
# generation

def grid_val(rng, u, dens=(8,)):
    d = rng.choice(dens)
    return F(rng.randint(0, d), d) * u


def gen_x(rng, n, u, t, N, stream):
    if stream == "x==t":
        return [t] * n
    if stream == "zeros":
        return [F(0)] * n
    if stream == "all-u":
        return [u] * n
    if stream == "half-first":     # first observation equals the null mean (aGRAPA 0/0 site)
        return [t] + [grid_val(rng, u) for _ in range(n - 1)]
    kind = rng.random()
    if kind < 0.45:
        x = [grid_val(rng, u) for _ in range(n)]
    elif kind < 0.6:
        x = [rng.choice([F(0), u / 2, u, u, u]) for _ in range(n)]
    elif kind < 0.75:       # comparison-audit like: mostly one value slightly above 1/2
        big = u / 2 + rng.choice([F(0), F(1, 64), F(1, 16)])
        big = min(big, u)
        x = [rng.choice([big] * 8 + [big / 2, F(0)]) for _ in range(n)]
    elif kind < 0.9:
        x = [F(rng.randint(0, q), q) * u for q in [rng.randint(1, 64) for _ in range(n)]]
    else:
        x = [rng.choice([F(0), u]) for _ in range(n)]
    if N is not None and stream in ("sum=Nt", "sum>Nt", "m->0", "m->u"):
        target = N * t
        if stream == "sum=Nt":
            # make the total exactly N*t (if reachable)
            x = fit_total(x, target, u)
        elif stream == "sum>Nt":
            x = fit_total(x, target, u)
            x = bump(x, u)
        elif stream == "m->0":
            k = max(1, n // 2)
            x = fit_total(x[:k], target, u) + [rng.choice([F(0), F(0), u / 8]) for _ in range(n - k)]
        elif stream == "m->u":
            # remaining N-j+1 items would all have to equal u: S_j = N t - (N-j+1) u  (needs t close to u)
            x = [F(0)] * n
    return x


def fit_total(x, target, u):
    x = list(x)
    tot = sum(x)
    i = 0
    while tot != target and i < len(x):
        want = x[i] + (target - tot)
        new = min(max(want, F(0)), u)
        tot += new - x[i]
        x[i] = new
        i += 1
    return x


def bump(x, u):
    x = list(x)
    for i in range(len(x) - 1, -1, -1):
        if x[i] < u:
            x[i] = min(u, x[i] + u / 8)
            break
    return x


TINY_MINSD = [F(1, 10 ** 170), F(sys.float_info.min), F(1, 10 ** 160), F(1, 10 ** 300)]
WILD_LAM = [F(5, 2), F(3), F(10), F(100), F(10 ** 6), -F(1, 2), -F(3), F(21, 10)]


def tiny_minsd_f(rng, minsd):
    """a shrinkage weight f >= 0 for a tiny positive minsd with f/minsd (and u*f/minsd, u <= 2) far below the float
    range's end: `minsd` is only documented as "a positive float"; f = 0 is the default"""
    opts = [F(0), F(0), F(0)] + [f for f in (F(1, 10 ** 10), pow2(20), F(1, 100), F(1)) if f / minsd < F(10) ** 298]
    return rng.choice(opts)


def gen_kw(rng, test, estim, bet, u, t):
    kw = {}
    if test in ("alpha_mart", "wald_sprt"):
        if rng.chance(0.85) or estim is None:
            kw["eta"] = rng.choice([t + (u - t) * F(k, 8) for k in range(1, 8)] + [u * F(15, 16), (t + u) / 2])
        if test == "alpha_mart" and estim is None and rng.chance(0.3):
            kw.pop("eta", None)
        if test == "wald_sprt" and rng.chance(0.25):
            # the documented range of the SPRT alternative is (0, u): also alternatives at or below the null mean
            kw["eta"] = rng.choice([t, t * F(1, 2), t * F(1, 5), t * F(7, 8)])
    if estim == "shrink_trunc":
        if rng.chance(0.7):
            kw["c"] = rng.choice([F(1, 2), F(1, 4), F(1, 8), (F(3, 4) - t) / 2 if F(3, 4) > t else F(1, 8)])
        if rng.chance(0.7):
            kw["d"] = rng.choice([F(1), F(10), F(100), F(1000)])
        if rng.chance(0.5):
            kw["f"] = rng.choice([F(0), F(1, 100), F(1, 2), F(2)])
        if rng.chance(0.4):
            kw["minsd"] = rng.choice([F(1, 10 ** 6), F(1, 100), F(1, 4)])
        if rng.chance(0.15):
            kw["minsd"] = rng.choice(TINY_MINSD)
            kw["f"] = tiny_minsd_f(rng, kw["minsd"])
    if estim == "optimal_comparison" and rng.chance(0.6):
        kw["rate_error_2"] = rng.choice([F(0), F(1, 10 ** 4), F(1, 1000), F(1, 100), F(1, 10), F(1, 2)])
    if test == "betting_mart":
        if bet in (None, "fixed_bet"):
            if rng.chance(0.8) or bet == "fixed_bet":
                kw["lam"] = rng.choice([F(0), F(1, 4), F(1, 2), F(3, 4), F(1)]) / u
        if bet == "agrapa":
            if rng.chance(0.6):
                kw["lam"] = rng.choice([F(0), F(1, 4), F(1, 2), F(1)]) / u
            if rng.chance(0.25):
                kw["lam"] = rng.choice(WILD_LAM)        # aGRAPA clips any initial bet to [0, c/mu_1]
            if rng.chance(0.5):
                kw["c_grapa_0"] = rng.choice([F(1, 2), F(3, 4), F(9, 10)])
            if rng.chance(0.5):
                kw["c_grapa_max"] = rng.choice([F(9, 10), F(99, 100), 1 - EPS])
            if rng.chance(0.5):
                kw["c_grapa_grow"] = rng.choice([F(0), F(1, 10), F(1), F(5)])
    if test in ("kaplan_kolmogorov", "kaplan_markov", "kaplan_wald"):
        if rng.chance(0.8):
            kw["g"] = rng.choice([F(0), F(1, 10), F(1, 4), F(1, 2), F(9, 10)])
    return kw


def gen_case(rng, tier, op="test", force_test=None, us=None):
    test = force_test or rng.choice(TESTS + ["alpha_mart", "betting_mart"])
    estim = rng.choice(ESTIMS) if test == "alpha_mart" else None
    bet = rng.choice(BETS) if test == "betting_mart" else None
    u = rng.choice(us or [F(1), F(1), F(3, 2), F(2), F(17, 16), 1 + F(1, 1024), F(5, 4)])
    if estim == "optimal_comparison" and us is None:
        u = rng.choice([F(17, 16), 1 + F(1, 1024), F(5, 4), F(3, 2), F(2), 1 + F(1, 2 ** 20), F(1)])
    t = rng.choice([F(1, 2)] * 5 + [F(1, 4), F(3, 8), F(3, 4)])
    if t >= u:
        t = u / 2
    nmax = 12 if tier == "quick" else 40
    n = rng.choice([1, 1, 2, 3, 4, 5, 6, 8, nmax])
    if test in ("kaplan_markov", "kaplan_wald"):
        N = None
    elif test == "kaplan_kolmogorov":
        N = rng.choice([n, n + 1, 2 * n, 10 * n])
    else:
        N = rng.choice([None, n, n, n + 1, 2 * n, 10 * n])
    r = rng.random()
    if r < 0.55:
        stream = "regular"
    elif r < 0.9:
        stream = rng.choice(["x==t", "zeros", "all-u", "sum=Nt", "sum>Nt", "m->0", "m->u", "half-first"])
    else:
        stream = "malformed"
    ro = True if rng.chance(0.8) else False
    if stream == "m->u" and N is not None:
        # choose t so that N*t = (N - k)*u for some k, i.e. the null forces the rest to be u after k zeros
        k = rng.randint(1, max(1, min(n, N) - 0))
        if N - k > 0:
            t = F(N - k, N) * u
            if not (0 < t < u):
                t = u / 2
    kw = gen_kw(rng, test, estim, bet, u, t)
    x = gen_x(rng, n, u, t, N, stream if stream != "malformed" else "regular")
    if stream == "malformed":
        m = rng.choice(["empty", "too-long", "negative", "above-u", "bad-g", "sprt-ro"])
        if m == "empty":
            x = []
        elif m == "too-long" and N is not None:
            x = x + [u / 2] * (N - len(x) + 1)
        elif m == "negative":
            x[rng.randrange(len(x))] = -F(1, 8)
        elif m == "above-u":
            x[rng.randrange(len(x))] = u + F(1, 8)
        elif m == "bad-g":
            kw["g"] = rng.choice([-F(1, 10), F(11, 10)])
        elif m == "sprt-ro":
            ro = False
    init = {"test": test, "estim": estim, "bet": bet, "u": S(u), "N": N, "t": S(t), "ro": ro,
            "kw": {k: S(v) for k, v in kw.items()}, "u_now": None}
    if rng.chance(0.1) and stream != "malformed":
        # the audit overwrites test.u after construction (set_p_values): eta/lam defaults are NOT recomputed
        init["u_now"] = S(rng.choice([u, u * F(9, 8), max(u * F(7, 8), t * F(9, 8))]))
        un = F(init["u_now"])
        x = [min(v, un) for v in x]
    case = {"op": op, "init": init, "x": [S(v) for v in x], "stream": stream}
    if x and all(F(v).denominator == 1 for v in x) and rng.chance(0.5):
        case["int_dtype"] = True
    # representations of equal values (see make_nm / xs)
    if rng.chance(0.15):
        init["ro_type"] = rng.choice(["np", "np", "int"])
    if rng.chance(0.1):
        init["pre_fail"] = True
    if rng.chance(0.1):
        init["via_copy"] = True
    if rng.chance(0.1) and any(k in CLASS_KW for k in init["kw"]):
        init["class_kw"] = True
    if op in ("estim", "bet") and not case.get("int_dtype") and 1 < len(x) <= 60 and rng.chance(0.15):
        case["series"] = True       # (the test methods index the sample by label; estimators and bets convert it first)
    if N is None and rng.chance(0.2):
        init["inf_type"] = rng.choice(["math", "float"])
    if not case.get("int_dtype") and any(F(v) == 0 for v in x) and rng.chance(0.1):
        case["negzero"] = True
    return case


def corpus():
    def c(test, x, N=None, estim=None, bet=None, u="1", t="1/2", ro=True, op="test", stream="corpus", **kw):
        return {"op": op, "init": {"test": test, "estim": estim, "bet": bet, "u": u, "N": N, "t": t, "ro": ro,
                                   "kw": {k: v for k, v in kw.items()}, "u_now": None},
                "x": x, "stream": stream}
    def cut(case, k):
        case["cut_hint"] = k
        return case
    return [
        # round 9: the observed total lands EXACTLY on N t (float reformulations of `total > N t` differ only there)
        c("alpha_mart", ["1", "1"], N=50, t="1/25", stream="boundary:corpus"),                 # (1/49)*49 < 1
        c("betting_mart", ["1", "1"], N=50, t="1/25", stream="boundary:corpus"),
        cut(c("alpha_mart", ["1/10", "1/5", "0"], N=3, t="1/10", stream="boundary:corpus"), 2),  # fl(0.3/3) > 0.1
        cut(c("betting_mart", ["1/10", "1/5", "0"], N=3, t="1/10", stream="boundary:corpus"), 2),
        c("alpha_mart", ["1"] * 28 + ["0"] * 11 + ["1"], N=50, t="29/50", stream="boundary:corpus"),  # fl(50*0.58) < 29 = fl(29/50)*50
        c("betting_mart", ["1"] * 28 + ["0"] * 11 + ["1"], N=50, t="29/50", stream="boundary:corpus"),
        # round 9: aGRAPA next to its 0/0 ("running mean = null mean, no variance: do not bet") and its cap c/mu_j
        c("betting_mart", ["3/10", "9/10", "1/5", "2/5"], bet="agrapa", t="3/10", stream="agrapa-edge:corpus"),
        c("betting_mart", ["1/2", "1/2", "1/2", "1/2", "3/4", "1/2", "1/2", "0", "1"], N=10, bet="agrapa", stream="agrapa-edge:corpus"),
        # section 6 witnesses (F01-F08, F21): the repaired code must agree with the model on them
        c("wald_sprt", ["1", "1", "1"], eta="7/10"),
        c("wald_sprt", ["0"], eta="7/10"),
        c("kaplan_kolmogorov", ["1", "0"], N=2, g="0"),
        c("kaplan_kolmogorov", ["0", "1", "1", "1"], N=4, g="0"),
        c("alpha_mart", ["1"], N=5, estim="shrink_trunc", eta="7/10"),
        c("betting_mart", ["1/2", "1", "1", "1"], bet="agrapa"),
        c("alpha_mart", ["1", "1", "0", "0"], eta="7/10", ro=False),
        c("alpha_mart", ["0", "0", "0", "1", "1", "1"], N=6, eta="9/10"),
        c("alpha_mart", ["0"] * 10, N=20, estim="optimal_comparison", u="100005/100000"),
        c("wald_sprt", ["0", "0", "1", "1", "1", "0"], N=6, eta="9/10"),
        c("wald_sprt", ["1", "1", "0", "0"], N=4, eta="3/5"),
        c("wald_sprt", ["0", "1"], N=2, eta="3/5"),
        c("alpha_mart", ["1", "0", "1", "1", "0", "0"], N=6, eta="7/10"),
        c("alpha_mart", ["1", "1", "1", "0"], N=6, eta="7/10"),
        c("betting_mart", ["1", "1", "1", "1"], N=6, bet="fixed_bet", lam="1/2"),
        # F27 (known finding): float overflow of the running product, then a factor that is exactly 0
        c("alpha_mart", ["1"] * 120 + ["0"] + ["1"] * 3, N=10 ** 6, t="1/1000", eta="1", stream="overflow"),
    ]


# ---------------------------------------------------------------------------------------------
# range stress for the shipped estimators and bets (property C13)

def pow2(a):
    return F(1, 2 ** a)


def short(q, spare=10):
    """q is a dyadic rational whose multiples by a population size and sums of <= 40 terms are exact in
    binary64 (so that the sign of N*t - S and the 0/0 site of aGRAPA are decided identically by the floats
    and by the exact model)"""
    q = F(q)
    d = q.denominator
    return d & (d - 1) == 0 and abs(q.numerator).bit_length() + spare <= 53


def range_x(rng, n, u, t, stream, t_ok):
    g = lambda: grid_val(rng, u)
    if stream == "zero-run":           # the fixed alternative becomes impossible (eta_j > u), mu_j grows to u and beyond
        k = rng.randint(n // 2, n)
        return [F(0)] * k + [rng.choice([u, u, u / 2, g()]) for _ in range(n - k)]
    if stream == "u-run":              # eta_j and mu_j fall to 0 and below
        k = rng.randint(n // 2, n)
        return [u] * k + [rng.choice([F(0), F(0), u / 2, g()]) for _ in range(n - k)]
    if stream == "coin":
        return [rng.choice([F(0), u]) for _ in range(n)]
    if stream == "const":
        c = g()
        return [c] * n
    if stream == "t-run" and t_ok:     # sample mean equals the null mean with zero variance (aGRAPA 0/0), then anything
        k = rng.randint(1, n)
        return [t] * k + [g() for _ in range(n - k)]
    return [g() for _ in range(n)]


def range_p2(rng, u):
    """assumed rate of two-vote overstatements.  eta = (1-u(1-p2))/(2-2u) + u(1-p2) - 1/2 is computed by the code
    with an absolute error of about 2^-52/(u-1): keep the exact value either far outside [0,u] (it is clipped),
    or computed without rounding (dyadic p2 with few bits), or the margin large enough for the 1e-9 comparison"""
    delta = u - 1
    if delta <= 0:
        return rng.choice([F(0), F(1, 10 ** 4), F(1, 2)])
    big = [F(1, 10 ** 4), F(1, 1000), F(1, 100), F(1, 10), F(1, 4), F(1, 2)]
    opts = [F(0), F(0)] + [p for p in big if p >= 16 * delta or delta >= pow2(18)]
    a = delta.denominator.bit_length() - 1 if delta.numerator == 1 and short(delta, 0) else None
    if a is not None and a <= 24:
        # interior values eta in (0,u): p2 < 2*delta, exact in binary64 when a + k <= 52
        opts += [pow2(k) for k in range(max(1, a - 1), 52 - a + 1, 3)]
    return rng.choice(opts)


def gen_range_case(rng, tier, op):
    """op in {"estim", "bet", "test"}: configurations at the edges of the documented parameter ranges.
    `estim` / `bet` cases take every parameter to its extremes (estimators are continuous in their inputs; for bets
    t, u and x are dyadic with few bits so that the sign of N*t - S and the 0/0 site are decided exactly).
    `test` cases run the whole martingale on the same samples with parameters kept where the factors are computed
    without catastrophic cancellation (the exact model does not round): u - eta_j and 1 - lambda_j*mu_j are either
    exactly 0 or not smaller than about 1e-4."""
    if op in ("estim", "test") and rng.chance(0.3):
        return gen_range_unow(rng, tier, op)
    mild = op == "test"
    nmax = 12 if tier == "quick" else 40
    n = rng.choice([1, 2, 3, 4, 5, 6, 8, 10, nmax, nmax])
    side = rng.choice(["estim", "bet"]) if op == "test" else op
    u = rng.choice([F(1), F(1), F(3, 2), F(2), F(17, 16), F(5, 4)] + [1 + pow2(a) for a in (1, 4, 10, 20, 30, 40, 40)])
    estim = bet = None
    if side == "estim":
        estim = rng.choice(["fixed_alternative_mean", "shrink_trunc", "shrink_trunc", "optimal_comparison", None])
        if mild and estim == "shrink_trunc":
            estim = rng.choice(["fixed_alternative_mean", "optimal_comparison", None])
        if estim == "optimal_comparison":
            u = rng.choice([F(1)] + [1 + pow2(a) for a in (1, 2, 4, 10, 14, 20, 24, 30, 40, 40)] * 2 + [F(3, 2), F(2)])
    else:
        bet = rng.choice(["agrapa", "agrapa", "fixed_bet", None])
    t = rng.choice([F(1, 2)] * 4 + [F(1, 4), F(3, 8), F(3, 4), u / 2, u / 2])
    N = rng.choice([None, n, n, n, n + 1, n + 2, 2 * n, 10 * n])
    if op == "estim" and estim != "optimal_comparison" and rng.chance(0.12):
        # null mean next to the upper bound (estimators are continuous in t; bets and tests are not exercised here)
        t = u * (1 - pow2(rng.choice([2, 10, 30, 45, 50])))
    if not (0 < t < u):
        t = u / 2
    name = rng.choice(["zero-run", "zero-run", "u-run", "coin", "const", "grid", "t-run"])
    x = range_x(rng, n, u, t, name, short(t) or N is None)
    kw = {}
    if side == "estim":
        if estim in (None, "fixed_alternative_mean", "shrink_trunc") and (rng.chance(0.8) or (estim is None and mild)):
            etas = [t + (u - t) / 8, (t + u) / 2, u - (u - t) / 8]
            if not mild:
                etas += [t + (u - t) * pow2(30), u - (u - t) * pow2(30)]
            kw["eta"] = rng.choice(etas)
        if estim == "shrink_trunc":
            if rng.chance(0.8):
                # c/sqrt(d+j-1) stays above 1e-12, far above the spacing of the floats near u <= 2
                kw["c"] = rng.choice([pow2(30), pow2(10), F(1, 8), F(1, 2), max((u - t) / 2, pow2(30)), F(10)])
            if rng.chance(0.8):
                kw["d"] = rng.choice([pow2(20), F(1), F(10), F(100), F(10 ** 6)])
            if rng.chance(0.7):
                kw["f"] = rng.choice([F(0), pow2(20), F(1, 100), F(1), F(100)])
            if rng.chance(0.7):
                kw["minsd"] = rng.choice([pow2(40), F(1, 10 ** 6), F(1, 100), F(1, 4), F(10)])
            if rng.chance(0.2):
                # a tiny positive threshold (squares underflow) on a sample of >= 3 draws that starts with a run of
                # identical values: the running sd is exactly 0 and only `minsd` keeps the weight of u finite
                kw["minsd"] = rng.choice(TINY_MINSD)
                kw["f"] = tiny_minsd_f(rng, kw["minsd"])
                n = max(n, rng.choice([3, 4, 6, nmax]))
                k = rng.randint(2, n)
                v0 = rng.choice([F(0), u, u / 2, t, grid_val(rng, u)])
                x = [v0] * k + [grid_val(rng, u) for _ in range(n - k)]
                N = rng.choice([None, n, n + 1, 2 * n, 10 * n])
                name = "flat-start"
        if estim == "optimal_comparison" and rng.chance(0.85):
            kw["rate_error_2"] = range_p2(rng, u)
    else:
        if bet in (None, "fixed_bet"):
            if bet == "fixed_bet" or rng.chance(0.7):
                lams = [F(0), F(1, 4), F(1, 2), F(3, 4), F(1)] if mild else [F(0), pow2(30), F(1, 4), F(1, 2), F(1), F(1)]
                kw["lam"] = rng.choice(lams) / u
        else:
            if rng.chance(0.7):
                kw["lam"] = rng.choice([F(0), F(1, 2)] if mild else [F(0), pow2(30), F(1, 2), F(1)]) / u
            if rng.chance(0.3):
                # an aggressive / negative initial bet: like every other bet it must come out clipped to [0, c/mu_1]
                kw["lam"] = rng.choice(WILD_LAM)
            c0 = None
            if rng.chance(0.7) or mild:
                c0s = [F(1, 2), F(3, 4), F(9, 10)] if mild else [F(0), pow2(10), F(1, 2), F(3, 4), F(9, 10), 1 - EPS, F(1)]
                c0 = kw["c_grapa_0"] = rng.choice(c0s)
            if rng.chance(0.7) or mild:
                lo = c0 if c0 is not None else 1 - EPS
                cms = [F(9, 10), F(99, 100)] if mild else [F(1, 2), F(9, 10), F(99, 100), 1 - EPS, F(1)]
                kw["c_grapa_max"] = rng.choice([c for c in cms if c >= lo])
            if rng.chance(0.6):
                kw["c_grapa_grow"] = rng.choice([F(0), pow2(10), F(1, 10), F(1), F(100), F(10 ** 6)])
    test = "alpha_mart" if side == "estim" else "betting_mart"
    init = {"test": test, "estim": estim, "bet": bet, "u": S(u), "N": N, "t": S(t), "ro": rng.chance(0.8),
            "kw": {k: S(v) for k, v in kw.items()}, "u_now": None}
    return {"op": op, "init": init, "x": [S(v) for v in x], "stream": f"c13:{estim or bet or 'default'}:{name}"}


def gen_range_unow(rng, tier, op):
    """shrink_trunc on a test object whose upper bound is re-assigned after construction (`test.u = ...`, as
    Assertion.set_margin_from_cvrs and the margin setters of Audit do: u = the assorter's upper bound 1/(2 share) for a
    polling audit, 2/(2 - margin/upper) for a comparison audit), lowered or raised, with a long run of small values in
    a population hardly larger than the sample: the null mean mu_j climbs to the upper bound, mu_j + c/sqrt(d+j-1)
    passes it, and the estimate has to be truncated at the CURRENT u (and stay above mu_j while mu_j < u)."""
    nmax = 12 if tier == "quick" else 40
    n = rng.choice([6, 8, 10, 12, nmax, nmax])
    u0 = rng.choice([F(1), F(1), F(1), F(5, 4), F(3, 2), F(2)])
    if rng.chance(0.5):     # lowered (super-majority polling: 1/(2 share)), dyadic or not
        un = u0 * rng.choice([F(4, 5), F(2, 3), F(3, 4), F(7, 8), F(10, 11), F(5, 8), 1 - pow2(10)])
    else:                   # raised (comparison audit: 2/(2 - margin))
        un = u0 * rng.choice([F(8, 5), F(9, 8), F(5, 4), F(3, 2), F(2), F(20, 19), 1 + pow2(10)])
    t = rng.choice([F(1, 2)] * 4 + [F(1, 4), F(3, 8), un / 2])
    if not (0 < t < min(u0, un)):
        t = min(u0, un) / 2
    N = rng.choice([n, n, n + 1, n + 2, n + n // 2, 2 * n])
    small = rng.choice([[F(0)], [F(0)], [F(0), F(0), F(0), un / 8], [F(0), un / 16], [un / 8]])
    k = rng.randint(n // 2, n)
    x = [rng.choice(small) for _ in range(k)] + [rng.choice([un, un, un / 2, grid_val(rng, un)]) for _ in range(n - k)]
    kw = {}
    lo, hi = t, min(u0, un)
    if rng.chance(0.75):
        kw["eta"] = rng.choice([lo + (hi - lo) / 8, (lo + hi) / 2, hi - (hi - lo) / 8])
    if rng.chance(0.8):
        kw["c"] = rng.choice([F(1, 2), F(1, 2), F(1, 4), F(1, 8), (hi - t) / 2])
    if rng.chance(0.8):
        kw["d"] = rng.choice([F(1), F(10), F(10), F(100)])
    if rng.chance(0.4):
        kw["f"] = rng.choice([F(0), F(0), F(1, 100), F(1)])
    if rng.chance(0.3):
        kw["minsd"] = rng.choice([F(1, 10 ** 6), F(1, 100), F(1, 4)])
    init = {"test": "alpha_mart", "estim": "shrink_trunc", "bet": None, "u": S(u0), "N": N, "t": S(t),
            "ro": rng.chance(0.8), "kw": {k_: S(v) for k_, v in kw.items()}, "u_now": S(un)}
    return {"op": op, "init": init, "x": [S(v) for v in x],
            "stream": f"c13:shrink_trunc:u-{'lowered' if un < u0 else 'raised'}"}


def gen_c10_late_zero(rng, tier):
    """comparison-audit data for the test the library configures for comparison audits (alpha_mart with
    estim=optimal_comparison, u = 2/(2 - margin) set at construction or assigned afterwards): overstatement-assorter
    values u/2 (CVR and ballot agree), now and then u/4, 3u/4, u (one-vote errors, understatements), and an exact 0
    (two-vote overstatement) that first appears late, after the p-value has already come down (risk part of C10)"""
    nmax = 12 if tier == "quick" else 40
    n = rng.choice([4, 5, 6, 8, 10, nmax, nmax])
    u = rng.choice([F(17, 16), 1 + F(1, 1024), F(5, 4), F(3, 2), F(2), 1 + F(1, 2 ** 20), F(9, 8), 1 + F(1, 64)])
    N = rng.choice([None, None, 100 * n, 10 * n, 2 * n, n + 2])
    k0 = rng.randint(max(1, n // 2), n - 1)
    ok = [u / 2] * 12 + [u / 4, 3 * u / 4, u]
    x = [rng.choice(ok) for _ in range(k0)] + [F(0)] + [rng.choice(ok + [F(0), F(0)]) for _ in range(n - k0 - 1)]
    kw = {}
    if rng.chance(0.6):
        kw["rate_error_2"] = rng.choice([F(0), F(1, 10 ** 4), F(1, 1000), F(1, 100), F(1, 10)])
    init = {"test": "alpha_mart", "estim": "optimal_comparison", "bet": None, "u": S(u), "N": N, "t": "1/2", "ro": True,
            "kw": {k_: S(v) for k_, v in kw.items()}, "u_now": None}
    if rng.chance(0.4):
        init["u"], init["u_now"] = "1", S(u)      # built with the default bound, then `test.u = 2/(2 - margin)`
    return {"op": "test", "init": init, "x": [S(v) for v in x], "stream": "c10:late-zero"}


# ---------------------------------------------------------------------------------------------
# additional streams (generated after the main stream, from a generator of their own: see gen)

LOW_U = [F(3, 4), F(3, 4), F(7, 8), F(5, 8), F(1, 2), F(2, 3)]
NARROW_SIGNED = ["int8", "int8", "int16", "int32"]
NARROW_UNSIGNED = ["uint8", "uint8", "uint16", "uint32", "uint64"]
NARROW_MAX = {"int8": 127, "int16": 32767, "int32": 2 ** 31 - 1, "uint8": 255, "uint16": 65535, "uint32": 2 ** 32 - 1,
              "uint64": 2 ** 64 - 1}


def _cfg(rng, tier, test=None, finite=True):
    """test / estimator / bet for the additional streams"""
    test = test or rng.choice(["alpha_mart", "alpha_mart", "betting_mart", "betting_mart", "kaplan_kolmogorov", "wald_sprt"])
    estim = rng.choice(ESTIMS) if test == "alpha_mart" else None
    bet = rng.choice(BETS) if test == "betting_mart" else None
    return test, estim, bet


def _fixed_bet_for_u(rng, kw, test, bet, u):
    """the default fixed bet, 1/2, is a bet for u <= 2 (documented range [0, 1/u]): with a larger upper bound set one"""
    if test == "betting_mart" and bet in (None, "fixed_bet") and "lam" not in kw and u > 2:
        kw["lam"] = rng.choice([F(1, 4), F(1, 2), F(3, 4), F(1)]) / u


def gen_narrow_int(rng, tier, dtypes):
    """an integer-valued sample handed over as a numpy array of a NARROW integer dtype (compact storage of 0/1 polling
    data or of integer scores): every value fits the dtype, the running total of the sample does not (it passes
    127 / 255 / 32767 / ...).  Either a short sample of large integers in [0,u] (u = 64 .. 30000), or a long 0/1 (0/1/2)
    sample.  The result must be what the same values give as floats (the model works on the values)."""
    dt = rng.choice(dtypes)
    top = NARROW_MAX[dt]
    test, estim, bet = _cfg(rng, tier, test=rng.choice(TESTS + ["alpha_mart", "betting_mart"]))
    long_ok = dt in ("int8", "uint8")
    if long_ok and rng.chance(0.3):
        # long 0/1 sample (0/1/2 with u = 2): n draws, most of them 1, total above the dtype's range
        u = rng.choice([F(1), F(1), F(1), F(2)])
        need = top + rng.randint(2, 30)
        rate = rng.choice([F(6, 10), F(7, 10), F(9, 10)])
        n = int(need / (rate * u)) + rng.randint(5, 25)
        x = [u if rng.random() < float(rate) else rng.choice([F(0), F(0), u - 1]) for _ in range(n)]
        i = 0
        while sum(x) <= top + 1 and i < n:
            x[i] = u
            i += 1
        t = rng.choice([F(1, 2), F(1, 2), F(1, 4)]) * u
        N = rng.choice([n, n + 3, 2 * n, 2 * n, 4 * n, 10 * n, None])
        name = "long"
    else:
        if dt in ("int8", "uint8"):
            u = F(rng.choice([64, 100, 100, 127] if dt == "int8" else [100, 200, 255]))
        elif dt in ("int16", "uint16"):
            u = F(rng.choice([10000, 20000, 30000]))
        else:
            u = F(rng.choice([10 ** 9, 2 ** 30, 2 * 10 ** 9 if dt != "int32" else 2 ** 30]))
        nmax = 12 if tier == "quick" else 40
        n = rng.choice([3, 4, 5, 6, 8, 10, nmax])
        x = [F(int(rng.choice([0, 0, u, u, u, u / 2, u / 2, u * 3 / 4, rng.randint(0, int(u))]))) for _ in range(n)]
        if sum(x) <= top:
            x = [u] * n
        t = rng.choice([u / 2, u / 2, u / 4, u * 3 / 8, u * 3 / 4])
        N = rng.choice([n, n + 1, n + 2, 2 * n, 10 * n, 100 * n, None])
        name = "big"
    if test in ("kaplan_markov", "kaplan_wald"):
        N = None
    elif test == "kaplan_kolmogorov" and N is None:
        N = 2 * n
    kw = gen_kw(rng, test, estim, bet, u, t)
    _fixed_bet_for_u(rng, kw, test, bet, u)
    init = {"test": test, "estim": estim, "bet": bet, "u": S(u), "N": N, "t": S(t), "ro": rng.chance(0.8),
            "kw": {k: S(v) for k, v in kw.items()}, "u_now": None}
    return {"op": "test", "init": init, "x": [S(v) for v in x], "stream": f"dtype:{dt}:{name}", "int_dtype": dt}


def gen_big_fixed_bet(rng, tier):
    """betting_mart with a FIXED bet that is larger than 1/mu_j at some draws while every factor 1 + lam (x_j - mu_j)
    stays positive (C12 is the definition of the statistic for every bet the shipped rule produces; the range
    lam <= 1/u belongs to C13 / C01, whose oracles skip these cases).  Two ways:
      * sampling without replacement, 1/u < lam < 1/t, early draws below the null mean (each just large enough to keep
        its factor positive) so that mu_j climbs past 1/lam, then large draws so that T_j > 1 and the history shows it;
      * lam = 1/u at construction and `test.u` RAISED afterwards (as the audit does for comparison audits), draws
        above the old bound."""
    for _ in range(30):
        nmax = 12 if tier == "quick" else 24
        n = rng.choice([4, 5, 6, 6, 8, 10, nmax])
        N = rng.choice([n, n + 1, n + 2, n + 2, n + 4, 2 * n])
        u_now = None
        if rng.chance(0.3):
            u0 = rng.choice([F(1), F(1), F(5, 4)])
            u = u0 * rng.choice([F(3, 2), F(2), F(5, 4)])
            u_now = u
            t = rng.choice([F(1, 2), F(1, 2), F(3, 8)]) * u0
            lam = rng.choice([F(1), F(1), F(7, 8)]) / u0
        else:
            u0 = u = rng.choice([F(1), F(1), F(1), F(2), F(5, 4), F(3, 4)])
            t = rng.choice([F(1, 2), F(1, 2), F(3, 8), F(1, 4)]) * u
            lam = rng.choice([F(3, 4), F(7, 8), F(15, 16), F(19, 20), F(9, 10)]) / t
            if lam <= 1 / u:
                continue
        k1 = rng.randint(1, max(1, n - 2))
        grid = [u * F(k, 8) for k in range(9)] + [u * F(k, 10) for k in (3, 4, 7)]
        x, s_, T, seen, shown = [], F(0), F(1), False, False
        for j in range(1, n + 1):
            m = (N * t - s_) / (N - j + 1)
            if not (0 < m < u * F(15, 16)):
                break
            ok = sorted(v for v in grid if 1 + lam * (v - m) >= F(1, 16))
            if not ok:
                break
            v = rng.choice(ok[:2]) if j <= k1 else rng.choice([ok[-1], ok[-1], rng.choice(ok)])
            if lam * m > 1 and v != m:
                seen = True
            T *= 1 + lam * (v - m)
            if seen and T > 1:
                shown = True
            x.append(v)
            s_ += v
        if len(x) >= 2 and seen and shown:
            init = {"test": "betting_mart", "estim": None, "bet": rng.choice(["fixed_bet", "fixed_bet", None]),
                    "u": S(u0), "N": N, "t": S(t), "ro": rng.chance(0.8), "kw": {"lam": S(lam)},
                    "u_now": S(u_now) if u_now is not None else None}
            return {"op": "test", "init": init, "x": [S(v) for v in x], "stream": "c12:bet>1/mu"}
    return None


def gen_zero_over_zero(rng, tier):
    """sampling without replacement, null mean t = C/N with C = k*u >= 16 a power of two times u: k draws equal to u make
    the running total hit N*t EXACTLY (the null mean of the remaining N - k items is exactly 0), then one or two 0s
    (ALPHA's factor is 0/0 there), then a value that is not a binary fraction, then a few more draws -- all within the
    population.  From the draw after the 0/0 on, the history is decided by the conventions for mu_j = 0 / mu_j < 0 /
    'total exceeds N t' alone: it has to be 1 or 0, never NaN."""
    for _ in range(50):
        u = rng.choice([F(1), F(1), F(1), F(2), F(4), F(8)])
        k = rng.choice([8, 16, 16, 32, 64] if tier == "quick" else [8, 16, 16, 32, 64, 128])
        C = k * u
        if C < 16:
            continue
        r = rng.randint(3, 8)
        N = k + r
        t = C / N
        if not (float(N) * float(t) == float(C)):
            continue                     # the code forms N*t in floats: keep the configurations where that is exactly C
        test, estim, bet = _cfg(rng, tier, test=rng.choice(["alpha_mart"] * 4 + ["betting_mart", "kaplan_kolmogorov", "wald_sprt"]))
        z = rng.randint(1, min(2, r - 2))
        odd = lambda: u * F(rng.randint(1, 9), rng.choice([3, 5, 7, 9, 10, 11, 13]))
        v = min(odd(), u)
        rest = r - z - 1
        tail = [rng.choice([F(0), F(0), min(odd(), u), u / 2, u]) for _ in range(rng.randint(1, rest))]
        x = [u] * k + [F(0)] * z + [v] + tail
        kw = gen_kw(rng, test, estim, bet, u, t)
        _fixed_bet_for_u(rng, kw, test, bet, u)
        init = {"test": test, "estim": estim, "bet": bet, "u": S(u), "N": N, "t": S(t), "ro": rng.chance(0.6),
                "kw": {a: S(b) for a, b in kw.items()}, "u_now": None}
        return {"op": "test", "init": init, "x": [S(w) for w in x], "stream": "c11:0/0-then-odd"}
    return None


STALE = {"g": [F(0), F(1, 10), F(1, 4), F(2, 5)], "rate_error_2": [F(0), F(1, 100), F(1, 10)],
         "c_grapa_0": [F(1, 2), F(3, 4), F(9, 10)], "c_grapa_max": [F(9, 10), F(99, 100)],
         "c_grapa_grow": [F(0), F(1, 10), F(5)]}


def gen_reassigned(rng, tier):
    """a test object whose keyword parameters (g, eta, lam, c, d, f, minsd, ...) are re-assigned as attributes after
    construction, possibly after the object has been used once and possibly together with `test.u`: the run must be
    that of a fresh object built with the final values (init["kw"] = the values in force)"""
    if rng.chance(0.3):
        # no keyword at all for the alternative / the bet (the defaults depend on u), an explicit estimator or bet
        # handed to the constructor whatever the test, one use, then `test.u` lowered or raised: the defaults in force
        # are those of the CURRENT u
        for _ in range(8):
            c = gen_case(rng, tier, "test")
            init = c["init"]
            if c["stream"] == "malformed" or init["test"] in ("kaplan_kolmogorov", "kaplan_markov", "kaplan_wald"):
                continue
            if init["test"] == "wald_sprt" or rng.chance(0.3):
                init["estim"] = init["estim"] or "shrink_trunc"
            # (an explicit fixed_alternative_mean / fixed_bet needs its eta / lam keyword: the constructor sets the
            # defaults only when no estimator / bet is named)
            drop = set()
            if init["estim"] != "fixed_alternative_mean":
                drop.add("eta")
            if init["bet"] != "fixed_bet":
                drop.add("lam")
            init["kw"] = {k: v for k, v in init["kw"].items() if k not in drop}
            u, t = F(init["u"]), F(init["t"])
            un = rng.choice([max(u * F(1, 2), t * F(9, 8)), max(u * F(3, 4), t * F(9, 8)), u * F(5, 4), u * 2])
            init["u_now"] = S(un)
            init["pre_call"] = True
            c["x"] = [S(min(F(v), un)) for v in c["x"]]
            c.pop("int_dtype", None)
            c["stream"] = "reassigned-u:" + c["stream"]
            return c
        return None
    for _ in range(8):
        c = gen_case(rng, tier, "test")
        init = c["init"]
        keys = [k for k, v in init["kw"].items() if v is not None]
        if c["stream"] == "malformed" or not keys:
            continue
        u, t = F(init["u"]), F(init["t"])
        ctor = {}
        for k in rng.sample(keys, rng.randint(1, len(keys))):
            v = F(init["kw"][k])
            if k in STALE:
                alt = [a for a in STALE[k] if a != v]
            elif k == "eta":
                alt = [a for a in (t + (u - t) * F(j, 8) for j in (1, 3, 5, 7)) if a != v]
            elif k == "lam":
                alt = [a for a in (F(0), F(1, 4) / u, F(3, 4) / u, F(1) / u) if a != v]
            else:                               # c, d, f, minsd: another positive value
                alt = [v * 2, v / 2] if v != 0 else [F(1, 4)]
            ctor[k] = S(rng.choice(alt))
        init["kw_ctor"] = ctor
        init["pre_call"] = rng.chance(0.6)
        c["stream"] = "reassigned:" + c["stream"]
        return c
    return None


def gen_int_params(rng, tier):
    """the problem in units in which u and t are whole numbers, handed over as Python ints (`NonnegMean(u=8, t=4, ...)`:
    points on a 0..8 scale) -- equal to the floats, but an array built from them with np.full / full_like / zeros_like
    has an integer dtype and truncates what is stored into it (round 9)"""
    for _ in range(8):
        c = rescaled(rng, tier, scales=[F(2), F(4), F(8), F(8), F(10), F(16)], op=rng.choice(["test", "bet", "bet", "estim"]))
        if c is None:
            continue
        init = c["init"]
        if all(F(init[k]).denominator == 1 for k in ("u", "t")) and init.get("u_now") is None:
            init["int_params"] = True
            c["stream"] = "intparams:" + c["stream"]
            return c
    return None


def rescaled(rng, tier, scales=None, op="test"):
    """the same problem in other units: every quantity that carries the unit of the observations (x, u, t, eta, c,
    minsd, f, additive padding g, u_now) multiplied by a power of two s (exact in binary64), bets divided by it.
    Populations counted in millionths or in millions are legitimate inputs; the relative tolerances of the masks
    (`isclose(u, mu_j)`) scale with them, the absolute ones (2*eps) do not matter at these magnitudes."""
    for _ in range(8):
        c = gen_case(rng, tier, op) if op == "test" else \
            gen_case(rng, tier, op, force_test="alpha_mart" if op == "estim" else "betting_mart")
        init = c["init"]
        if c["stream"] == "malformed" or init.get("estim") == "optimal_comparison" or c.get("int_dtype"):
            continue
        s_ = rng.choice(scales or [F(1, 2 ** 20), F(1, 2 ** 20), F(1, 2 ** 24), F(1, 2 ** 30), F(1, 2 ** 10), F(2 ** 10), F(2 ** 20)])
        test = init["test"]
        for k in ("u", "t", "u_now"):
            if init.get(k) is not None:
                init[k] = S(F(init[k]) * s_)
        kw = init["kw"]
        for k in ("eta", "c", "minsd", "f"):
            if kw.get(k) is not None:
                kw[k] = S(F(kw[k]) * s_)
        if kw.get("g") is not None and test in ("kaplan_kolmogorov", "kaplan_markov"):
            kw["g"] = S(F(kw["g"]) * s_)            # additive padding; kaplan_wald's g is a fraction
        if kw.get("lam") is not None:
            kw["lam"] = S(F(kw["lam"]) / s_)
        elif test == "betting_mart":
            kw["lam"] = S(F(1, 2) / s_)          # the default bet 1/2 of the unscaled problem, in the new units
        c["x"] = [S(F(v) * s_) for v in c["x"]]
        c["stream"] = f"scale{'-' if s_ < 1 else '+'}:" + c["stream"]
        return c
    return None


def gen_long(rng, tier):
    """estimators and bets on LONG samples (1 000 - 1 300 and 10 001 - 10 400 draws; samples of that size arise as the
    tiled populations of sample_size and in audits of large contests): whatever a function does differently for long
    inputs, its value at draw j is still a function of the first j - 1 draws.  Only `estim` / `bet` (the exact product
    of ten thousand factors is left to the shorter samples)."""
    op = rng.choice(["estim", "bet", "bet"])
    n = rng.choice([rng.randint(1001, 1300), rng.randint(10001, 10400), rng.randint(10001, 10400)])
    u = rng.choice([F(1), F(1), F(2), F(5, 4)])
    t = rng.choice([F(1, 2), F(1, 2), F(3, 8)])
    N = rng.choice([None, 2 * n, n + 7, 10 * n])
    vals = [F(0), u, u / 2, u / 4, 3 * u / 4, t]
    # mostly constant stretches with occasional changes: the running variance moves at known places
    x, cur = [], rng.choice(vals)
    for _ in range(n):
        if rng.chance(0.02):
            cur = rng.choice(vals)
        x.append(cur if rng.chance(0.9) else rng.choice(vals))
    if op == "estim":
        test, estim, bet = "alpha_mart", rng.choice(["shrink_trunc", "shrink_trunc", "fixed_alternative_mean"]), None
        kw = {"eta": (t + u) / 2, "f": rng.choice([F(1, 2), F(1, 100), F(2)]), "d": rng.choice([F(10), F(100)])} \
            if estim == "shrink_trunc" else {"eta": (t + u) / 2}
    else:
        test, estim, bet = "betting_mart", None, rng.choice(["agrapa", "agrapa", "fixed_bet"])
        kw = {"lam": F(1, 2) / u}
    init = {"test": test, "estim": estim, "bet": bet, "u": S(u), "N": N, "t": S(t), "ro": True,
            "kw": {k: S(v) for k, v in kw.items()}, "u_now": None}
    return {"op": op, "init": init, "x": [S(v) for v in x], "stream": f"long:{estim or bet}:{'10k' if n > 10000 else '1k'}"}


def gen_tol(rng, tier):
    """alpha_mart / betting_mart called with the optional keywords `atol`, `rtol` (tolerances of the three masks),
    on samples that drive the null mean exactly to 0 or to u, make the total hit N t, or are ordinary:
    zero tolerances (the masks must still catch the exact hits), tiny ones, and wide ones"""
    for _ in range(8):
        c = gen_case(rng, tier, "test", force_test=rng.choice(["alpha_mart", "betting_mart"]))
        if c["stream"] in ("malformed", "x==t"):
            continue
        if c["stream"] == "regular" and rng.chance(0.6):
            continue
        c["init"]["atol"] = S(rng.choice([F(0), F(0), F(1, 10 ** 12), F(1, 10 ** 6), F(1, 8)]))
        if rng.chance(0.7):
            c["init"]["rtol"] = S(rng.choice([F(0), F(0), F(1, 10 ** 6), F(1, 100), F(1, 4)]))
        c["stream"] = "tol:" + c["stream"]
        return c
    return None


def gen_t_edge(rng, tier):
    """the null mean ON the boundary of its range (t = u or t = 0; outside 0 < t < u, so no oracle speaks, but the code
    accepts it and the masks `mu_j is 0 / is u` are what keeps 0/0 out of the history): correspondence only"""
    for _ in range(8):
        c = gen_case(rng, tier, "test", force_test=rng.choice(["alpha_mart", "alpha_mart", "betting_mart", "wald_sprt"]))
        if c["stream"] == "malformed":
            continue
        init = c["init"]
        u = F(init["u_now"] if init.get("u_now") is not None else init["u"])
        init["t"] = S(rng.choice([u, u, F(0)]))
        init["kw"].pop("eta", None)
        c["stream"] = "t-edge:" + c["stream"]
        return c
    return None


def gen_boundary(rng, tier):
    """the observed total lands EXACTLY on N t (round 9): `p = 0 once the total exceeds N t` is a strict comparison at an
    exact threshold, and algebraically equal float forms of it (S/N > t, S - N t > 0, ...) differ exactly there.
    (a) 0/1 draws from N cards, t = K/N, the K-th one drawn last; (b) draws that are small multiples of a decimal t
    (N = 3, t = 0.1: 0.1, 0.2).  Optionally followed by zeros (the total stays on the threshold)."""
    for _ in range(8):
        c = gen_case(rng, tier, "test", force_test=rng.choice(["alpha_mart", "betting_mart"]))
        if c["stream"] == "malformed":
            continue
        init = c["init"]
        init["u"], init["u_now"] = "1", None
        init["kw"].pop("eta", None)
        if F(init["kw"].get("lam") or 0) > 1:
            init["kw"]["lam"] = "1/2"
        for k_ in ("series", "int_dtype", "negzero"):
            c.pop(k_, None)
        if rng.chance(0.5):
            N = rng.choice([3, 5, 6, 7, 9, 10, 11, 12, 15, 20, 25, 30, 40, 50, 60])
            K = rng.randint(1, N - 1)
            if rng.chance(0.6):
                N, K = rng.choice(_OFF_PAIRS)      # the float product N * (K/N) is not K
            n = rng.randint(K, N)
            if rng.chance(0.3):
                # N - n + 1 cards left before the last draw, a number k with (1/k) * k != 1 in floats (49, 98, 103, 107)
                N = rng.randint(50, 60)
                n = N - 48
                K = rng.randint(1, n)
                c["_keep_last"] = True
            head = [F(1)] * (K - 1) + [F(0)] * (n - K)
            rng.shuffle(head)
            x = head + [F(1)]
            t = F(K, N)
        else:
            N = rng.choice([3, 5, 6, 7, 9, 11, 12])
            t = F(rng.choice([1, 2, 3, 4]), rng.choice([10, 10, 100]))
            parts = []
            left = N
            while left > 0:
                m = rng.randint(1, min(left, max(1, int(1 / t))))
                parts.append(m); left -= m
            rng.shuffle(parts)
            x = [m * t for m in parts]
            if any(v > 1 for v in x) or len(x) > N:
                continue
        b = len(x)
        if c.pop("_keep_last", False):
            pass
        elif len(x) < N and rng.chance(0.7):
            x.append(F(0))
        while len(x) < N and rng.chance(0.3):
            x.append(F(0))
        if len(x) > b:
            c["cut_hint"] = b               # C05's truncation clause cuts there
        init["N"], init["t"] = N, S(t)
        c["x"] = [S(v) for v in x]
        c["stream"] = "boundary:" + c["stream"]
        return c
    return None


_OFF_PAIRS = [(N_, K_) for N_ in range(3, 61) for K_ in range(1, N_) if N_ * (K_ / N_) != K_]


def gen_agrapa_edge(rng, tier):
    """aGRAPA where its formula is discontinuous or its cap binds (round 9): the first draw equal to the null mean (0/0:
    "do not bet"), low-variance runs just above the null mean from a small population (the bet sits on the cap c/mu_j,
    lam_j mu_j = 1 - eps), then an exact 0 (the factor 1 - lam_j mu_j must not go negative)"""
    t = rng.choice([F(3, 10), F(1, 10), F(7, 10), F(1, 2), F(1, 2), F(1, 4)])
    N = rng.choice([None, None, 10, 10, 12, 20])
    n = rng.randint(3, 9) if N is None else rng.randint(3, min(9, N))
    grid = [t, t, F(1, 2), F(3, 4), F(1), F(9, 10), F(1, 5), F(2, 5), F(0)]
    x = [t if rng.chance(0.6) else rng.choice(grid)] + [rng.choice(grid) for _ in range(n - 1)]
    if rng.chance(0.5) and n >= 4:
        x = [rng.choice([F(1, 2), F(3, 4), F(1), t]) for _ in range(n - 2)] + [F(0), rng.choice([F(1), F(0), F(1, 2)])]
    return {"op": rng.choice(["test", "test", "bet"]), "stream": "agrapa-edge",
            "init": {"test": "betting_mart", "estim": None, "bet": "agrapa", "u": "1", "N": N, "t": S(t), "ro": True,
                     "kw": {}, "u_now": None},
            "x": [S(v) for v in x]}


def _single_rounding(xd):
    """xd: the draws as the doubles the code receives (Fractions).  True when every running float total but the last
    is exact, so that the float total of all of them is the exact total rounded ONCE (and float comparisons with
    another once-rounded quantity are monotone in the exact values)"""
    s = 0.0
    e = F(0)
    for v in xd[:-1]:
        s = s + float(v)
        e += v
        if F(s) != e:
            return False
    return True


def gen_extra(rng, tier):
    r = rng.random()
    if r < 0.12:
        return gen_boundary(rng, tier)
    if r < 0.20:
        return gen_int_params(rng, tier)
    if r < 0.27:
        return gen_agrapa_edge(rng, tier)
    r = rng.random()
    if r < 0.05:
        return gen_long(rng, tier)
    if r < 0.10:
        return gen_t_edge(rng, tier)
    if r < 0.20:
        return gen_tol(rng, tier)
    r = rng.random()
    if r < 0.18:
        return gen_reassigned(rng, tier)
    if r < 0.36:
        return rescaled(rng, tier)
    r = rng.random()
    if r < 0.30:
        return gen_narrow_int(rng, tier, NARROW_SIGNED + NARROW_UNSIGNED)
    if r < 0.55:
        return gen_big_fixed_bet(rng, tier)
    if r < 0.85:
        return gen_zero_over_zero(rng, tier)
    op = rng.choice(["test", "test", "test", "estim", "bet"])
    return gen_case(rng, tier, op, force_test={"estim": "alpha_mart", "bet": "betting_mart"}.get(op), us=LOW_U)


LIST_OK_TESTS = ("alpha_mart", "betting_mart", "kaplan_kolmogorov")


def gen_options(rng, tier):
    """call forms the other streams never use (option-coverage audit, OPTIONS_AUDIT.md):
      * `omit`: constructor arguments left at their defaults (NonnegMean() is alpha_mart with u=1, N=inf, t=1/2,
        random_order=True): the case's values ARE the defaults, the call simply does not spell them out;
      * `x_form`: the sample as a Python list / tuple instead of an array, for the tests, estimators and bets that
        document "x: list" and accept one (alpha_mart, betting_mart, kaplan_kolmogorov; estim / bet);
      * `scalar`: the conversion functions called with Python floats, one pair at a time.
    None of them changes the configuration or the sample, so the model request is the ordinary one."""
    r = rng.random()
    if r < 0.45:
        for _ in range(12):
            op = rng.choice(["test", "test", "test", "estim", "bet"])
            c = gen_case(rng, tier, op, force_test={"estim": "alpha_mart", "bet": "betting_mart"}.get(op), us=[F(1)])
            init = c["init"]
            if c["stream"] == "malformed":
                continue
            # make more of the values the defaults (t = 1/2 already is, 5 times in 8): sampling with replacement,
            # random order; then leave a random non-empty subset of the default-valued arguments out of the call
            if rng.chance(0.5) and init["test"] not in ("kaplan_kolmogorov",) and c["stream"] in ("regular", "x==t", "zeros", "all-u", "half-first"):
                init["N"] = None
            if rng.chance(0.6) and not (init["test"] == "wald_sprt"):
                init["ro"] = True
            dflt = [k for k, ok in (("u", init.get("u_now") is None), ("N", init["N"] is None), ("t", F(init["t"]) == F(1, 2)),
                                    ("random_order", init["ro"] is True), ("test", init["test"] == "alpha_mart")) if ok]
            if not dflt:
                continue
            init["omit"] = sorted(rng.sample(dflt, rng.randint(1, len(dflt)))) if rng.chance(0.6) else sorted(dflt)
            c["stream"] = "omit:" + c["stream"]
            return c
        return None
    if r < 0.85:
        for _ in range(12):
            op = rng.choice(["test", "test", "test", "estim", "bet"])
            c = gen_case(rng, tier, op, force_test={"estim": "alpha_mart", "bet": "betting_mart"}.get(op) or rng.choice(LIST_OK_TESTS))
            if c["stream"] == "malformed":
                continue
            c["x_form"] = rng.choice(["list", "list", "tuple"])
            c["stream"] = c["x_form"] + ":" + c["stream"]
            return c
        return None
    c = gen_case(rng, tier, "conv", force_test="betting_mart")
    u = F(c["init"]["u_now"] if c["init"].get("u_now") is not None else c["init"]["u"])
    m = max(1, len(c["x"]))
    c["lam"] = [S(rng.choice([F(0), F(1, 4), F(1, 2), F(1), F(3, 2)]) / u) for _ in range(m)]
    c["mu"] = [S(rng.choice([F(1, 8), F(1, 4), F(1, 2), F(3, 4), F(7, 8)]) * u) for _ in range(m)]
    c["scalar"] = True
    c["stream"] = "scalar:" + str(c["stream"])
    return c


def gen(rng, n, tier):
    # the additional streams draw from a generator of their own, derived from (not drawn from) the run's generator,
    # and come after the main stream: the main stream is exactly what it was before they existed
    sub = Rng(int(hashlib.sha1(repr(rng.getstate()).encode()).hexdigest()[:15], 16))
    opt = Rng(int(hashlib.sha1(("options" + repr(rng.getstate())).encode()).hexdigest()[:15], 16))
    k = 0
    while k < n:
        r = rng.random()
        if r < 0.04:
            yield gen_c10_late_zero(rng, tier)
        elif r < 0.60:
            yield gen_case(rng, tier, "test")
        elif r < 0.66:
            yield gen_range_case(rng, tier, "test")
        elif r < 0.72:
            yield gen_case(rng, tier, "estim", force_test="alpha_mart")
        elif r < 0.82:
            yield gen_range_case(rng, tier, "estim")
        elif r < 0.87:
            yield gen_case(rng, tier, "bet", force_test="betting_mart")
        elif r < 0.95:
            yield gen_range_case(rng, tier, "bet")
        else:
            c = gen_case(rng, tier, "conv", force_test="betting_mart")
            u = F(c["init"]["u"])
            m = len(c["x"])
            c["lam"] = [S(rng.choice([F(0), F(1, 4), F(1, 2), F(1), F(3, 2)]) / u) for _ in range(m)]
            c["mu"] = [S(rng.choice([F(1, 8), F(1, 4), F(1, 2), F(3, 4), F(0), u]) * rng.choice([1, u])) for _ in range(m)]
            c["mu"] = [v if F(v) <= u else S(u) for v in c["mu"]]
            yield c
        k += 1
    k = 0
    while k < max(12, n // 7):
        c = gen_extra(sub, tier)
        if c is not None:
            yield c
            k += 1
    k = 0
    while k < max(10, n // 12):
        c = gen_options(opt, tier)
        if c is not None:
            yield c
            k += 1


# ---------------------------------------------------------------------------------------------
# oracles (implementation side; independent of the model)

def valid_for_wellformed(case):
    """the guard of C11: non-empty sample in [0,u], no longer than the population, 0 < t < u,
    parameters in their documented ranges"""
    if case["op"] != "test" or case.get("stream") == "malformed":
        return False
    init = case["init"]
    u = F(init["u_now"] if init.get("u_now") is not None else init["u"])
    t = F(init["t"])
    x = [F(v) for v in case["x"]]
    if not x or not (0 < t < u) or any(v < 0 or v > u for v in x):
        return False
    if init["N"] is not None and len(x) > init["N"]:
        return False
    kw = {k: F(v) for k, v in init["kw"].items() if v is not None}
    if "g" in kw and not (0 <= kw["g"] < 1):
        return False
    if "eta" in kw and not (t < kw["eta"] <= u) and (init["test"] or "alpha_mart") == "alpha_mart":
        return False
    if "eta" in kw and not (0 < kw["eta"] <= u) and init["test"] == "wald_sprt":
        return False
    if (init["test"] == "wald_sprt") and init["N"] is not None and not init["ro"]:
        return False
    if init["test"] == "kaplan_kolmogorov" and init["N"] is None:
        return False
    if init.get("atol") is not None and not (0 <= F(init["atol"]) < F(1, 2)):
        return False
    if init.get("rtol") is not None and not (0 <= F(init["rtol"])):
        return False
    return True


def _overflow_before(case, h, i):
    """the NaN at index i is preceded by p-values that are exactly 0.0 although the sample total never
    exceeded N*t there (so the 0 comes from the running product having overflowed to inf, not from the
    `m < 0` rule): the class of the known finding F27"""
    init = case["init"]
    N, t = init["N"], F(init["t"])
    x = [F(v) for v in case["x"]]
    for k in range(i):
        if h[k] == 0.0 and (N is None or sum(x[:k + 1]) <= N * t):
            return True
    return False


def oracle_c11(case, ir):
    if not valid_for_wellformed(case):
        return None
    init_ = case["init"]
    if init_.get("test") == "betting_mart" and init_.get("bet") in (None, "fixed_bet"):
        # documented range of a FIXED bet: [0, 1/u] with u the test's CURRENT upper bound (C13.BetGuard, the guard of
        # wellformed_run_betting); `test.u` raised after construction can leave lam = 1/u_old above it
        u_ = F(init_["u_now"] if init_.get("u_now") is not None else init_["u"])
        lam_ = F(init_["kw"]["lam"]) if init_["kw"].get("lam") is not None else F(1, 2)
        if not (0 <= lam_ <= 1 / u_):
            return None
    if ir.get("st") != "ok":
        if ir.get("err") == "ZeroDivisionError" and case["init"].get("estim") == "optimal_comparison" \
                and F(case["init"]["u_now"] or case["init"]["u"]) == 1:
            return None   # documented: optimal_comparison needs u > 1 (comparison audits); Python-float u = 1 divides by zero
        return {"what": f"test raised {ir.get('err')}: {ir.get('msg')}"}
    p, h = ir["p"], ir["hist"]
    if len(h) != len(case["x"]):
        return {"what": f"history has {len(h)} entries for {len(case['x'])} observations"}
    for i, v in enumerate(h):
        if math.isnan(v) or v < 0 or v > 1:
            out = {"what": f"history entry {i} = {v!r} is not in [0,1]"}
            if math.isnan(v) and _overflow_before(case, h, i):
                out["finding"] = "F27:overflow-then-zero-factor"
            return out
    if math.isnan(p) or p < 0 or p > 1:
        return {"what": f"overall p-value {p!r} is not in [0,1]"}
    want = min(h) if case["init"]["ro"] else h[-1]
    if abs(p - want) > 1e-12 * max(1.0, abs(want)):
        return {"what": f"overall p-value {p!r} != {'min' if case['init']['ro'] else 'last'}(history) = {want!r}"}
    return None


def null_means(N, t, x):
    out, s = [], F(0)
    for j, v in enumerate(x, start=1):
        out.append(t if N is None else (N * t - s) / (N - j + 1))
        s += v
    return out


def oracle_c12(case, ir):
    """recompute the defining product with exact fractions from the implementation's own estimator/bet
    output and compare with the reported history on the indices whose null mean is regular"""
    if case.get("op") == "conv":
        return _oracle_conv(case, ir)
    if not valid_for_wellformed(case) or ir.get("st") != "ok":
        return None
    if case.get("op") == "test" and ir.get("reuse") and not any(math.isnan(v) for v in [ir["p"]] + ir["hist"]):
        # the statistic reported for a sample is a function of that sample (and the configuration) alone
        return {"what": "the reported statistic is not the defined function of the sample: " + ir["reuse"]}
    init = case["init"]
    test = init["test"] or "alpha_mart"
    u = F(init["u_now"] if init.get("u_now") is not None else init["u"])
    t = F(init["t"])
    N = init["N"]
    x = [F(v) for v in case["x"]]
    kw = {k: F(v) for k, v in init["kw"].items() if v is not None}
    g = kw.get("g", F(0))
    nm = make_nm(init)
    xa = xs(case)
    T = F(1)
    dead = False
    # tolerances of the masks (call-time keywords; defaults 2 eps and 1e-6): indices inside a mask's band, or near it,
    # are not "regular" and are left to the correspondence
    atol_ = F(init["atol"]) if init.get("atol") is not None else 2 * EPS
    rtol_ = F(init["rtol"]) if init.get("rtol") is not None else F(1, 10 ** 6)
    if test in ("alpha_mart", "betting_mart", "wald_sprt"):
        mu = null_means(N, t, x)
        if test == "alpha_mart":
            par = impl_call(lambda: bc(nm.estim(xa), len(x)))
        elif test == "betting_mart":
            par = impl_call(lambda: bc(nm.bet(xa), len(x)))
        else:
            eta = kw.get("eta", u * (1 - EPS))
            par = [float(v) if N is None else float(min(u, vv)) for v, vv in
                   zip([eta] * len(x), [((N * eta - s) / (N - j + 1)) if N is not None else eta
                                        for j, s in enumerate(prefix(x), start=1)])]
        if isinstance(par, dict):
            return None
        # the shipped fixed parameters are what their definitions say
        if test == "betting_mart" and (init.get("bet") in (None, "fixed_bet")):
            lam0 = float(kw.get("lam", F(1, 2)))
            for j, pj in enumerate(par):
                if not (abs(pj - lam0) <= 1e-12 * max(1.0, abs(lam0))):
                    return {"what": f"fixed_bet: the bet on observation {j + 1} is {pj!r}, the fixed bet is lam = {lam0!r}"}
        if test == "alpha_mart" and init.get("estim") in (None, "fixed_alternative_mean") and ("eta" in kw or init.get("estim") is None):
            eta0 = kw.get("eta", t + (u - t) / 2 if init.get("u_now") is None else t + (F(init["u"]) - t) / 2)
            for j, (s0, pj) in enumerate(zip(prefix(x), par)):
                want = eta0 if N is None else (N * eta0 - s0) / (N - j)
                want = min(want, u)
                if abs(pj - float(want)) > 1e-9 * max(1.0, abs(float(want))):
                    return {"what": f"fixed_alternative_mean: eta_{j + 1} = {pj!r} but min(u, (N eta - S_j)/(N-j+1)) = {float(want)!r}"}
        if test == "alpha_mart" and init.get("estim") == "optimal_comparison" and u != 1 and not init.get("class_kw"):
            # eta = (1 - u(1-p2))/(2 - 2u) + u(1-p2) - 1/2 with p2 = rate_error_2 (default 1e-4; 0 is a legitimate value:
            # "no two-vote overstatements"), clipped to [0, u]; alpha_mart then uses max(eta, mu_j)
            p2 = kw["rate_error_2"] if "rate_error_2" in kw else F(1, 10 ** 4)
            eta_def = min(u, max(F(0), (1 - u * (1 - p2)) / (2 - 2 * u) + u * (1 - p2) - F(1, 2)))
            for j, pj in enumerate(par):
                if pj == pj and abs(pj - float(eta_def)) > 1e-9 * max(1.0, abs(float(eta_def))):
                    return {"what": f"optimal_comparison: eta_{j + 1} = {pj!r} but the definition with u = {float(u)!r}, "
                                    f"rate_error_2 = {float(p2)!r} gives {float(eta_def)!r}"}
        for j, (xj, m) in enumerate(zip(x, mu)):
            pj = par[j]
            if math.isnan(pj) or math.isinf(pj):
                return None
            pj = F(pj)
            regular = 0 < m < u and abs(m) > max(F(1, 10 ** 6) * u, 10 * atol_) and \
                abs(u - m) > 100 * (atol_ + rtol_ * abs(m)) + F(1, 10 ** 9) * u
            if m > u + F(1, 10 ** 6) * u and not dead:
                if ir["hist"][j] != 1.0:
                    return {"what": f"null mean {float(m)} > u at index {j} but p_j = {ir['hist'][j]!r} (should be 1)"}
                dead = True
            if not regular:
                dead = True   # after an irregular index numpy's cumprod may carry inf/nan; stop comparing
            if dead:
                continue
            if test in ("alpha_mart", "wald_sprt"):
                e = min(u, max(pj, m))   # alpha_mart and (repaired) wald_sprt use an alternative in [mu_j, u]
                fac = (xj * e / m + (u - xj) * (u - e) / (u - m)) / u
            else:
                fac = 1 + pj * (xj - m)
            T *= fac
            if abs(T) < max(F(1, 10 ** 12), 10 * atol_):
                dead = True
                continue
            # C12 is the identity history = min(1, 1/T_j), whatever the sign of T_j: a negative product (possible only
            # for a fixed bet outside [0, 1/u], e.g. after test.u was raised) is C11's / C13's business, not a C12 failure
            want = min(F(1), 1 / T)
            last = (j == len(x) - 1)
            if last and N is not None and not exact_inputs(case) and abs(sum(x) - N * t) < F(1, 10 ** 9):
                continue   # the float total may land on either side of N*t: the final-sample rule is undecided
            if last and N is not None and sum(x) > N * t and test != "wald_sprt":
                want = F(0)
            if abs(ir["hist"][j] - float(want)) > 1e-7 * max(1.0, abs(float(want))):
                return {"what": f"{test}: history[{j}] = {ir['hist'][j]!r} but min(1, 1/T_j) = {float(want)!r} "
                                f"with T_j the defining product (mu_j={float(m)}, parameter={float(pj)})"}
        if N is not None and test in ("alpha_mart", "betting_mart") and not dead and not exact_inputs(case) and \
                abs(sum(x) - N * t) < F(1, 10 ** 9) and not case.get("int_dtype") and \
                (len(x) < 2 or (ir["hist"][-2] == ir["hist"][-2] and ir["hist"][-2] > 1e-100)):
            # the total is within rounding distance of N t.  (i) decidable all the same when the float total is the
            # exact total of the doubles rounded once; (ii) whatever the verdict, it is a function of (x, N, t) alone:
            # the ALPHA and the betting form of the real code must agree on it (C12: identical p-values)
            xd_ = [F(float(v)) for v in x]
            fired = ir["hist"][-1] == 0.0
            if fired and _single_rounding(xd_) and sum(xd_) <= N * F(float(t)):
                return {"what": f"{test}: the draws total exactly {float(sum(xd_))!r} (as the doubles handed over), N t is "
                                f"exactly {float(N * F(float(t)))!r}: the total does not exceed N t, yet the last p-value is 0"}
            other = "betting_mart" if test == "alpha_mart" else "alpha_mart"
            sib = {"test": other, "estim": None, "bet": None, "u": init["u"], "u_now": init.get("u_now"), "N": N,
                   "t": init["t"], "ro": init["ro"], "kw": {}}
            r2 = impl_call(lambda: make_nm(sib).test(np.array([float(v) for v in x])))
            if not isinstance(r2, dict):
                h2 = flo(r2[1])
                if (len(h2) < 2 or (h2[-2] == h2[-2] and h2[-2] > 1e-100)) and h2[-1] == h2[-1] and (h2[-1] == 0.0) != fired:
                    return {"what": f"total {float(sum(x))!r} against N t = {float(N * t)!r}: {test} "
                                    f"{'sets' if fired else 'does not set'} the last p-value to 0 (history[-1] = {ir['hist'][-1]!r}) "
                                    f"but {other} on the same sample {'does' if h2[-1] == 0.0 else 'does not'} "
                                    f"(history[-1] = {h2[-1]!r}): 'the total exceeds N t' is decided differently by the two forms"}
        if N is not None and sum(x) > N * t and test in ("alpha_mart", "betting_mart") and \
                (exact_inputs(case) or abs(sum(x) - N * t) >= F(1, 10 ** 9)):
            if ir["hist"][-1] != 0.0 or (init["ro"] and ir["p"] != 0.0):
                return {"what": f"sample total {float(sum(x))} > N t = {float(N * t)} but the last p-value is {ir['hist'][-1]!r}, overall {ir['p']!r}"}
        return None
    if test == "kaplan_kolmogorov":
        mu = null_means(N, t + g, [v + g for v in x])
        Sg = F(0)
        for j, (xj, m) in enumerate(zip(x, mu)):
            if m <= F(1, 10 ** 9):
                return None
            # the conditional null mean is a difference N(t+g) - S_j: when it is more than six orders of magnitude
            # smaller than its terms the float value carries a relative error above the tolerance used below
            # (catastrophic cancellation, not a property of the method): undecidable in floats from here on
            if N is not None and abs(N * (t + g) - Sg) < F(1, 10 ** 6) * max(abs(N * (t + g)), abs(Sg), F(1)) \
                    and not exact_inputs(case):
                return None
            Sg += xj + g
            T *= (xj + g) / m
            if T == 0:
                want = 1.0
            else:
                want = float(min(F(1), 1 / T))
            if abs(ir["hist"][j] - want) > 1e-7:
                return {"what": f"kaplan_kolmogorov: history[{j}] = {ir['hist'][j]!r} but min(1, 1/T_j) = {want!r}"}
            if T == 0:
                return None
        return None
    if test == "kaplan_markov":
        P = F(1)
        for j, xj in enumerate(x):
            if xj + g == 0:
                return None
            P *= (t + g) / (xj + g)
            want = float(min(F(1), P))
            if abs(ir["hist"][j] - want) > 1e-7 * max(1.0, want):
                return {"what": f"kaplan_markov: history[{j}] = {ir['hist'][j]!r} but min(1, prod (t+g)/(x+g)) = {want!r}"}
        return None
    if test == "kaplan_wald":
        for j, xj in enumerate(x):
            T *= (1 - g) * xj / t + g
            if T == 0:
                return None
            want = float(min(F(1), 1 / T))
            if abs(ir["hist"][j] - want) > 1e-7 * max(1.0, want):
                return {"what": f"kaplan_wald: history[{j}] = {ir['hist'][j]!r} but min(1, 1/T_j) = {want!r}"}
        return None
    return None


def _oracle_conv(case, ir):
    """last sentence of C12: eta = mu (1 + lam (u - mu)), and eta_to_lam undoes lam_to_eta, wherever 0 < mu < u"""
    if ir.get("st") != "ok":
        return None
    init = case["init"]
    u = F(init["u_now"] if init.get("u_now") is not None else init["u"])
    for j, (l, m) in enumerate(zip(case["lam"], case["mu"])):
        l, m = F(l), F(m)
        if not (0 < m < u) or min(m, u - m) < u / 64:
            continue
        want = float(m * (1 + l * (u - m)))
        if not (abs(ir["eta"][j] - want) <= 1e-9 * max(1.0, abs(want))):
            return {"what": f"lam_to_eta(lam={float(l)}, mu={float(m)}) = {ir['eta'][j]!r} with u = {float(u)}, but mu (1 + lam (u - mu)) = {want!r}"}
        if not (abs(ir["lam_back"][j] - float(l)) <= 1e-9 * max(1.0, abs(float(l)))):
            return {"what": f"eta_to_lam(lam_to_eta(lam, mu), mu) = {ir['lam_back'][j]!r} for lam = {float(l)}, mu = {float(m)}, u = {float(u)}: "
                            f"the conversions are not mutual inverses" + (" (called with Python floats)" if case.get("scalar") else "")}
    return None


def prefix(x):
    out, s = [], F(0)
    for v in x:
        out.append(s)
        s += v
    return out


def oracle_c13(case, ir):
    """range of the shipped estimators / bets on the implementation"""
    if ir.get("held"):
        return {"what": ir["held"]}
    init = case["init"]
    if case.get("stream") == "malformed" or not case["x"]:
        return None
    u = F(init["u_now"] if init.get("u_now") is not None else init["u"])
    t = F(init["t"])
    N = init["N"]
    x = [F(v) for v in case["x"]]
    if any(v < 0 or v > u for v in x) or not (0 < t < u) or (N is not None and len(x) > N):
        return None
    kw = {k: F(v) for k, v in init["kw"].items() if v is not None}
    mu = null_means(N, t, x)
    tol = 1e-12
    est = init.get("estim") or "fixed_alternative_mean"

    def estim_range(vals):
        """the estimates `vals` (one per observation) never exceed u (u = the test's current upper bound), and lie in
        [0,u] wherever the null mean is positive; shrink_trunc is moreover strictly above the null mean wherever that
        is below u"""
        if est in ("fixed_alternative_mean", "shrink_trunc") and "eta" in kw and not (t < kw["eta"] < u):
            return None
        if est == "shrink_trunc" and any(kw.get(k, F(1)) <= 0 for k in ("c", "d", "minsd")):
            return None
        for j, (e, m) in enumerate(zip(vals, mu)):
            # the cap at u is unconditional: every shipped estimator ends in a truncation at u (or u(1-eps)), whatever
            # the sample -- also once the null mean itself has left [0,u] (the alternative, even the null, "has become
            # impossible": a long run of small values in a small population).  Theorems fixed_alt_le_u,
            # shrink_trunc_range, optimal_comparison_range.  The floor at 0 needs a positive null mean (estim_range).
            if e > float(u) * (1 + 1e-15) + tol:
                return {"what": f"{est}: eta_{j + 1} = {e!r} exceeds the upper bound u = {float(u)} (null mean there: {float(m)})"}
            if not (0 < m):
                continue
            if math.isnan(e) or e < -tol:
                return {"what": f"{est}: eta_{j + 1} = {e!r} outside [0, u={float(u)}] although mu = {float(m)} > 0"}
            if est == "shrink_trunc" and float(m) < float(u) * (1 - 2.3e-16) and not (e > float(m)):
                return {"what": f"shrink_trunc: eta_{j + 1} = {e!r} is not above the null mean {float(m)} < u"}
        return None

    if case["op"] == "estim":
        if ir.get("st") != "ok":
            if ir.get("err") == "ZeroDivisionError" and init.get("estim") == "optimal_comparison" and u == 1:
                return None
            return {"what": f"estimator raised {ir.get('err')}: {ir.get('msg')}"}
        return estim_range(ir["v"])
    if case["op"] == "bet":
        if ir.get("st") != "ok":
            return {"what": f"bet raised {ir.get('err')}: {ir.get('msg')}"}
        b = init.get("bet") or "fixed_bet"
        if b == "fixed_bet" and not (0 <= kw.get("lam", F(1, 2)) <= 1 / u):
            return None      # a FIXED bet outside [0, 1/u] is outside the documented range; aGRAPA clips ANY initial bet
        for j, (l, m) in enumerate(zip(ir["v"], mu)):
            if not (0 < m <= u):
                continue
            if math.isnan(l) or l < -tol or l > 1 / float(m) * (1 + 1e-12) + tol:
                return {"what": f"{b}: lambda_{j + 1} = {l!r} outside [0, 1/mu = {1 / float(m)}]"}
        return None
    if case["op"] == "test" and ir.get("st") == "ok" and valid_for_wellformed(case):
        if (init.get("test") == "betting_mart" and init.get("bet") in (None, "fixed_bet")
                and not (0 <= kw.get("lam", F(1, 2)) <= 1 / u)):
            return None      # a fixed bet above 1/u (u possibly overwritten after construction) is outside the guard
        for j, v in enumerate(ir["hist"]):
            if v < 0:
                return {"what": f"negative history entry {v!r} at {j}: some factor of the statistic was negative"}
        if (init.get("test") or "alpha_mart") == "alpha_mart":
            # the estimates the test just used: the same object life cycle (construction, then `u_now`), same sample
            ev = impl_call(lambda: bc(make_nm(init).estim(xs(case)), len(x)))
            if isinstance(ev, list):
                r = estim_range(ev)
                if r:
                    return {"what": "alternative means used by alpha_mart: " + r["what"]}
    return None


def _c05_close(a, b, tol=1e-12):
    if a == b or (math.isnan(a) and math.isnan(b)):
        return True
    return abs(a - b) <= tol * max(1.0, abs(a), abs(b))


def _c05_cuts(n, key):
    """cut points k, 1 <= k <= n-1: all of them for short samples, else first/last/middle/two keyed ones"""
    if n <= 6:
        return list(range(1, n))
    return sorted({1, n - 1, n // 2, 1 + key % (n - 1), 1 + (key // 7) % (n - 1)})


def _c05_tails(x, k, u, key, N):
    """replacements of the tail x[k:], all in [0,u], non-empty: same length (mirrored / halved, all u, all 0),
    a single observation, and a longer tail (population size permitting)"""
    tail = x[k:]
    cand = [
        ("mirrored", [(u - v) if (i + key) % 2 else (v / 2) for i, v in enumerate(tail)]),
        ("all-u", [u] * len(tail)),
        ("all-0", [F(0)] * len(tail)),
        ("single", [u if key % 2 else F(0)]),
        ("longer", list(tail) + [u / 2, u]),
    ]
    return [(nm_, alt) for nm_, alt in cand if alt != tail and (N is None or k + len(alt) <= N)]


def _c05_arr(v):
    return np.array([float(a) for a in v], dtype=float)


def _c05_param(init, op, x, base, what):
    """entries 0..k of estim/bet (the parameters applied to observations 1..k+1) are unchanged by any change
    to observations k+1, k+2, ..."""
    f = (lambda o, z: o.estim(z)) if op == "estim" else (lambda o, z: o.bet(z))
    u = F(init["u_now"] if init.get("u_now") is not None else init["u"])
    n = len(x)
    key = sum(int(v * 64) for v in x) + n
    for k in _c05_cuts(n, key):
        for name, alt in _c05_tails(x, k, u, key, init["N"]):
            y = x[:k] + alt
            e2 = impl_call(lambda: bc(f(make_nm(init), _c05_arr(y)), len(y)))
            if not isinstance(e2, list):
                continue
            for i in range(min(k + 1, len(base), len(e2))):
                if not _c05_close(base[i], e2[i]):
                    return {"what": f"the {what} applied to observation {i + 1} changed when only observations "
                                    f"{k + 1}.. changed ({name} tail): {base[i]!r} vs {e2[i]!r}",
                            "cut": k, "other_tail": [fr(v) for v in alt]}
    return None


def oracle_c05(case, ir):
    """non-anticipation, metamorphic on the implementation: change the tail, keep the head
    (several cut points, several replacement tails incl. shorter and longer ones); truncate"""
    if ir.get("held"):
        return {"what": "the value reported for draw j no longer depends on this sample alone: " + ir["held"]}
    if case.get("stream") == "malformed" or ir.get("st") != "ok" or len(case["x"]) < 2:
        return None
    init = case["init"]
    u = F(init["u_now"] if init.get("u_now") is not None else init["u"])
    t = F(init["t"])
    N = init["N"]
    x = [F(v) for v in case["x"]]
    n = len(x)
    if case["op"] in ("estim", "bet"):
        if any(v < 0 or v > u for v in x) or not (0 < t < u) or (N is not None and n > N):
            return None
        return _c05_param(init, case["op"], x, ir["v"], "alternative mean" if case["op"] == "estim" else "bet")
    if not valid_for_wellformed(case):
        return None
    key = sum(int(v * 64) for v in x) + n
    test = init["test"] or "alpha_mart"
    hist = ir["hist"]
    cuts = _c05_cuts(n, key)
    if isinstance(case.get("cut_hint"), int) and 1 <= case["cut_hint"] <= n - 1:
        cuts = sorted(set(cuts) | {case["cut_hint"]})
    for k in cuts:
        # common head, different continuation: first k entries agree
        for name, alt in _c05_tails(x, k, u, key, N):
            y = x[:k] + alt
            r2 = impl_call(lambda: make_nm(init).test(_c05_arr(y)))
            if isinstance(r2, dict):
                continue
            h2 = flo(r2[1])
            for i in range(k):
                if not _c05_close(hist[i], h2[i]):
                    return {"what": f"samples agree in their first {k} observations but history[{i}] differs "
                                    f"({name} tail): {hist[i]!r} vs {h2[i]!r}",
                            "cut": k, "other_tail": [fr(v) for v in alt]}
        # truncation: first k-1 entries unchanged, k-th can only go down, and only through the clamp
        r3 = impl_call(lambda: make_nm(init).test(_c05_arr(x[:k])))
        if isinstance(r3, dict):
            continue
        h3 = flo(r3[1])
        if len(h3) != k:
            return {"what": f"history of the first {k} observations has {len(h3)} entries"}
        for i in range(k - 1):
            if not _c05_close(h3[i], hist[i]):
                return {"what": f"truncating to {k} observations changed history[{i}]: {h3[i]!r} vs {hist[i]!r}", "cut": k}
        if not (math.isnan(h3[k - 1]) and math.isnan(hist[k - 1])) and not (h3[k - 1] <= hist[k - 1] + 1e-12):
            return {"what": f"truncating to {k} observations raised history[{k - 1}]: {h3[k - 1]!r} > {hist[k - 1]!r}", "cut": k}
        head = sum(x[:k])
        clamp_possible = test in ("alpha_mart", "betting_mart") and N is not None
        xd_ = [F(float(v)) for v in x[:k]]
        # within rounding distance of the threshold the verdict is still decidable when the float total is the exact
        # total (of the doubles handed over) rounded once: it cannot exceed the once-rounded N t unless it does exactly
        on_or_below = clamp_possible and abs(head - N * t) <= F(1, 10 ** 9) and _single_rounding(xd_) and \
            sum(xd_) <= N * F(float(t)) and not case.get("int_dtype")
        if not clamp_possible or head < N * t - F(1, 10 ** 9) or on_or_below:
            if not _c05_close(h3[k - 1], hist[k - 1]):
                return {"what": f"truncating to {k} observations changed history[{k - 1}] although the observed total "
                                f"{float(head)} does not exceed N t: {h3[k - 1]!r} vs {hist[k - 1]!r}", "cut": k}
        elif head > N * t + F(1, 10 ** 9) and h3[k - 1] != 0.0:
            return {"what": f"first {k} observations total {float(head)} > N t = {float(N * t)} but the last p-value "
                            f"of the truncated sample is {h3[k - 1]!r}, not 0", "cut": k}
    # estimator / bet predictability on the test's own estimator / bet
    if test in ("alpha_mart", "betting_mart"):
        op = "estim" if test == "alpha_mart" else "bet"
        f = (lambda o, z: o.estim(z)) if op == "estim" else (lambda o, z: o.bet(z))
        e1 = impl_call(lambda: bc(f(make_nm(init), xs(case)), n))
        if isinstance(e1, list):
            return _c05_param(init, op, x, e1, "alternative mean" if op == "estim" else "bet")
    return None


def oracle_c10(case, ir):
    """risk_mono: for random-order tests the overall p-value (the measured risk) cannot increase when observations are
    appended -- between any two rounds: the p-values of the prefixes x[:k] (every k for samples of at most 8
    observations, else first / last / middle / quartiles / two keyed cut points) are non-increasing in k, down to the
    p-value of the whole sample"""
    if not valid_for_wellformed(case) or ir.get("st") != "ok" or len(case["x"]) < 2 or not case["init"]["ro"]:
        return None
    _i = case["init"]
    if (_i.get("test") == "betting_mart") and _i.get("bet") in (None, "fixed_bet"):
        # the guard of C10.risk_mono_betting (and of oracle_c11 / oracle_c13): a fixed bet inside [0, 1/u] for the CURRENT u
        _u = F(_i["u_now"] if _i.get("u_now") is not None else _i["u"])
        _lam = F(_i["kw"]["lam"]) if _i["kw"].get("lam") is not None else F(1, 2)
        if not (0 <= _lam <= 1 / _u):
            return None
    if any(math.isnan(v) for v in ir["hist"]) or math.isnan(ir["p"]):
        return None       # a NaN p-value is C11's to report (known finding F27: overflow, then a factor 0); no order with NaN
    x = [F(v) for v in case["x"]]
    n = len(x)
    if n <= 8:
        cuts = list(range(1, n))
    else:
        key = sum(int(v * 64) for v in x) + n
        cuts = sorted({1, 2, n // 4, n // 2, (3 * n) // 4, n - 2, n - 1, 1 + key % (n - 1), 1 + (key // 7) % (n - 1)})
    prev_k, prev_p = None, None
    for k in cuts + [n]:
        if k == n:
            p = ir["p"]
        else:
            r = impl_call(lambda: make_nm(case["init"]).test(np.array([float(v) for v in x[:k]])))
            if isinstance(r, dict):
                continue
            p = float(r[0])
        if prev_p is not None and prev_p + 1e-12 < p:
            return {"what": f"p-value rose from {prev_p!r} (first {prev_k} observations) to {p!r} (first {k}) when "
                            f"observations {prev_k + 1}..{k} were appended", "cut": prev_k, "upto": k}
        prev_k, prev_p = k, p
    return None


def oracle_c01(case, ir):
    """certainty claimed without cause: a p-value of exactly 0 after j draws says "this sample cannot come from a null
    population".  If the j draws total at most N t, the population made of them and N - j zeros IS a null population,
    and this very sample has probability >= 1/(N)_j under it: the chance of rejecting at level alpha is then positive
    for every alpha > 0, above alpha for small alpha.  Decided only where float and exact arithmetic must agree (the
    running float total is the exact total of the doubles rounded once) and the product was not already astronomically
    large (1/T underflowing to 0 is the overflow finding F27's territory)."""
    if not valid_for_wellformed(case) or ir.get("st") != "ok":
        return None
    init = case["init"]
    N = init["N"]
    if N is None or case.get("int_dtype") or (init["test"] or "alpha_mart") not in ("alpha_mart", "betting_mart"):
        return None
    xd = [F(float(F(v))) for v in case["x"]]
    td = F(float(F(init["t"])))
    h = ir["hist"]
    tot = F(0)
    for j, v in enumerate(xd):
        tot += v
        if j < len(h) and h[j] == 0.0 and tot <= N * td and _single_rounding(xd[:j + 1]) and \
                (j == 0 or (h[j - 1] == h[j - 1] and h[j - 1] > 1e-100)):
            return {"what": f"p-value exactly 0 after {j + 1} draws totalling {float(tot)!r} <= N t = {float(N * td)!r}: "
                            f"with {N - j - 1} zeros added these draws are a population with mean <= t, so the sample has "
                            f"positive probability under a true null and is rejected at every risk limit",
                    "draws": case["x"][:j + 1]}
    return None


ORACLES = {"C11": oracle_c11, "C12": oracle_c12, "C13": oracle_c13, "C05": oracle_c05, "C10": oracle_c10, "C01": oracle_c01}
