"""
Core of the correspondence harness.

  * Driver      -- runs the natively compiled Lean model driver (lean/.lake/build/bin/drv) on a batch
                   of JSON requests (one per line) and returns the JSON replies.
  * numbers     -- exact conversion of Python numbers to "p/q" strings, tolerant comparison of a
                   Python float with the model's exact rational (DESIGN.md 3.2).
  * errors      -- mapping of Python exceptions to the small enum used by the models.
The harness never re-implements SHANGRLA: `impl` functions in groups/*.py call the real code of the
current working tree ($VERIF_REPO, default /repo) in-process.
"""
import json, math, os, subprocess, sys, time, random, hashlib, traceback, warnings
from fractions import Fraction

VERIF = os.path.dirname(os.path.dirname(os.path.abspath(__file__)))
REPO = os.environ.get("VERIF_REPO", "/repo")
LEAN_DIR = os.path.join(VERIF, "lean")
# VERIF_DRV (development drills only): a private copy of the driver, so that rebuilding lean/ does not disturb a drill
DRV = os.environ.get("VERIF_DRV") or os.path.join(LEAN_DIR, ".lake", "build", "bin", "drv")

if REPO not in sys.path:
    sys.path.insert(0, REPO)

RTOL = 1e-9

ERR_KINDS = {
    AssertionError: "AssertionError", ValueError: "ValueError", KeyError: "KeyError",
    IndexError: "IndexError", TypeError: "TypeError", ZeroDivisionError: "ZeroDivisionError",
    NameError: "NameError", AttributeError: "AttributeError", NotImplementedError: "NotImplementedError",
}


def err_kind(e):
    for k, v in ERR_KINDS.items():
        if type(e) is k:
            return v
    for k, v in ERR_KINDS.items():
        if isinstance(e, k):
            return v
    return type(e).__name__


def impl_call(f, *a, **kw):
    """call the implementation; map an exception to {"st": "err", "err": kind}"""
    try:
        with warnings.catch_warnings():
            warnings.simplefilter("ignore")
            return f(*a, **kw)
    except Exception as e:  # noqa
        return {"st": "err", "err": err_kind(e), "msg": str(e)[:200]}


# ---------------------------------------------------------------------------------------------
# numbers

def fr(x):
    """exact "p/q" string of a Python/numpy number (bool/int/float/Fraction)"""
    if isinstance(x, str):
        return x
    if isinstance(x, Fraction):
        q = x
    else:
        try:
            xf = float(x)
        except Exception:
            raise
        if math.isnan(xf):
            return "nan"
        if math.isinf(xf):
            return "inf" if xf > 0 else "-inf"
        q = Fraction(x) if isinstance(x, int) else Fraction(xf)
    return str(q.numerator) if q.denominator == 1 else f"{q.numerator}/{q.denominator}"


def to_frac(s):
    """model number string -> Fraction or one of 'inf', '-inf', 'nan'"""
    if s in ("inf", "-inf", "nan"):
        return s
    return Fraction(s)


def num_class(x):
    if isinstance(x, str):
        return x
    xf = float(x)
    if math.isnan(xf):
        return "nan"
    if math.isinf(xf):
        return "inf" if xf > 0 else "-inf"
    return "fin"


def num_close(py, model_s, rtol=RTOL, atol=0.0):
    """compare a Python number with a model number string; classes must agree exactly"""
    m = to_frac(model_s) if isinstance(model_s, str) else model_s
    pc = num_class(py)
    mc = m if isinstance(m, str) else "fin"
    if pc != mc:
        return False
    if pc != "fin":
        return True
    mf = float(m)
    return abs(float(py) - mf) <= atol + rtol * max(1.0, abs(mf))


def nums_close(pys, models, **kw):
    return len(pys) == len(models) and all(num_close(a, b, **kw) for a, b in zip(pys, models))


# ---------------------------------------------------------------------------------------------
# driver

class DriverError(Exception):
    pass


def run_driver(requests, timeout=1800):
    """requests: list of (group, op, args) -> list of reply dicts"""
    if not requests:
        return []
    if not os.path.exists(DRV):
        raise DriverError(f"driver not built: {DRV}")
    lines = "\n".join(json.dumps({"g": g, "op": op, "a": a}, separators=(",", ":")) for g, op, a in requests) + "\n"
    p = subprocess.run([DRV], input=lines, capture_output=True, text=True, timeout=timeout)
    if p.returncode != 0:
        raise DriverError(f"driver exit {p.returncode}: {p.stderr[:500]}")
    out = [json.loads(l) for l in p.stdout.splitlines() if l.strip()]
    if len(out) != len(requests):
        raise DriverError(f"driver returned {len(out)} replies for {len(requests)} requests: {p.stderr[:300]}")
    return out


def run_driver_parallel(requests, jobs=None, chunk=400):
    """shard a large batch over several driver processes"""
    import concurrent.futures as cf
    jobs = jobs or min(16, os.cpu_count() or 4)
    if len(requests) <= chunk:
        return run_driver(requests)
    chunks = [requests[i:i + chunk] for i in range(0, len(requests), chunk)]
    with cf.ThreadPoolExecutor(max_workers=jobs) as ex:
        res = list(ex.map(run_driver, chunks))
    return [r for c in res for r in c]


# ---------------------------------------------------------------------------------------------
# misc

def case_key(case):
    return hashlib.sha1(json.dumps(case, sort_keys=True, default=str).encode()).hexdigest()


class Rng(random.Random):
    """all random choices of a run come from one instance seeded with VERIF_SEED"""

    def frac(self, dens=(1, 2, 4, 8), lo=0, hi=1):
        d = self.choice(dens)
        lo_n, hi_n = math.ceil(lo * d), math.floor(hi * d)
        return Fraction(self.randint(lo_n, hi_n), d)

    def chance(self, p):
        return self.random() < p


CONTAINER_KINDS = ["list", "list", "list", "tuple", "iter", "gen", "chain"]


def container(kind, items):
    """the same items in another container: where the documentation asks for "a list / collection of ..." and the code
    makes one pass, a tuple, a one-shot iterator, a generator or an itertools.chain of two lists is as good as a list"""
    import itertools
    items = list(items)
    if kind == "tuple":
        return tuple(items)
    if kind == "iter":
        return iter(items)
    if kind == "gen":
        return (x for x in items)
    if kind == "chain":
        k = len(items) // 2
        return itertools.chain(items[:k], items[k:])
    return items
