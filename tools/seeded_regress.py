#!/usr/bin/env python3
"""
tools/seeded_regress.py [-j N] [name-prefix ...]
Regression over the kept seeded changes (/verif/seeded/<name>/patch.diff): each is applied to its own scratch
worktree of /repo (never /repo itself) and its own property's check is run against it (VERIF_REPO, VERIF_OUT,
VERIF_DRV all scratch).  Prints one line per change and a summary; exit 1 if a change that meta.json records as
caught by its own property's check is no longer caught (or only without a failing input where it had one).
Does not rewrite meta.json.
"""
import json, os, shutil, subprocess, sys, tempfile, glob
HOME = os.environ.get("VERIF_HOME", "/verif")   # a worktree of /verif may run the drills with its own harness
from concurrent.futures import ThreadPoolExecutor

args = sys.argv[1:]
jobs = 4
if args and args[0] == "-j":
    jobs = int(args[1]); args = args[2:]
names = sorted(os.path.basename(d) for d in glob.glob(os.path.join(HOME, "seeded/*")) if os.path.isdir(d))
if args:
    names = [n for n in names if any(n.startswith(a) for a in args)]


def sh(cmd, **kw):
    return subprocess.run(cmd, shell=True, capture_output=True, text=True, **kw)


def one(name):
    d = os.path.join(HOME, "seeded", name)
    meta = json.load(open(os.path.join(d, "meta.json")))
    pid = meta["property"]
    wt = tempfile.mkdtemp(prefix="sreg-", dir="/tmp"); os.rmdir(wt)
    scratch = tempfile.mkdtemp(prefix="sreg-out-", dir="/tmp")
    shutil.copy(os.path.join(HOME, "lean/.lake/build/bin/drv"), os.path.join(scratch, "drv"))
    try:
        if sh(f"git -C /repo worktree add -q {wt} HEAD").returncode != 0:
            return name, pid, "worktree-failed", meta
        if sh(f"git -C {wt} apply {d}/patch.diff").returncode != 0:
            return name, pid, "patch-does-not-apply", meta
        env = dict(os.environ, VERIF_REPO=wt, VERIF_OUT=scratch, VERIF_DRV=os.path.join(scratch, "drv"))
        r = sh(f"cd {HOME} && timeout 1800 ./check {pid} --no-audit", env=env)
        vl = [l for l in r.stdout.splitlines() if l.startswith("VIOLATION")]
        if r.returncode == 1 and vl:
            verdict = "caught-no-input" if "no-failing-input-found" in vl[0] else "caught"
        else:
            verdict = f"MISSED(rc={r.returncode})"
        return name, pid, verdict, meta
    finally:
        sh(f"git -C /repo worktree remove --force {wt}; git -C /repo worktree prune")
        shutil.rmtree(scratch, ignore_errors=True)


bad = 0
with ThreadPoolExecutor(max_workers=jobs) as ex:
    for name, pid, verdict, meta in ex.map(one, names):
        was_own = pid in (meta.get("caught_by") or [])
        was_inp = pid in (meta.get("caught_with_failing_input_by") or [])
        before = "caught" if was_inp else "caught-no-input" if was_own else "missed-by-own"
        flag = ""
        if (before == "caught" and verdict != "caught") or (before == "caught-no-input" and verdict.startswith("MISSED")):
            flag = "  <-- REGRESSION"
            bad += 1
        elif before != verdict and not verdict.startswith("MISSED") and verdict != "patch-does-not-apply":
            flag = "  (improved)"
        print(f"{name:10s} {pid} before={before:16s} now={verdict}{flag}", flush=True)
print(f"{len(names)} seeded changes, {bad} regressions")
sys.exit(1 if bad else 0)
