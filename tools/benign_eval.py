#!/usr/bin/env python3
"""
tools/benign_eval.py <outdir e.g. /tmp/benign-out/b3> [check ids...]
False-alarm drill: applies a HARMLESS change (patch.diff + meta.json: a refactor, a reworded message, an
equivalent float formula ...) to a scratch worktree of /repo (never /repo itself), confirms the suite still passes,
runs every registered check (default: all) against it with VERIF_REPO / VERIF_OUT pointing at scratch, and
prints which checks (wrongly) raised a VIOLATION.  Results are kept in /verif/benign/<name>/ (patch + meta).
"""
import json, os, shutil, subprocess, sys, tempfile
HOME = os.environ.get("VERIF_HOME", "/verif")   # a worktree of /verif may run the drills with its own harness
from concurrent.futures import ThreadPoolExecutor

out = sys.argv[1].rstrip("/")
meta = json.load(open(os.path.join(out, "meta.json")))
name = os.path.basename(out)
ids = sys.argv[2:] or [c["property_id"] for c in json.load(open(os.path.join(HOME, "MANIFEST.json")))["checks"]]
wt = tempfile.mkdtemp(prefix="benign-", dir="/tmp")
os.rmdir(wt)
scratch = tempfile.mkdtemp(prefix="benign-out-", dir="/tmp")
shutil.copy(os.path.join(HOME, "lean/.lake/build/bin/drv"), os.path.join(scratch, "drv"))


def sh(cmd, **kw):
    return subprocess.run(cmd, shell=True, capture_output=True, text=True, **kw)


res = {"checks": {}}
try:
    assert sh(f"git -C /repo worktree add -q {wt} HEAD").returncode == 0
    a = sh(f"git -C {wt} apply {out}/patch.diff")
    res["applies"] = a.returncode == 0
    if not res["applies"]:
        res["apply_err"] = a.stderr[-300:]
    else:
        env = dict(os.environ, PYTHONPATH=wt, PYTHONDONTWRITEBYTECODE="1")
        r = sh(f"cd {wt} && /venv/bin/python -W ignore -m pytest -q -p no:cacheprovider 2>&1 | tail -1", env=env)
        res["suite"] = r.stdout.strip()

        def one(c):
            e2 = dict(os.environ, VERIF_REPO=wt, VERIF_OUT=scratch, VERIF_DRV=os.path.join(scratch, "drv"))
            r = sh(f"cd {HOME} && timeout 1800 ./check {c} --no-audit", env=e2)
            lines = [l for l in r.stdout.splitlines() if "VIOLATION" in l]
            detail = ""
            for l in lines[:1]:
                rp = l.split("replay=")[1].split()[0]
                try:
                    d = json.load(open(os.path.normpath(os.path.join(HOME, rp))))
                    detail = json.dumps(d.get("violation") or d.get("no_longer_checks") or d)[:600]
                except Exception as ex:
                    detail = f"(replay unreadable: {ex})"
            return c, {"rc": r.returncode, "lines": lines[:3], "detail": detail, "tail": r.stdout.strip().splitlines()[-1:] }

        with ThreadPoolExecutor(max_workers=5) as ex:
            for c, v in ex.map(one, ids):
                res["checks"][c] = v
finally:
    sh(f"git -C /repo worktree remove --force {wt}; git -C /repo worktree prune")
    shutil.rmtree(scratch, ignore_errors=True)

alarms = {c: v for c, v in res["checks"].items() if v["rc"] != 0 or v["lines"]}
print(json.dumps({"name": name, "kind": meta.get("kind"), "summary": meta.get("summary", "")[:150], "applies": res.get("applies"),
                  "suite": res.get("suite"), "alarms": {c: {"rc": v["rc"], "lines": v["lines"], "detail": v["detail"][:400]} for c, v in alarms.items()}}, indent=1))
if res.get("applies") and "55 passed" in res.get("suite", ""):
    dst = os.path.join(HOME, "benign", name)
    os.makedirs(dst, exist_ok=True)
    shutil.copy(os.path.join(out, "patch.diff"), dst)
    meta["what_was_run"] = {"suite_with_patch": res["suite"], "checks_run": ids,
                            "alarms": {c: {"exit": v["rc"], "lines": v["lines"]} for c, v in alarms.items()}}
    json.dump(meta, open(os.path.join(dst, "meta.json"), "w"), indent=1)
