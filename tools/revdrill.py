#!/usr/bin/env python3
"""reverse-fix drill: for every kind=fixed entry of known_findings.json revert the fix commit in a scratch
worktree of /repo (git revert --no-commit) and run the property's check against it; prints a table."""
import json, os, subprocess, sys, tempfile
kf = json.load(open("/verif/known_findings.json"))["entries"]
only = set(sys.argv[1:])
seen = {}
for e in kf:
    if e.get("kind") != "fixed":
        continue
    seen.setdefault((e["id"], e["commit"]), []).append(e["property"])
claimed = {c["property_id"] for c in json.load(open("/verif/MANIFEST.json"))["checks"]}
def sh(c, **kw): return subprocess.run(c, shell=True, capture_output=True, text=True, **kw)
for (fid, commit), props in seen.items():
    if only and fid not in only:
        continue
    wt = tempfile.mkdtemp(prefix="rev-", dir="/tmp"); os.rmdir(wt)
    sh(f"git -C /repo worktree add -q {wt} HEAD")
    try:
        r = sh(f"git -C {wt} revert --no-commit {commit}")
        if r.returncode != 0:
            print(f"| {fid} | {commit} | revert does not apply cleanly (later commits touch the same lines) | - |")
            continue
        res = []
        for p in props:
            if p not in claimed:
                res.append(f"{p}: not claimed yet"); continue
            rr = sh(f"cd /verif && VERIF_REPO={wt} VERIF_OUT=/tmp/revdrill-out ./check {p} --no-audit")
            v = [l for l in rr.stdout.splitlines() if "VIOLATION" in l]
            res.append(f"{p}: " + ("caught" + (" (no-failing-input-found)" if v and "no-failing-input-found" in v[0] else "") if v else "MISSED"))
        print(f"| {fid} | {commit} | " + "; ".join(res) + " |")
    finally:
        sh(f"git -C /repo worktree remove --force {wt}; git -C /repo worktree prune")
