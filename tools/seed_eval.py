#!/usr/bin/env python3
"""
tools/seed_eval.py <outdir e.g. /tmp/mut/C18-out/m1> [check ids...]
Confirms a seeded change (patch.diff, demo.py, meta.json) in a scratch worktree of /repo (never /repo itself):
  patch applies, existing suite passes with it, demo passes on clean tree and fails with the patch,
then runs the given checks (default: the property named in meta.json) against the patched worktree and
stores everything as /verif/seeded/<property>-<name>/ (patch.diff, demo.py, meta.json with what was run).
"""
import json, os, shutil, subprocess, sys, tempfile
HOME = os.environ.get("VERIF_HOME", "/verif")   # a worktree of /verif may run the drills with its own harness

out = sys.argv[1].rstrip("/")
meta = json.load(open(os.path.join(out, "meta.json")))
pid = meta["property"]
checks = sys.argv[2:] or [pid]
name = f"{pid}-{'r2' if '/mut2/' in out else 'r3' if '/mut3/' in out else 'r4' if '/mut4/' in out else 'r5' if '/mut5/' in out else 'r6' if '/mut6/' in out else 'r7' if '/mut7/' in out else 'r8' if '/mut8/' in out else 'r9' if '/mut9/' in out else ''}{os.path.basename(out)}"
wt = tempfile.mkdtemp(prefix="seed-", dir="/tmp")
os.rmdir(wt)
scratch = tempfile.mkdtemp(prefix="seed-out-", dir="/tmp")
shutil.copy(os.path.join(HOME, "lean/.lake/build/bin/drv"), os.path.join(scratch, "drv"))
env = dict(os.environ, PYTHONPATH=wt, PYTHONDONTWRITEBYTECODE="1")

def sh(cmd, **kw):
    return subprocess.run(cmd, shell=True, capture_output=True, text=True, **kw)

res = {"checks": {}}
try:
    assert sh(f"git -C /repo worktree add -q {wt} HEAD").returncode == 0
    demo = os.path.join(out, "demo.py")
    r = sh(f"cd {wt} && /venv/bin/python -W ignore {demo}", env=env)
    res["demo_clean_rc"] = r.returncode
    a = sh(f"git -C {wt} apply {out}/patch.diff")
    res["applies"] = a.returncode == 0
    if a.returncode != 0:
        res["apply_err"] = a.stderr[-300:]
    else:
        r = sh(f"cd {wt} && /venv/bin/python -W ignore -m pytest -q -p no:cacheprovider 2>&1 | tail -1", env=env)
        res["suite"] = r.stdout.strip()
        r = sh(f"cd {wt} && /venv/bin/python -W ignore {demo}", env=env)
        res["demo_patched_rc"] = r.returncode
        res["demo_patched_tail"] = (r.stdout + r.stderr).strip()[-300:]
        for c in checks:
            e2 = dict(os.environ, VERIF_REPO=wt, VERIF_OUT=scratch, VERIF_DRV=os.path.join(scratch, "drv"))
            r = sh(f"cd {HOME} && timeout 1800 ./check {c} --no-audit", env=e2)
            lines = [l for l in r.stdout.splitlines() if "VIOLATION" in l or "KNOWN" in l or "seed=" in l]
            detail = ""
            for l in lines:
                if "replay=" in l:
                    rp = l.split("replay=")[1].split()[0]
                    try:
                        d = json.load(open(os.path.normpath(os.path.join(HOME, rp))))
                        detail = json.dumps(d.get("violation") or d.get("no_longer_checks"))[:400]
                    except Exception:
                        pass
            res["checks"][c] = {"rc": r.returncode, "lines": lines[:3], "detail": detail}
finally:
    sh(f"git -C /repo worktree remove --force {wt}; git -C /repo worktree prune")
    shutil.rmtree(scratch, ignore_errors=True)

confirmed = res.get("applies") and res.get("demo_clean_rc") == 0 and res.get("demo_patched_rc", 0) != 0 and "55 passed" in res.get("suite", "")
caught = [c for c, v in res["checks"].items() if v["rc"] == 1 and any("VIOLATION" in l for l in v["lines"])]
with_input = [c for c in caught if not any("no-failing-input-found" in l for l in res["checks"][c]["lines"])]
res["confirmed"] = bool(confirmed)
res["caught_by"] = caught
res["caught_with_failing_input_by"] = with_input
print(json.dumps({"name": name, "confirmed": res["confirmed"], "suite": res.get("suite"), "demo_clean": res.get("demo_clean_rc"),
                  "demo_patched": res.get("demo_patched_rc"), "caught_by": caught, "with_input": with_input,
                  "detail": {c: v["detail"][:200] for c, v in res["checks"].items()}}, indent=1))
if confirmed:
    dst = os.path.join(HOME, "seeded", name)
    os.makedirs(dst, exist_ok=True)
    shutil.copy(os.path.join(out, "patch.diff"), dst)
    shutil.copy(os.path.join(out, "demo.py"), dst)
    meta["what_was_run"] = {"suite_with_patch": res.get("suite"), "demo_clean_rc": res["demo_clean_rc"],
                            "demo_patched_rc": res["demo_patched_rc"],
                            "checks": {c: {"exit": v["rc"], "lines": v["lines"]} for c, v in res["checks"].items()}}
    meta["caught_by"] = caught
    meta["caught_with_failing_input_by"] = with_input
    json.dump(meta, open(os.path.join(dst, "meta.json"), "w"), indent=1)
