"""the example of RiskLimitConsistentSampling on the REAL library: for each of the 120 orders of the sample numbers of
the five cards, run `CVR.consistent_sampling` (+ `prep_comparison_sample`, `Assertion.mvrs_to_data`; driven through the
`sampling` group's own history runner) round by round with the example's data-dependent two-round policy, check that
every contest's data cards are the first n_c cards of its own sub-order (closed form `specData`), evaluate the real
`NonnegMean.alpha_mart` (eta = 3/4, u = 1, t = 1/2, N = cards listing the contest) on the example's values, and count
the orders in which every assertion's p-value is at most its contest's risk limit after some round."""
import itertools, os, sys, warnings
warnings.filterwarnings("ignore")
sys.path.insert(0, os.path.join(os.path.dirname(os.path.abspath(__file__)), ".."))
import numpy as np
from harness.groups import sampling as S
from shangrla.core.NonnegMean import NonnegMean

STYLES = [["A", "B"], ["A", "B"], ["A"], ["A"], ["B"]]
IDS = ["A", "B"]
VAL = {"A": [1, 0, 0.5, 0.5, 0], "B": [1, 1, 1, 1, 1]}
LIMIT = {"A": 0.6, "B": 0.5}
NCARDS = {c: sum(c in s for s in STYLES) for c in IDS}


def pvalue(c, idx):
    t = NonnegMean(test=NonnegMean.alpha_mart, estim=NonnegMean.fixed_alternative_mean, u=1, N=NCARDS[c], t=1 / 2, eta=3 / 4)
    p, hist = t.test(np.array([VAL[c][i] for i in idx], dtype=float))
    return p


def policy(seen):
    if not seen:
        return {"sizes": [2, 2], "cont": False}
    if any(VAL["A"][i] < 0.5 for i in seen[0][0]):
        return {"sizes": [4, 3], "cont": True}
    return {"sizes": [3, 2], "cont": True}


def run(order, nrounds):
    """order[k] = index of the card with the k-th smallest sample number"""
    num = {i: k for k, i in enumerate(order)}
    cards = [{"styles": STYLES[i], "phantom": False, "num": num[i]} for i in range(5)]
    rounds, seen = [], []
    for r in range(nrounds):
        rounds.append(policy(seen))
        case = {"cards": cards, "contests": [{"id": c, "size": 0, "thr": None} for c in IDS], "use_style": True,
                "rounds": rounds}
        rec = S._run_history(case, 1)[r]
        assert rec["st"] == "ok", rec
        data = [d["v"] for d in rec["cards"]]
        spec = [[i for i in order if c in STYLES[i]][:n] for c, n in zip(IDS, rounds[r]["sizes"])]
        assert data == spec, (order, r, data, spec)
        seen.append(data)
        if all(pvalue(c, idx) <= LIMIT[c] for c, idx in zip(IDS, data)):
            return True
    return False


for nrounds in (1, 2):
    done = sum(run(list(o), nrounds) for o in itertools.permutations(range(5)))
    print(f"rounds={nrounds}: complete in {done} of 120 orders; every contest's data = first n_c cards of its sub-order")
