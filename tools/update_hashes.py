#!/usr/bin/env python3
"""records the sha256 of every anchored source file of /repo (HEAD working tree) in harness/source_hashes.json.
At run time a check whose anchored files differ from these hashes multiplies its correspondence budget
(the code changed since the model was last validated against it) -- it never raises an alarm by itself."""
import hashlib, json, os
here = os.path.dirname(os.path.dirname(os.path.abspath(__file__)))
files = set()
for l in open(os.path.join(here, "properties.jsonl")):
    files.update(json.loads(l)["anchors"]["files"])
out = {}
for f in sorted(files):
    p = os.path.join("/repo", f)
    if os.path.exists(p):
        out[f] = hashlib.sha256(open(p, "rb").read()).hexdigest()
json.dump(out, open(os.path.join(here, "harness", "source_hashes.json"), "w"), indent=1)
print(len(out), "files hashed")
