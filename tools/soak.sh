#!/bin/bash
# tools/soak.sh [quick|thorough] [seeds...] : every registered check on the unchanged tree; prints only failures
cd "$(dirname "$0")/.."
TIER=${1:-quick}; shift
SEEDS=${@:-0 1 2 3 4}
[ -x lean/.lake/build/bin/drv ] || (cd lean && lake build > /dev/null 2>&1)
IDS=$(python3 -c "import json;print(' '.join(c['property_id'] for c in json.load(open('MANIFEST.json'))['checks']))")
fail=0
for s in $SEEDS; do
  for p in $IDS; do
    out=$(VERIF_SEED=$s ./check $p --tier $TIER 2>&1); rc=$?
    if [ $rc -ne 0 ] || echo "$out" | grep -q VIOLATION; then echo "FAIL seed=$s $p rc=$rc"; echo "$out" | tail -3; fail=1; else echo "ok seed=$s $(echo "$out" | tail -1)"; fi
  done
done
exit $fail
