"""the five cards of RiskLimitIRVComparisonFull's example on the REAL library: per-card data of both RAIRE assertions
(mvrs_to_data), margins / test bounds (set_all_margins_from_cvrs), and the number of the 120 draw orders in which
set_p_values + summarize_status ever report the audit complete (risk limit 0.9, alpha_mart, eta = 1)"""
import itertools, io, contextlib, warnings
warnings.filterwarnings("ignore")
from fractions import Fraction
from shangrla.core.Audit import Audit, Assertion, Contest, CVR
from shangrla.core.NonnegMean import NonnegMean

audit = Audit.from_dict({"quantile": 0.8, "error_rate_1": 0, "error_rate_2": 0, "reps": 10,
    "strata": {"stratum_1": {"max_cards": 5, "use_style": True, "replacement": False}}})
contests = Contest.from_dict_of_dicts({"c": {"name": "c", "risk_limit": 0.9, "cards": 5, "choice_function": "IRV",
    "n_winners": 1, "candidates": ["0", "1", "2"], "winner": ["1"], "audit_type": Audit.AUDIT_TYPE.CARD_COMPARISON,
    "use_style": True, "sample_threshold": 5,
    "assertion_json": [{"winner": "1", "loser": "2", "assertion_type": "WINNER_ONLY"},
                       {"winner": "1", "loser": "0", "assertion_type": "IRV_ELIMINATION", "already_eliminated": ["2"]}],
    "test": NonnegMean.alpha_mart, "estim": NonnegMean.fixed_alternative_mean, "test_kwargs": {"eta": 1}}})
Assertion.make_all_assertions(contests)
def rk(*r): return {"c": {str(c): i + 1 for i, c in enumerate(r)}}
cvrs = CVR.from_dict([{"id": "1", "votes": rk(0, 1)}, {"id": "2", "votes": rk(1, 0)}, {"id": "3", "votes": rk(1, 0)},
                      {"id": "4", "votes": rk(2, 1)}, {"id": "5", "votes": {"c": {}}, "phantom": True}])
mvrs = CVR.from_dict([{"id": "1", "votes": rk(0, 1)}, {"id": "2", "votes": rk(0, 1)},
                      {"id": "3", "votes": {"other": {"7": 1}}}, {"id": "4", "votes": rk(2, 1)},
                      {"id": "5", "votes": {}, "phantom": True}])
for i, (c, m) in enumerate(zip(cvrs, mvrs)):
    c.sample_num = i; m.sample_num = i
Assertion.set_all_margins_from_cvrs(audit, contests, cvrs)
con = contests["c"]
for name, asn in con.assertions.items():
    vals = []
    for i in range(5):
        d, u = asn.mvrs_to_data([mvrs[i]], [cvrs[i]])
        vals.append(Fraction(float(d[0])).limit_denominator(1000) if len(d) else None)
    print(name, "| margin", Fraction(asn.margin).limit_denominator(1000), "| test.u", Fraction(float(asn.test.u)).limit_denominator(1000),
          "| N", asn.test.N, "| cvr assorter", [Fraction(asn.assorter.assort(c)).limit_denominator(100) for c in cvrs],
          "| data", [str(v) for v in vals])
done_orders = 0
sink = io.StringIO()
for order in itertools.permutations(range(5)):
    for k in range(1, 6):
        mv = [mvrs[i] for i in order[:k]]; cv = [cvrs[i] for i in order[:k]]
        Assertion.set_p_values(contests, mv, cv)
        with contextlib.redirect_stdout(sink):
            done = bool(audit.summarize_status(contests))
        if done:
            done_orders += 1
            break
    for asn in con.assertions.values():
        asn.proved = False
print("orders in which the audit is ever reported complete:", done_orders, "of 120")
