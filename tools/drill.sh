#!/bin/bash
# tools/drill.sh <patchfile|rev:COMMIT> <Cnn> [more Cnn ...]
# applies a mutant to a scratch worktree of /repo (never to /repo itself), checks that the existing
# suite still passes (unless SKIP_SUITE=1), runs the given checks against it, removes the worktree.
set -u
P="$1"; shift
WT=/tmp/drill-$$
git -C /repo worktree add -q "$WT" HEAD || exit 2
trap 'git -C /repo worktree remove --force "$WT" >/dev/null 2>&1; git -C /repo worktree prune' EXIT
if [[ "$P" == rev:* ]]; then
  git -C /repo show "${P#rev:}" | git -C "$WT" apply -R || { echo "APPLY-FAILED"; exit 2; }
else
  git -C "$WT" apply "$P" || { echo "APPLY-FAILED"; exit 2; }
fi
if [[ "${SKIP_SUITE:-0}" != 1 ]]; then
  (cd "$WT" && /venv/bin/python -W ignore -m pytest -q -p no:cacheprovider -x 2>&1 | tail -1)
fi
for C in "$@"; do
  (cd "${VERIF_HOME:-/verif}" && VERIF_REPO="$WT" VERIF_OUT=/tmp/drill-out ./check "$C" --no-audit 2>&1 | grep -E "VIOLATION|KNOWN|quick seed" | head -3)
done
