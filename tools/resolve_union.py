#!/usr/bin/env python3
"""resolve git conflict markers in a file by keeping the lines of both sides (ours first), de-duplicated"""
import sys
for p in sys.argv[1:]:
    out, ours, theirs, mode = [], [], [], 0
    for line in open(p).read().split("\n"):
        if line.startswith("<<<<<<< "):
            mode, ours, theirs = 1, [], []
        elif line.startswith("=======") and mode == 1:
            mode = 2
        elif line.startswith(">>>>>>> ") and mode == 2:
            seen = set()
            for l in ours + theirs:
                if l not in seen or not l.strip():
                    out.append(l); seen.add(l)
            mode = 0
        elif mode == 1:
            ours.append(line)
        elif mode == 2:
            theirs.append(line)
        else:
            out.append(line)
    open(p, "w").write("\n".join(out))
