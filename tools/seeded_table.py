#!/usr/bin/env python3
"""prints a markdown table of /verif/seeded/*/meta.json: which checks catch which seeded change"""
import json, glob, os
rows = []
for d in sorted(glob.glob(os.path.join(os.path.dirname(__file__), "..", "seeded", "*"))):
    mp = os.path.join(d, "meta.json")
    if not os.path.exists(mp):
        continue
    m = json.load(open(mp))
    name = os.path.basename(d)
    caught = m.get("caught_by", [])
    wi = m.get("caught_with_failing_input_by", [])
    how = ", ".join(f"{c}{'' if c in wi else ' (no-failing-input-found)'}" for c in caught) or "MISSED"
    rows.append((name, m.get("property"), m.get("summary", "").replace("|", "/")[:150], m.get("needs_to_manifest", "").replace("|", "/")[:150], how))
print("| seeded change | property | what it does | needs to manifest | caught by |")
print("|---|---|---|---|---|")
for r in rows:
    print("| " + " | ".join(str(x) for x in r) + " |")
