#!/bin/bash
# re-writes every evidence/Cnn.json by a quick-tier run (seed 0) of the registered check, so that the committed
# evidence describes the run a fresh restore would make
cd "$(dirname "$0")/.."
IDS=$(python3 -c "import json;print(' '.join(c['property_id'] for c in json.load(open('MANIFEST.json'))['checks']))")
for p in $IDS; do VERIF_SEED=0 ./check $p --tier quick | tail -1; done
