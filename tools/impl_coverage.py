#!/venv/bin/python
"""tools/impl_coverage.py: line coverage of /repo/shangrla achieved by the harness' calls into the real code
(all groups, quick budgets, implementation + oracles only; no driver). Prints per-file coverage and the
uncovered line ranges of the anchored files -- places where a change could not be noticed."""
import sys, os, json, importlib, coverage, warnings
sys.path.insert(0, os.path.dirname(os.path.dirname(os.path.abspath(__file__))))
warnings.simplefilter("ignore")
cov = coverage.Coverage(source=["/repo/shangrla"], data_file=None)
cov.start()
from harness.core import Rng, impl_call
from harness.props import PROPS
done = set()
for pid, P in sorted(PROPS.items()):
    for gname, budget in P["groups"].items():
        G = importlib.import_module(f"harness.groups.{gname}")
        oracle = getattr(G, "ORACLES", {}).get(pid)
        key = (gname, pid if oracle else None)
        if (gname, None) in done and not oracle:
            continue
        done.add((gname, None))
        rng = Rng(int(pid[1:]))
        n = min(budget[0], 400)
        cases = list(G.corpus()) + list(G.gen(rng, n, "quick"))
        for c in cases:
            ir = impl_call(G.impl, c)
            if oracle:
                try:
                    oracle(c, ir)
                except Exception:
                    pass
cov.stop()
import io
buf = io.StringIO()
cov.report(file=buf, show_missing=True, skip_empty=True)
print(buf.getvalue())
