#!/usr/bin/env python3
"""re-generates the seeded-change table inside DESIGN.md (between the SEEDED-TABLE markers)"""
import os, subprocess
here = os.path.dirname(os.path.abspath(__file__))
p = os.path.join(here, "..", "DESIGN.md")
s = open(p).read()
t = subprocess.run([os.path.join(here, "seeded_table.py")], capture_output=True, text=True).stdout
a = s.index("<!-- SEEDED-TABLE-BEGIN -->") + len("<!-- SEEDED-TABLE-BEGIN -->")
b = s.index("<!-- SEEDED-TABLE-END -->")
open(p, "w").write(s[:a] + "\n" + t + s[b:])
